import vlib

META = {
    "title": "Incremental hashing is invariant under chunking, cloning and reset (15 hash types)",
    "design_ref": "6/C08",
    "technique": "Coq proof: characterisation of block-buffer input_block/input_lazy (emitted blocks and buffered tail are a function of buffered bytes ++ input), input_*_app, invariant over operation histories on instance tables, parametric in state / per-block closure / finalisation / block size; differential correspondence of the buffering model with the implementation on generated histories (buffer position, bytes compressed by the implementation's own counter, buffered bytes after every operation; every digest = the implementation's one-shot digest of the byte string the model predicts), plus the property evaluated directly on the implementation",
    "level_text": "Machine-checked theorems of Props/C08.v about Model/Hasher.v + Model/BlockBuffer.v: for every hasher built like the 15 structs (state, block-buffer 0.9 buffer fed eagerly or lazily, per-block closure incl. its counter update, finalisation that ignores stale buffer bytes, reset = Default) and every history of update/clone/reset/finalize_reset/finalize on a table of instances, each returned digest is the one-shot hash of the bytes that instance absorbed since creation or last reset (C08_hasher_history_correct), any partition into update calls equals one call (C08_update_chunks, C08_chunking_invariant), clone and origin evolve independently (C08_clone_independent), a reset instance behaves like a new one (C08_reset_like_new); the four struct shapes of /repo satisfy the hypotheses for any compression function (C08_shapes_ok). Props/C08_real.v composes this with conformance (C04-C07) for the REAL hashers: the records carrying the compression and finalisation functions of Model/{Groestl,Blake,JH,Skein}.v are hasher_ok and their one-shot functions are the models' digest functions (C08_real_hashers_ok, C08_real_oneshot_is_model, C08_real_groestl_lockstep), hence in every history every digest returned by any of the 15 types is the SPECIFICATION's digest of the bytes absorbed, below the family's length bound (C08_real_groestl224/256/384/512_history, C08_real_blake224/256/384/512_history, C08_real_jh_history, C08_real_skein_history for every output size and both unroll settings, and the *_history_update_bytes forms whose hypothesis is only on the bytes passed to update). The model is tied to the code by running the same histories on all 15 types (Skein with 3 output sizes each) and on the model inside coqc (vm_compute).",
    "level_note": "Trusted: Coq kernel+VM; hand-written model of block-buffer 0.9 input_block/input_lazy and of the update/reset/clone plumbing of the four lib.rs files (tied only on generated histories, through the verif_get_state hooks); that finalize_into_dirty of each crate reads only state and buffered bytes (hypothesis fin_ok; discharged per hash in C04-C07 models); aliasing inside Clone is a run-time matter the functional model cannot exhibit and is covered only by the correspondence (state of every other slot compared before/after each operation). No axioms.",
    "rule": "cases = (hash type, history of {update(slot, piece), clone(slot), reset(slot), finalize_reset(slot), finalize(slot)} on a growing table of instances); directed histories first (empty message, 20 three-piece partitions around the block boundaries incl. exactly two blocks in one piece and 3*block+7, byte-by-byte, clone-then-diverge at 8 fill levels, reset mid-buffer / after many blocks / finalize_reset-then-reuse at 8 fill levels), then random histories with piece lengths from {0,1,bs-1,bs,bs+1,2bs,3bs+7, fill the buffer exactly (= one full block pending for Skein), fill-1, fill+1, fill+bs, fill+2bs, random small, random multi-block}; distinct = distinct (type, ops); non-trivial = returns at least one digest, absorbs at least one byte, at least 3 operations; the harness checks every digest against Digest::digest of the absorbed bytes, state after reset against Default, clone state against origin, and that no operation changes another slot",
    "assumptions": ["little-endian host", "digest 0.9 Digest/FixedOutput provided methods only forward to update / finalize_into_dirty / reset"],
    "trusted_extra": ["verification hooks verif_get_state of blake-hash, groestl-aesni, jh-x86_64, skein-hash (read-only accessors under cfg(cryptocorrosion_verif))"],
}


def run(ctx):
    vlib.standard_proof_stage(ctx, extra_props=("C08_real",))
    count = 80 if ctx.quick else 500
    maxops = 12 if ctx.quick else 20
    for profile in (("debug",) if ctx.quick else ("debug", "release")):
        binary, log = vlib.cargo_build(profile=profile, bin_name="h_hasher")
        if binary is None:
            raise vlib.CheckError("harness build failed (%s): %s" % (profile, log[-2000:]))
        # coqc needs ~1.7 GB per MB of case file (hex literal elaboration): keep the shards small
        s = vlib.correspondence(ctx, binary, "hist", ["--count", count, "--maxops", maxops],
                                "histories/%s" % profile, shards=32 if ctx.quick else 96)
        vlib.decide_relative(ctx, s, explain="explain_c08", theorem="C08_hasher_history_correct",
                             what="Model/Hasher.v + Model/BlockBuffer.v run with the logging hasher; digests compared with the implementation's own one-shot digests")
