import os

import vlib

META = {
    "title": "ppv-lite86 data movement is lossless and consistently ordered on every back end",
    "design_ref": "6/C13",
    "technique": "Coq proof about intrinsic-level models of the x86-64 back ends (Model/Intrinsics.v, PpvSse.v, PpvAvx2.v): from_lanes/to_lanes round trips per S4 variant, little-endian storage views, insert/extract (SSE2 shuffle sequences and SSE4.1 pinsr/pextr), transpose4 (soft and AVX2 permute2x128), to_scalars lane order, LE/BE byte I/O, for all operands and all indices (symbolic conversion on byte variables, word lemmas); portable back end and soft.rs forwarding in Props/C13g.v; differential correspondence implementation = model = contract on generated cases for SSE2, SSSE3, SSE4.1, AVX, AVX2 and the portable back end; the intrinsic models are compared with this CPU on every run",
    "level_text": "Machine-checked theorems in Props/C13.v (x86-64 back ends) and Props/C13g.v (portable back end, soft.rs wrappers), all closed under the global context, for ALL operands and ALL indices: from_lanes / to_lanes put lane i at byte offset k*i little-endian and are mutually inverse for u32x4, u64x2, u128x1, u64x4 and the AVX2 types, in both SSE4.1 capability variants; extract (insert v x i) j = if i = j then x else extract v j with out-of-range indices panicking (pinsr/pextr forms and the NoS4 shuffle/shift/or sequences); the u32/u64/u128 storage views of the same 128/256/512 bits agree (little-endian); transpose4 is the 4x4 transpose (soft form and the AVX2 permute2x128 form); to_scalars lane order; StoreBytes read/write little- and big-endian are inverse and put the stated byte order per word; unpack/into round trip. Two statements were false on the pinned tree (P4: SSE u128x1 to_lanes/from_lanes panicked; P6: portable u64x4::insert was a no-op; repaired by fix: commits). Implementation = model = contract is checked on generated operands, every element index, byte-index patterns, on six back ends. Wide types on x86 (Proofs/PpvWideMove.v, PpvWideBytes.v): to/from_lanes, Vec2/Vec4 extract/insert for all indices (out-of-range panics), Store unpack / Into storage, StoreBytes little- and big-endian read/write of x2/x4 over SSE registers and x2 over AVX2 registers (byte order, wrong length panics, round trip): C13_wide_* theorems.",
    "level_note": "Trusted: Coq kernel+VM; Spec/Lanes.v; Model/Intrinsics.v (intrinsic semantics, validated against the host CPU on the same operand streams); hand-written models tied on generated cases; harness; that reading a union field / transmute of vec128/256/512_storage is the little-endian reinterpretation of the same bytes (x86-64). Some C13 statements are restatements that hold by unfolding (soft transpose4, u128x1 from_lanes, the storage views over the Spec's own reinterpret): they pin the model's definitions, the correspondence ties those to the code. No axioms.",
    "rule": "x86 back ends: for each machine from_lanes/to_lanes (round trip and each direction against storage), Store::unpack / Into<storage> through every array view, UnsafeFrom::unsafe_from of all four impls (u32x4 from [u32;4], u64x2 from [u64;2], x2<W,G> and x4<W> from lane arrays, on every type that has one), storage reinterpretation between 4/8/16-byte word views, Default and == of vec128/256/512_storage (equal pairs, pairs differing in exactly one walked bit, rhs through another view), extract/insert at every valid index and at out-of-range indices (panic expected; element values include all-ones, top-bit-only = 0xffffffff / 0x80000000 and the 64- / 128-bit analogues, all-but-top-bit and 0, inserted into counting / all-ones / zero vectors and extracted from vectors holding them in one element or in every element), read/write_le/be incl. wrong slice lengths (panic expected) on all ten vector types (incl. u64x2, u128x1, u64x2x4, u128x2, u128x4 beyond the Machine bounds), transpose4, to_scalars, u128xN -> u32/u64 vector conversions; operands built with Machine::unpack and read with Into<storage>: zero, all-ones, byte-index pattern, high-bit patterns, carry chains, seeded random, rhs-identity pairs (all-ones / zero against the byte-index pattern: every rhs lane different and the result is the rhs), walking-one basis (every bit for 128-bit types, every 7th bit for wider types in the quick tier, every 13th for the ':l' machines and the assign forms, every bit in thorough); quick tier: debug profile on SSE2, SSSE3:l, SSE41, AVX2 and SseMachine<YesS3,YesS4,YesNI>:l (AVX is the same Rust type as SSE41 and runs in release), release profile (opt-level 2, no debug assertions) on SSE2, AVX, AVX2 with the --light 2 stream (same operand classes, walking one every 29th/11th bit, 5 carry chains); thorough: all five machines full streams in both profiles + the YesNI instantiation of the SSE machine; distinct = distinct (machine, type, op, parameter, operands); non-trivial = some operand byte non-zero; implementation outcome (ok/panic) and result compared with the intrinsic-level model and with the lane-wise contract inside coqc. Raw intrinsics: each _mm_*/_mm256_* the crate issues, same streams, the immediates of the source plus boundary ones, compared with Model/Intrinsics.v; ADDED (seed C03-7): the byte slices given to read_le / read_be / write_le / write_be are placed at every offset 0..7 from an 8-byte boundary in turn, x86 and portable back ends (a memory operation is a function of the bytes, not of their address; an alignment requirement shows as a panic = a differing outcome)",
    "assumptions": ["little-endian x86-64 host with AVX2 (all five x86 machines are executed directly on it)"],
    "trusted_extra": [
        "x86 back ends: Model/Intrinsics.v gives the meaning of each intrinsic on byte-list registers; it is modelled, and compared with this host's CPU on every run (h_ppv intr)",
        "case files carry byte strings as Coq primitive-integer (Uint63) literals, converted to N inside Run/Ppv.v; proofs do not use primitive integers",
        "#[target_feature]/inlining: the harness calls the trait methods from plain functions; AVX and SSE41 are the same Rust types (VEX encoding is not modelled)",
    ],
}


def run(ctx):
    extra = ("C13g",) if os.path.exists(os.path.join(vlib.COQ, "Props", "C13g.v")) else ()
    vlib.standard_proof_stage(ctx, extra_props=extra)
    tier = "quick" if ctx.quick else "thorough"
    # (profile, raw-intrinsic stream?, [(configuration label, harness arguments)])
    # AVX is the same Rust type as SSE41 (one monomorphisation): the quick tier runs it in release only and gives its
    # debug slot to SseMachine<YesS3, YesS4, YesNI>, an instantiation no alias or dispatch macro names. SSSE3 = the
    # S3 code of SSE41 + the NoS4 code of SSE2: thinned walking-one stream (":l") in quick.
    if ctx.quick:
        plan = [("debug", True, [("x86/debug", ["--tier", tier, "--machine", "SSE2,SSSE3:l,SSE41,AVX2,SSE41NI:l"])]),
                ("release", False, [("x86/release", ["--tier", tier, "--light", 2, "--machine", "SSE2,AVX,AVX2"])])]
    else:
        plan = [(pr, True, [("x86/%s" % pr, ["--tier", tier]),
                            ("x86-NI/%s" % pr, ["--tier", "quick", "--machine", "SSE41NI"])])
                for pr in ("debug", "release")]
    for profile, intr, runs in plan:
        binary, log = vlib.cargo_build(profile=profile, bin_name="h_ppv")
        if binary is None:
            raise vlib.CheckError("h_ppv build failed (%s): %s" % (profile, log[-2000:]))
        if intr:
            ctx.log("x86 back ends, %s: raw intrinsics" % profile)
            s = vlib.correspondence(ctx, binary, "intr", ["--tier", tier], "x86-intrinsics/%s" % profile)
            vlib.decide_absolute(ctx, s, explain="explain_pi", theorem="(Model/Intrinsics.v is the trusted meaning of the instruction)")
        for label, args in runs:
            ctx.log("x86 back ends, %s: harness c13 %s" % (profile, " ".join(str(a) for a in args)))
            s = vlib.correspondence(ctx, binary, "c13", args, label, shards=16 if ctx.quick else 96)
            vlib.decide_absolute(ctx, s, explain="explain_px", theorem="C13_x86 theorems of Props/C13.v")
    try:
        from checks import ppvgen_part
    except ImportError:
        ctx.assumptions.append("portable back end part (checks/ppvgen_part.py) not present in this run")
        return
    META["trusted_extra"] = META["trusted_extra"] + list(getattr(ppvgen_part, "TRUSTED_EXTRA", []))
    ppvgen_part.run_part(ctx, "C13")
