import vlib

META = {
    "title": "Byte-slice APIs are alignment-independent and stay inside their buffers",
    "design_ref": "6/C16",
    "technique": "Coq proof about an ADDRESSED memory model (byte list + (offset,length) slices + partial accessors) of the generic shapes the crates use, plus directed differential runs of every byte-slice API under guard pages (mmap/mprotect, canaries, 64 alignments x 2 placements abutting unmapped pages, child processes) compared with the run on an ordinary aligned buffer",
    "level_text": "PARTIAL. Machine-checked (Props/C16.v, 30 theorems, all closed), for ALL memories, slice base addresses (= alignments) and lengths: (1) the FULL try_apply_keystream (lazy refill after a mid-block seek, len/fresh limit with the Err return, buffered prefix, 256-byte wide chunks, 64-byte tail incl. the partial block), written with accessors that fail outside the slice and run with the REAL block producers, never leaves the slice, changes nothing outside it, and returns exactly what the faithful model of C02/C11 (Model/ChaChaStream.v) returns on the slice's bytes (C16_stream_apply_real_eq_faithful_model); on every reachable cipher state that is the specified key stream xor the data, or Err with memory untouched (C16_stream_apply_reachable_value, C16_stream_apply_err_untouched); the simplified m_apply of the first theorems and of the runner is its special case (C16_m_apply_is_special_case[_real]); (2) hash update in both forms, eager input_block (Groestl, JH, BLAKE) and lazy input_lazy (Skein): reads only inside the slice, equals the block-buffer model on the bytes; (3) StoreBytes read_le/write_le/read_be/write_be and their x2 and x4 compositions: Ok exactly for the asserted lengths, the value read / the bytes written in address order, any other length is the panic with memory outside the slice unchanged, never an out-of-slice access; (4) in-place block operations; chunk splitting covers the data exactly once (C16_chunks_cover, C16_apply_segments_partition). OBSERVED, not proved (guard pages / canaries, h_mem): that the compiled code - intrinsics, unsafe pointer code in ppv-lite86 and the compression functions, rustc's code generation - performs no access outside the slice and needs no alignment when such an access would not change any value, and that the real entry points hand exactly these slices to the modelled shapes.",
    "level_note": "Proved: the byte-level contract of the model (which keeps addresses, so address independence is a theorem, not a by-construction fact). Only observed (h_mem, this run's counts are in coverage.configurations): every API of the 7 ChaCha types (apply_keystream, new(key), new(nonce)), update and finalize_into of the 15 hash types, Threefish-256/512/1024 encrypt_block/decrypt_block/new(key), StoreBytes read_le/read_be/write_le/write_be of all 10 vector types on the SSE2/SSSE3/SSE4.1(AVX)/AVX2 machines (the 5 the Machine bounds promise + u64x2, u128x1, u64x2x4, u128x2, u128x4) and of the 7 that have it on the portable machine, each on a slice starting a bytes after the first / ending a bytes before the last mapped byte (a = 0..63; a = 0 abuts a PROT_NONE page) at every length class, plus a sweep of 64 consecutive lengths per class at a = 0 so that the free end takes every alignment; result, slice content, ok/panic outcome equal to the aligned-buffer run; canary outside the slice intact; signals reported per case. Groestl's AES-NI/SSSE3/SSE2 choice cannot be forced without a hook (host choice only). Tie model <-> code: a sample of cases (memory window before/after) is recomputed by Run/SliceApi.v with oracle bytes from the aligned run.",
    "rule": "case = (API, placement head|tail, a in 0..63, length, pre-state code); distinct = distinct tuples; non-trivial = length > 0; "
            "lengths (quick): 19 classes 0..1024 at every a, sweeps of 64 consecutive lengths at 7 bases (a = 0, both placements), the large classes 2048 / 4096 / 4097 "
            "(span a page / cross the inner page boundary) at a in {0,1,15,16,31,32,33,63}, a sweep 4032..4095 ending at the last mapped byte, and 8192 / 16385 / 65536 (variable-length APIs, slice ending a = 0, 1, 63 bytes before the unmapped page, in a second arena of 17 pages); wrong lengths for fixed-size APIs; "
            "configurations (quick): host dispatch debug + release (all families), hook H1 forced to SSE2 and to SSE4.1 in release (ChaCha family; a failed `h1` build is a reported problem), "
            "portable (no_simd) release; thorough: H1 levels 1..5 (chacha, hash) and longer lengths; "
            "each case: guarded run vs aligned-heap run of the same implementation (direct_failures = violations with the placement as replay); a sample of <= 480 cases (<= 160 on the forced "
            "back ends) per configuration, cases of length <= 320 only, an even stride over the case list rotated by seed mod stride (recorded as coq_sample), is re-computed in coqc by the "
            "addressed model (disagreement alone = correspondence broken)",
    "assumptions": ["little-endian x86-64 Linux host, 4 KiB pages", "an out-of-slice access that stays inside the same mapped page run and changes neither the result nor the canary is invisible to the runs"],
    "trusted_extra": ["mmap/mprotect/fork semantics of the host kernel (guard pages)"],
}

WHAT = "addressed slice model of Model/SliceApi.v: window after the call = write of the oracle payload at the slice's offset, nothing else changed"


def one(ctx, binary, label, extra=()):
    # the harness takes the FIRST occurrence of an option: `extra` overrides the defaults
    args = list(extra) + ["--quick", 1 if ctx.quick else 0, "--coqcases", 480 if ctx.quick else 1600]
    s = vlib.correspondence(ctx, binary, "mem", args, label)
    ctx.log("%s: %d cases, %d failing, %d Coq window cases, model disagreements %s, signals %s" % (
        label, s.get("evaluations", 0), s.get("failing_cases", 0), s.get("coq_window_cases", 0),
        s["failing"][:5], s.get("signals")))
    vlib.decide_relative(ctx, s, explain="explain_mem", theorem="C16_apply_keystream_writes_exactly / C16_storebytes_write_exactly / C16_block_apply_exactly", what=WHAT)
    return s


NAMES = {1: "sse2", 2: "ssse3", 3: "sse4.1", 4: "avx", 5: "avx2"}


def _h1_binary(ctx):
    """h_mem with the `h1` feature (calls ppv_lite86::x86_64::verif::set_level). A failed build is a reported problem:
    the forced back ends are part of what this check claims to have run."""
    binary, log = vlib.cargo_build(features=("h1",), profile="release", bin_name="h_mem")
    if binary is None:
        ctx.log("h1 build failed: back-end forcing not possible")
        ctx.violation({"kind": "harness-build-failed", "config": "h_mem --features h1 (release)",
                       "errors": [log[-2000:]],
                       "note": "hook H1 (ppv_lite86::x86_64::verif::set_level) is not available to the harness: the slice APIs "
                               "could not be run on the forced SSE2/SSE4.1 back ends; only host dispatch was exercised"},
                      no_input=True)
    return binary


def run(ctx):
    vlib.standard_proof_stage(ctx)
    for profile in ("debug", "release"):
        binary, log = vlib.cargo_build(profile=profile, bin_name="h_mem")
        if binary is None:
            raise vlib.CheckError("harness build failed (h_mem %s): %s" % (profile, log[-2000:]))
        st = vlib.run_harness(binary, ["selftest"])
        if not st.get("selftest_ok"):
            raise vlib.CheckError("guard-page self-test failed (a deliberate 1-byte over-read/over-write/aligned load was not reported): %s" % st)
        one(ctx, binary, "host/%s" % profile)
    if ctx.quick:
        # forced back ends (hook H1): the SSE2 machine (what dispatch_light128! picks below AVX, and dispatch! on an old
        # CPU) and the SSE4.1 machine, ChaCha family (every slice API of the 7 stream types)
        binary = _h1_binary(ctx)
        if binary is not None:
            for level in (1, 3):
                one(ctx, binary, "H1-%s/release" % NAMES[level], ["--level", level, "--families", "chacha", "--coqcases", 160])
        # the portable back end (its byte loads go through zerocopy conversions, not raw pointers)
        binary, log = vlib.cargo_build(features=("no_simd",), profile="release", bin_name="h_mem")
        if binary is None:
            raise vlib.CheckError("harness build failed (h_mem no_simd): %s" % log[-2000:])
        one(ctx, binary, "no_simd/release", ["--families", "chacha,hash,storebytes"])
        return
    # every back end: run-time dispatch capped through hook H1, and the portable one
    binary = _h1_binary(ctx)
    if binary is not None:
        for level in (1, 2, 3, 4, 5):
            one(ctx, binary, "H1-%s/release" % NAMES[level], ["--level", level, "--families", "chacha,hash"])
    binary, log = vlib.cargo_build(features=("no_simd",), profile="release", bin_name="h_mem")
    if binary is None:
        raise vlib.CheckError("harness build failed (h_mem no_simd): %s" % log[-2000:])
    one(ctx, binary, "no_simd/release")


def warm():
    for kw in (dict(profile="debug"), dict(profile="release"), dict(features=("h1",), profile="release"),
               dict(features=("no_simd",), profile="release")):
        binary, log = vlib.cargo_build(bin_name="h_mem", **kw)
        print("warm C16 %s: %s" % (kw, "ok" if binary else "FAILED"))
