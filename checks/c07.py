import vlib

META = {
    "title": "Groestl-224/256/384/512 digests conform to the Groestl specification for every message",
    "design_ref": "6/C07 (+ Groestl part of 6/C17)",
    "technique": "Coq proof about a register-level model of compressor.rs/lib.rs (byte-list models of the SSE2/SSSE3/AES-NI intrinsics) against a byte-matrix specification with the AES S-box defined as inverse + affine map; KAT-anchored spec; differential correspondence impl = model = spec on digests (two update calls), on states entered through hook H2, and on the raw intrinsics executed by this host's CPU",
    "level_text": "Machine-checked theorems in Props/C07.v, all closed under the global context: C07_groestl224/256/384/512_eq_spec (for EVERY message of fewer than 2^64 blocks including padding, the register-level model of lib.rs + compressor.rs returns the digest of the byte-matrix specification: full, not partial), built from C07_sbox_table_is_definition / C07_sbox_fast_is_definition / C07_gf_inv_is_inverse (the S-box aesenclast applies is inverse-then-affine), C07_mul2_eq_xtime and the linear-form checker (the xor/rotate/mul2 network of submix is MixBytes = circ(02,02,03,04,05,03,05,07)), the shuffle-mask lemmas (AddRoundConstant + ShiftBytes / ShiftBytesWide through pshufb after AES ShiftRows), C07_rounds_p_q_eq_spec / C07_rounds_p_eq_spec / C07_rounds_q_eq_spec (10 resp. 14 rounds on the transposed row layout = P and Q), C07_tf512_eq_f / C07_tf1024_eq_f (compression function), C07_of512_eq_omega / C07_of1024_eq_omega (output transformation), C07_schedule_eq_spec / C07_schedule_recorded (update + finalize feed exactly the padded message with the big-endian block count, from any buffered state and any prior count, incl. the <=8-bytes-left boundary). Props/C17_groestl.v adds exactness of the counter and conformance from entered states. The specification reproduces 16 published vectors (C07_kats). Implementation = model = spec is checked on generated cases (digests with two update calls, hook-entered states, the raw intrinsics against this CPU).",
    "level_note": "Trusted: Coq kernel+VM; spec transcription (anchored by 31 vectors); intrinsic semantics (compared with this CPU on generated operands); hand-written model tied to the code on generated cases; harness; hook H2. Modelled are the shared *_impl bodies of compressor.rs and lib.rs; NOT modelled: the three wrapper modules aes / ssse3 / sse2 (each calls the same body under another #[target_feature]; the sse2 and ssse3 entries still execute pshufb / aesenclast), the lazy_static autodetect with its panic!, and code generation under #[target_feature] (selection logic: C20; first-use race: C18). No axioms.",
    "rule": "cases = digests (variant, message, split point of two update calls): one_long_update (full debug stream only; split = 0, i.e. an empty update and then the WHOLE message in one call: 8 KiB and 16 KiB + 1 for Groestl-224/256, 8 KiB for Groestl-384, 8 KiB and 12 KiB + 1 for Groestl-512, each in its own Coq shard; contents the computable sequence LP (byte i = x_i >> 8, x_(i+1) = 5 x_i + 12345 mod 2^16; defined in the header of the generated case files, so the case carries no 64 KiB literal)), every length 0..2*block+1 (quick: all for Groestl-256, all up to block+1 and every second beyond for Groestl-512, boundary lengths r in {0,1,bs-10..bs-6,bs-1} plus a rotating quarter for 224/384), 3..7-block messages around the <=8-bytes-left boundary, thorough: 255/256/257-block messages; contents random/zero/ones/counting/structured; entered states (hook H2): 16 real states read back, arbitrary chaining values with block_counter at 2^k-d (k=8,16,24,32,40,48,56,64) and 8 buffered/tail shapes (0/1/2 blocks emitted, one or two final blocks) in debug and release profile (overflow at 2^64: debug panics, release wraps; compared with the spec whenever the total stays below 2^64 blocks); intrinsics: every intrinsic compressor.rs issues on index patterns, walking bits, sign-boundary bytes, the masks of the code, all 256 byte values for aesenclast/add/cmpgt/mul2; distinct = distinct rendered case; trivial = intrinsic case with all-zero operands; implementation compared with model and spec inside coqc; the LENGTH of every digest returned is checked in the harness against the variant's size (28/32/48/64 bytes: the Coq runner cuts the digest literal to that size) and plain digest calls run under catch_unwind: a wrong length or a panic on a plain message is a direct failure with the case as failing input; the quick-tier rotation of the 8 buffered/tail shapes over (boundary, variant) also rotates with the seed; entered states whose block count reaches 2^64 are tagged domain = beyond in the case JSON (their behaviour as written stays pinned: debug panics, release wraps)",
    "assumptions": ["little-endian x86-64 host with SSSE3 and AES-NI (the aes:: code path; the ssse3::/sse2:: modules run the same body)",
                    "messages of fewer than 2^64 blocks including padding (the format limit)"],
}


def run(ctx):
    vlib.standard_proof_stage(ctx)
    tier = "quick" if ctx.quick else "thorough"
    # third configuration: the SIMD target features of this machine enabled at compile time
    # (-C target-feature=+ssse3,+sse4.1,+aes,+avx,+avx2), so that cfg(target_feature) arms run
    native = tuple(vlib.native_rustflags())
    plans = [("debug", "all", ()), ("release", "reduced" if ctx.quick else "all", ())]
    if native:
        plans.append(("release", "reduced", native))
    for profile, streams, rf in plans:
        binary, log = vlib.cargo_build(profile=profile, bin_name="h_groestl", rustflags=rf)
        if binary is None:
            raise vlib.CheckError("harness build failed (h_groestl %s): %s" % (profile, log[-2000:]))
        s = vlib.correspondence(ctx, binary, "groestl",
                                ["--tier", tier, "--streams", streams, "--runner", "run_c07"],
                                "groestl/%s/%s%s" % (profile, streams, "/native-target-features" if rf else ""))
        vlib.decide_absolute(ctx, s, explain="explain_c07",
                             theorem="C07_groestl224_eq_spec / C07_groestl256_eq_spec / C07_groestl384_eq_spec / C07_groestl512_eq_spec")
