import vlib

META = {
    "title": "BLAKE-224/256/384/512 digests conform to the BLAKE specification for every message",
    "design_ref": "6/C04",
    "technique": "Coq proof: symbolic conversion of the vectorised column/diagonal round to the index-wise G schedule, case analysis on the buffer position for padding and counters, induction over blocks; KAT-anchored spec; differential correspondence impl = model = spec",
    "level_text": "Machine-checked, for the model of hashes/blake/src/lib.rs: C04_blake{224,256}_eq_spec (every message with fewer than 2^64 bits) and C04_blake{384,512}_eq_spec (fewer than 2^128 bits): model digest = digest of the index-wise BLAKE specification; C04_updates_eq_spec: the same for every split over update calls. Built from C04_round_eq_spec (vectorised column/diagonal round = G_0..G_7 with sigma, any word operations), C04_compress_eq_spec_32/64 (put_block = compression function), C04_schedule_eq_spec (for every compressor the hasher feeds exactly the specified padded blocks and counters, t = 0 for a padding-only block, 55/56 and 111/112 boundary by case analysis). Props/C17_blake.v: the two-word bit counter is exact across the 2^32 / 2^64 carry and no overflow check can fire below the format limit. The spec reproduces 12 published vectors (C04_kats). Implementation = model = spec is checked on generated cases (one-shot, multi-update, hook-entered states).",
    "level_note": "Trusted: Coq kernel+VM; spec transcription (constants, sigma, IVs validated by the published vectors); hand-written model tied on generated cases; harness. No axioms.",
    "rule": "cases = (variant, message) one-shot digests over every length 0..3*block+1 and sparse longer ones, two-call updates, ONE update call with a long message (full debug stream: 8 KiB and 16 KiB + 1 per variant, 64 KiB + 1 instead of 16 KiB + 1 for one variant rotating with the seed; reduced release stream: 8 KiB per variant; not in the tiny streams; contents the computable sequence LP (byte i = x_i >> 8, x_(i+1) = 5 x_i + 12345 mod 2^16; defined in the header of the generated case files, so the case carries no 64 KiB literal); evidence: digests_of_one_long_update), and hook-entered states (chaining value, counter, buffered, tail); distinct = distinct canonical case; non-trivial = non-empty message or hook state; implementation digest compared with model and with spec inside coqc; the LENGTH of every digest returned is checked in the harness against the variant's size (28/32/48/64 bytes: the Coq runner cuts the digest literal to that size, so a changed output-size type would otherwise be invisible) and every call into the implementation runs under catch_unwind: a wrong length or a panic on an input inside the format limits is a direct failure with the case as failing input; cases from the reset streams carry the digest of the reset object in both the Coq literal and the replay JSON; the real_stream classes of C17 (h_blake --real / --big-update) are described there",
    "assumptions": ["little-endian host", "ppv-lite86 vector operations have their lane meaning (C12/C13)"],
}


def run(ctx):
    vlib.standard_proof_stage(ctx, extra_props=("C17_blake",))
    th = "C04_blake224_eq_spec / C04_blake256_eq_spec / C04_blake384_eq_spec / C04_blake512_eq_spec"
    binary, log = vlib.cargo_build(profile="debug", bin_name="h_blake")
    if binary is None:
        raise vlib.CheckError("harness build failed: %s" % log[-2000:])
    s = vlib.correspondence(ctx, binary, "blake", ["--tier", ctx.tier], "blake/debug")
    vlib.decide_absolute(ctx, s, explain="explain_blake", theorem=th)
    # release profile; every SIMD back end forced through hook H1 (1..5 = SSE2, SSSE3, SSE4.1, AVX, AVX2:
    # the host's run-time detection only ever selects one of them); this machine's SIMD target features
    # enabled at compile time (cfg(target_feature) arms)
    rel, log = vlib.cargo_build(profile="release", bin_name="h_blake")
    if rel is None:
        raise vlib.CheckError("harness build failed (release): %s" % log[-2000:])
    streams = "reduced" if ctx.quick else "all"
    s = vlib.correspondence(ctx, rel, "blake", ["--tier", ctx.tier, "--streams", streams], "blake/release/%s" % streams)
    vlib.decide_absolute(ctx, s, explain="explain_blake", theorem=th)
    for level, name in ((1, "sse2"), (2, "ssse3"), (3, "sse41"), (4, "avx"), (5, "avx2")):
        s = vlib.correspondence(ctx, rel, "blake", ["--tier", "quick", "--streams", "tiny", "--level", level],
                                "blake/release/tiny/forced-%s" % name)
        vlib.decide_absolute(ctx, s, explain="explain_blake", theorem=th + " (back end: C03/C12/C13)")
    native = tuple(vlib.native_rustflags())
    if native:
        nb, log = vlib.cargo_build(profile="release", bin_name="h_blake", rustflags=native)
        if nb is None:
            raise vlib.CheckError("harness build failed (release, %s): %s" % (" ".join(native), log[-2000:]))
        s = vlib.correspondence(ctx, nb, "blake", ["--tier", "quick", "--streams", "tiny"],
                                "blake/release/tiny/native-target-features")
        vlib.decide_absolute(ctx, s, explain="explain_blake", theorem=th)
