import vlib

META = {
    "title": "BLAKE-224/256/384/512 digests conform to the BLAKE specification for every message",
    "design_ref": "6/C04",
    "technique": "Coq proof: symbolic conversion of the vectorised column/diagonal round to the index-wise G schedule, case analysis on the buffer position for padding and counters, induction over blocks; KAT-anchored spec; differential correspondence impl = model = spec",
    "level_text": "Machine-checked, for the model of hashes/blake/src/lib.rs: C04_blake{224,256}_eq_spec (every message with fewer than 2^64 bits) and C04_blake{384,512}_eq_spec (fewer than 2^128 bits): model digest = digest of the index-wise BLAKE specification; C04_updates_eq_spec: the same for every split over update calls. Built from C04_round_eq_spec (vectorised column/diagonal round = G_0..G_7 with sigma, any word operations), C04_compress_eq_spec_32/64 (put_block = compression function), C04_schedule_eq_spec (for every compressor the hasher feeds exactly the specified padded blocks and counters, t = 0 for a padding-only block, 55/56 and 111/112 boundary by case analysis). Props/C17_blake.v: the two-word bit counter is exact across the 2^32 / 2^64 carry and no overflow check can fire below the format limit. The spec reproduces 12 published vectors (C04_kats). Implementation = model = spec is checked on generated cases (one-shot, multi-update, hook-entered states).",
    "level_note": "Trusted: Coq kernel+VM; spec transcription (constants, sigma, IVs validated by the published vectors); hand-written model tied on generated cases; harness. No axioms.",
    "rule": "cases = (variant, message) one-shot digests over every length 0..3*block+1 and sparse longer ones, two-call updates, and hook-entered states (chaining value, counter, buffered, tail); distinct = distinct canonical case; non-trivial = non-empty message or hook state; implementation digest compared with model and with spec inside coqc",
    "assumptions": ["little-endian host", "ppv-lite86 vector operations have their lane meaning (C12/C13)"],
}


def run(ctx):
    vlib.standard_proof_stage(ctx, extra_props=("C17_blake",))
    binary, log = vlib.cargo_build(profile="debug", bin_name="h_blake")
    if binary is None:
        raise vlib.CheckError("harness build failed: %s" % log[-2000:])
    s = vlib.correspondence(ctx, binary, "blake", ["--tier", ctx.tier], "blake/debug")
    vlib.decide_absolute(ctx, s, explain="explain_blake", theorem="C04_blake256_eq_spec")
