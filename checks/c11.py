import vlib

META = {
    "title": "ChaCha key-stream exhaustion is an atomic error; no counter wrap, no key-stream reuse",
    "design_ref": "6/C11",
    "technique": "Coq proof: the Buffer invariant of C02 gives apply = Ok iff pos + n <= limit, Err leaves data/position/invariant unchanged, seek past the end is Err never Panic; differential correspondence on histories concentrated at the limits, result codes and data compared with the model (absolute), bytes through the implementation's block oracle",
    "level_text": "Machine-checked theorems of Props/C11.v about Model/ChaChaStream.v: IETF apply succeeds exactly when pos + n <= 2^38 and otherwise returns Err with data, position and invariant unchanged; IETF try_seek succeeds exactly for p <= 2^38 and never panics; seek to the limit then apply of 0 bytes is Ok; the 64-bit variants never exhaust below 2^64 bytes; every byte produced is key stream of a block index below the limit with the nonce words as constructed (no reuse). Model tied to the code on generated boundary histories in debug and release profiles. All ten theorems are also pinned as closed instances for the REAL block producers of Model/ChaChaGuts.v and the seven constructors (C11_real_*: no producers_spec hypothesis left, only byte-ness and lengths of key and nonce), with the profile-explicit versions of Props/C02.v (C02_profile_*).",
    "level_note": "Trusted: Coq kernel+VM; hand-written model of rustcrypto_impl.rs (tied only on generated histories); block producers specified by blockfn as Section hypotheses; harness and case printer. No axioms.",
    "rule": 'cases = histories of {seek::<T>(p), apply(n), current_pos::<T>()}: 6 corpus, 168 boundary-directed (14 kinds '
            'round-robin, every other round on the IETF variant; see C02: exactly to the end, one past, after the final '
            'block, repeated refused applies, empty applies at the end and while the last block is pending, seeks far '
            'past the end, 4-5 KiB calls that would cross 2^38 refused whole), the rest random and concentrated within 4 '
            'blocks of 0, 2^32 blocks, k*2^32 blocks, 2^38 bytes and 2^64-1 bytes (64-bit variants); every SeekNum type '
            'incl. negative i32, u128 up to 2^128-1 (top bit set), for IETF u64/usize/u128 seeks anywhere in (2^38, '
            '2^64]: 2^38+1.., 2^38+2^12, 2^39, 3*2^38, k*2^38 (block count 0 mod 2^32), 2^63, u64::MAX, 2^64+x; half of '
            'the random histories on the IETF variant; host debug + release 300, forced SSE2 release 100, portable debug '
            '100; distinct = distinct (variant,key,nonce,ops); non-trivial = applies at least one byte and (mid-block '
            'seek or more than 3 ops); after every refused apply or seek the harness checks: data unchanged, '
            'current_pos::<u128>() still the position before the call, a clone of the Buffer yields the next key-stream '
            'byte (at the very end: refuses one more byte; within 4 KiB of the end: the bytes exactly up to the end), and '
            'the following operations against the abstract position',
    "assumptions": ["little-endian host", "cipher 0.3 StreamCipher/StreamCipherSeek provided methods only forward to try_apply_keystream/try_seek/try_current_pos"],
}


def run(ctx):
    vlib.standard_proof_stage(ctx)
    n = 300 if ctx.quick else 5000
    maxops = 10 if ctx.quick else 24
    m = 100 if ctx.quick else 1000
    # (profile, harness features, forced back-end level, label, histories): the counter arithmetic under the limits
    # (inc_block_ct / add_pos / seek32 / seek64) is back-end code, so one forced x86 back end and the portable one too
    plans = [("debug", (), 0, "limits", n), ("release", (), 0, "limits", n),
             ("release", (), 1, "limits/forced-sse2", m), ("debug", ("no_simd",), 0, "limits/portable", m)]
    for profile, feats, level, label, cnt in plans:
        binary, log = vlib.cargo_build(features=feats, profile=profile, bin_name="h_chacha")
        if binary is None:
            raise vlib.CheckError("harness build failed (%s %s): %s" % (profile, feats, log[-2000:]))
        s = vlib.correspondence(ctx, binary, "hist",
                                ["--mode", "c11", "--count", cnt, "--maxops", maxops, "--big", 0, "--level", level],
                                "%s/%s" % (label, profile))
        ctx.log("%s/%s: %d histories, %s refused applies, %s refused seeks (%s IETF seeks far past the end, %s u128 with the top bit), %d disagree, %d direct failures" %
                (label, profile, s.get("evaluations", 0), s.get("refused_applies"), s.get("refused_seeks"),
                 s.get("ietf_seeks_far_past_the_end"), s.get("u128_seeks_with_top_bit"), len(s["failing"]), len(s.get("direct_failures", []))))
        vlib.decide_absolute(ctx, s, explain="explain_hist", theorem="C11_ietf_apply_ok_iff, C11_apply_err_atomic, C11_ietf_seek_ok_iff")
