import vlib

META = {
    "title": "ChaCha key-stream exhaustion is an atomic error; no counter wrap, no key-stream reuse",
    "design_ref": "6/C11",
    "technique": "Coq proof: the Buffer invariant of C02 gives apply = Ok iff pos + n <= limit, Err leaves data/position/invariant unchanged, seek past the end is Err never Panic; differential correspondence on histories concentrated at the limits, result codes and data compared with the model (absolute), bytes through the implementation's block oracle",
    "level_text": "Machine-checked theorems of Props/C11.v about Model/ChaChaStream.v: IETF apply succeeds exactly when pos + n <= 2^38 and otherwise returns Err with data, position and invariant unchanged; IETF try_seek succeeds exactly for p <= 2^38 and never panics; seek to the limit then apply of 0 bytes is Ok; the 64-bit variants never exhaust below 2^64 bytes; every byte produced is key stream of a block index below the limit with the nonce words as constructed (no reuse). Model tied to the code on generated boundary histories in debug and release profiles. All ten theorems are also pinned as closed instances for the REAL block producers of Model/ChaChaGuts.v and the seven constructors (C11_real_*: no producers_spec hypothesis left, only byte-ness and lengths of key and nonce), with the profile-explicit versions of Props/C02.v (C02_profile_*).",
    "level_note": "Trusted: Coq kernel+VM; hand-written model of rustcrypto_impl.rs (tied only on generated histories); block producers specified by blockfn as Section hypotheses; harness and case printer. No axioms.",
    "rule": "cases = histories of {seek::<T>(p), apply(n), current_pos::<T>()} concentrated within 4 blocks of 0, 2^32 blocks, 2^38 bytes (IETF end: exactly to the end, one past, after the final block) and 2^64-1 bytes (64-bit variants), every SeekNum type incl. negative i32; half of the histories on the IETF variant; distinct = distinct (variant,key,nonce,ops); non-trivial = applies at least one byte and (mid-block seek or more than 3 ops); after every failed apply the harness checks the data is unchanged and the following output against the abstract position",
    "assumptions": ["little-endian host", "cipher 0.3 StreamCipher/StreamCipherSeek provided methods only forward to try_apply_keystream/try_seek/try_current_pos"],
}


def run(ctx):
    vlib.standard_proof_stage(ctx)
    n = 300 if ctx.quick else 5000
    maxops = 10 if ctx.quick else 24
    for profile in ("debug", "release"):
        binary, log = vlib.cargo_build(profile=profile, bin_name="h_chacha")
        if binary is None:
            raise vlib.CheckError("harness build failed (%s): %s" % (profile, log[-2000:]))
        s = vlib.correspondence(ctx, binary, "hist",
                                ["--mode", "c11", "--count", n, "--maxops", maxops, "--big", 0],
                                "limits/%s" % profile)
        vlib.decide_absolute(ctx, s, explain="explain_hist", theorem="C11_ietf_apply_ok_iff, C11_apply_err_atomic, C11_ietf_seek_ok_iff")
