import vlib

META = {
    "title": "ChaCha keystream equals the specified ChaCha function at every position",
    "design_ref": "6/C01",
    "technique": "Coq proof: symbolic conversion of the vectorised double round (round/diagonalize/round/undiagonalize) "
                 "to the index-wise quarter-round schedule, induction on the number of double rounds, layout lemmas for "
                 "init_chacha/init_chacha_x (HChaCha); KAT-anchored spec; differential correspondence impl = model = spec "
                 "through apply_keystream after seek on the seven cipher types, debug and release, every x86 back end",
    "level_text": "Machine-checked theorems (Props/C01.v): C01_dround_eq_spec (one vectorised double round = the eight "
                  "specified quarter rounds), C01_refill_eq_block (refill output = LE serialisation of the specified block "
                  "function on sigma++b++c++d for EVERY number of double rounds incl. 0), C01_init_layout_djb/_ietf/_x "
                  "(constructors + seek give the specified 16-word layouts; X: HChaCha subkey), C01_block_djb/_ietf/_x "
                  "(constructor, seek to block ctr, refill = spec_block), C01_wide_lanes_eq_narrow. The spec reproduces "
                  "RFC 7539 2.3.2/2.4.2, the HChaCha20 draft vector, the ChaCha8/12/20 zero-key vectors and the four "
                  "vectors of the repository (C01_kats). End to end (Proofs/ChaChaCompose.v, composing the block theorems with the C02 "
                  "history theorem and C14): C01_apply_keystream_eq_spec / C01_model_history_eq_spec_machine (for the seven cipher "
                  "types, every key, nonce and EVERY finite history of seek / apply_keystream / current_pos the model of the "
                  "wrapper behaves as the abstract position machine over the specified key stream, byte p = byte p mod 64 of "
                  "the specified block p / 64, and no step panics), C01_seek_apply_after_history_eq_spec / C01_seek_apply_eq_spec "
                  "(seek p then apply data returns Spec.ChaCha.spec_apply at p, after any history), C01_spec_apply_bytes, "
                  "C01_refill_at_counter_eq_spec_block; the RFC 7539 2.4.2 vector goes through seek+apply by the theorem. "
                  "Implementation = model = spec is checked by running seek+apply_keystream (a third of the cases after a "
                  "prefix history on the same object) on generated cases inside coqc.",
    "level_note": "Trusted: Coq kernel+VM; Spec/ChaCha.v transcription (anchored by 10 published vectors); hand-written "
                  "model Model/ChaChaGuts.v + Model/ChaChaStream.v tied on generated cases; harness. No axioms.",
    "rule": 'cases = (cipher type, key, nonce, [prefix history on the same object: boundary-directed (14 kinds, incl. '
            'multi-KiB applies) or random seeks/applies/position queries, every third case; a panic inside the prefix is '
            'a failure], measured seek of ANY SeekNum type that holds the position (u8..u128, usize, i32; first 14 cases '
            'u64), byte position, data) from seeded xoshiro: 7 types round-robin; first 14 cases fixed patterns at '
            'position 0 and 64; then positions near 0, 2^32 blocks (low counter word carry), k*2^32 blocks for k = 2, 3, '
            'random odd k and 2^26-1 (second and later carries, high word odd), 2^38 (IETF end), 2^64, random; lengths '
            '0..320 (thorough: ..1100) covering buffered prefix, 256-byte wide path and tail; PLUS designated large cases '
            '(--large: 12 per host run / 4 per other run in quick, each in its own Coq shard; 2 KiB..16 KiB host, ..8 KiB '
            'elsewhere in quick; 8..64 iterations of the wide loop in ONE call compared with the SPEC) in six shapes '
            'rotated by the seed: mid-block start + 8-16 wide iterations + every tail residue; the low counter word '
            'carrying inside the wide run (IETF: ending exactly at 2^38); longest block-aligned call; across k*2^32 '
            'blocks, k >= 2; boundary-directed position; IETF one byte past 2^38 (atomic Err) / 64-bit across 2^64 bytes; '
            'data of calls >= 2 KiB is the computable sequence Pat(len, seed) (Run/ChaCha.v), everything else random; '
            'PLUS one LONG call per run (appended after the counted cases; variant, position shape - mid-block near 0 / across '
            '2^32 blocks after the 64th wide iteration or ending exactly at 2^38 / random odd - rotate with the seed): '
            'seek + ONE apply_keystream of 64 KiB + 256..4255 bytes (> 256 wide iterations, > 2^16 bytes); three 512-byte '
            'windows of its output (around the 65th wide iteration, around byte 2^16 of the wide run, the last 512 bytes) '
            'are compared with model and spec as cases "seek(pos+offset), apply(512)", and the WHOLE output must equal what '
            'a second object gives for the same data in 4 KiB calls (direct failure otherwise; evidence key long_call); '
            'constructor under catch_unwind; distinct = distinct (type,key,nonce,pos,data); non-trivial = non-empty data; '
            "the implementation's result (ok/err/panic) and output bytes are compared with the model and with the spec "
            'inside coqc; direct: ok iff pos+len <= limit, Err leaves the data unchanged, current_pos::<u128>() '
            'afterwards = pos+len (ok) or pos (err); quick adds one debug x forced-SSE2 run; every run reads the forced '
            'back-end level back',
    "assumptions": ["little-endian host", "positions are ones try_seek accepts (errors of seek are C11)"],
}


def run(ctx):
    vlib.standard_proof_stage(ctx)
    ok, log = vlib.coq_make(["Run/ChaCha.vo"])      # the case runner (not in the cone of Props/C01.v)
    if not ok:
        raise vlib.CheckError("Run/ChaCha.vo does not build: %s" % log[-2000:])
    n = 7 * 60 if ctx.quick else 7 * 600
    big = [] if ctx.quick else ["--big", 1]
    # designated 2-16 KiB cases per run (each in its own Coq shard; measured ~10 ms per 64-byte block for
    # model + spec, i.e. ~2.5 s for a 16 KiB case): host runs go up to 16 KiB, the other quick runs to 8 KiB
    def large(host):
        if ctx.quick:
            return ["--large", 12, "--large-max", 16384] if host else ["--large", 4, "--large-max", 8192]
        return ["--large", 32 if host else 12, "--large-max", 16384, "--large-permille", 4]
    # (profile, back-end level, label, cases): level 0 = the CPU's own detection (AVX2 here);
    # the other back ends are forced through the ppv-lite86 level override (hook H1)
    if ctx.quick:
        configs = [("debug", 0, "host", n), ("release", 0, "host", n),
                   ("release", 1, "sse2", 7 * 20), ("release", 2, "ssse3", 7 * 20),
                   ("release", 3, "sse41", 7 * 20), ("release", 4, "avx", 7 * 20),
                   # debug x forced back end: seek64/seek32 run under dispatch_light128 (the SSE2 machine below AVX)
                   ("debug", 1, "sse2", 7 * 10)]
    else:
        configs = [("debug", 0, "host", n), ("release", 0, "host", n)] + \
                  [(p, l, nm, 7 * 100) for p in ("debug", "release")
                   for l, nm in ((1, "sse2"), (2, "ssse3"), (3, "sse41"), (4, "avx"), (5, "avx2"))]
    bins = {}
    for profile, level, name, cnt in configs:
        if profile not in bins:
            binary, log = vlib.cargo_build(profile=profile, bin_name="h_chacha")
            if binary is None:
                raise vlib.CheckError("harness build failed (%s): %s" % (profile, log[-2000:]))
            bins[profile] = binary
        s = vlib.correspondence(ctx, bins[profile], "c01", ["--count", cnt, "--level", level] + big + large(level == 0),
                                "%s-backend/%s" % (name, profile))
        ctx.log("%s/%s: %d cases, %d disagree, %d direct failures, longest call %s wide iterations (%s bytes, whole output = 4 KiB calls: %s)" %
                (name, profile, s.get("evaluations", 0), len(s["failing"]), len(s.get("direct_failures", [])),
                 s.get("max_wide_loop_iterations_in_one_call"), (s.get("long_call") or {}).get("len"),
                 (s.get("long_call") or {}).get("whole_output_same_as_4KiB_calls")))
        if s.get("backend_level_read_back") != level:
            raise vlib.CheckError("back-end level %d requested, the harness reports %r" % (level, s.get("backend_level_read_back")))
        vlib.decide_absolute(ctx, s, explain="explain_c01",
                             theorem="C01_refill_eq_block, C01_block_djb, C01_block_ietf, C01_block_x")
    # the portable back end (ppv-lite86 `no_simd`, generic.rs + soft.rs wrappers), both profiles
    for profile in ("debug", "release"):
        binary, log = vlib.cargo_build(features=("no_simd",), profile=profile, bin_name="h_chacha")
        if binary is None:
            raise vlib.CheckError("harness build failed (no_simd %s): %s" % (profile, log[-2000:]))
        s = vlib.correspondence(ctx, binary, "c01", ["--count", 7 * 20 if ctx.quick else 7 * 100, "--level", 0] + big + large(False),
                                "portable-backend/%s" % profile)
        ctx.log("portable/%s: %d cases, %d disagree, %d direct failures" %
                (profile, s.get("evaluations", 0), len(s["failing"]), len(s.get("direct_failures", []))))
        vlib.decide_absolute(ctx, s, explain="explain_c01",
                             theorem="C01_refill_eq_block, C01_block_djb, C01_block_ietf, C01_block_x")
