import vlib

META = {
    "title": "ChaCha stream parameters round-trip, are isolated, and define stream equality",
    "design_ref": "6/C15",
    "technique": "Coq proof: word lemmas on the four u32 of d (64-bit value <-> two 32-bit halves, injectivity of the "
                 "join), computation on the model of set/get_stream_param and stream32/64_eq; differential correspondence "
                 "model<->impl on random set/get/refill/compare sequences plus the direct statements on the implementation",
    "level_text": "Machine-checked theorems (Props/C15.v) for every well-formed state, parameter 0 or 1 and full 64-bit "
                  "values: C15_get_set_param (round trip), C15_set_param_isolated (other parameter and key untouched), "
                  "C15_set_param0_eq_seek, C15_set_param1_eq_new, C15_set_params_eq_new / C15_set_both_eq_direct (both "
                  "parameters set in either order = the state created directly with those values), "
                  "C15_set_params_refill_eq_spec (the following refill is the specified block for that key, stream id and "
                  "counter, any number of double rounds), C15_stream64_eq_iff(_seek), C15_stream32_eq_iff(_seek) (true "
                  "exactly when key and non-counter words agree), C15_set_param_ok and concrete examples (non-vacuity).",
    "level_note": "Trusted: Coq kernel+VM; hand-written model Model/ChaChaGuts.v tied to guts.rs on generated cases; harness. Parameters >= 2 are outside the property (precondition p < 2): in the Rust the index is (param << 1) on u32, so 2^31 and 2^31+1 alias parameters 0 and 1 and every other value indexes out of bounds (panic); the exact index computation is modelled by the _u32 functions: C15_param_index_agrees (p < 2) and the C15_param_u32_* theorems (2^31 and 2^31+1 behave as 0 and 1, every other p in [2, 2^32) is the panic outcome; defined iff p is one of the four). The history theorems (C15_history_*) start from ChaCha::new with an 8- or 12-byte nonce, not from XChaCha states. No axioms.",
    "rule": 'cases = (key, 8- or 12-byte nonce, 3..9 operations) from seeded xoshiro; nonces: byte-index pattern, a '
            'single non-zero word in each position, all ones, all zero, walking one (first 16 cases, both lengths), then '
            'walking one 1/8 / random; the case carries the NONCE and the model builds the initial state itself '
            '(init_chacha key nonce); the d words the implementation reports after ChaCha::new are compared with the '
            "model's and with the nonce words, and the first block with block 0 of ChaCha20 / the IETF type created with "
            'the same key and nonce; operations: set_stream_param(0|1, structured 64-bit value) 30%, get 20%, '
            'refill(drounds 4|6|10) 20%, compare with a second state that differs in exactly one key bit (8 word '
            'positions; lowest / highest / random bit), exactly one bit of one of the four d words, several words at once '
            'with differences that cancel under xor or addition or permute words, or not at all 30%; distinct = distinct '
            '(key, nonce, operation list), all non-trivial; direct checks on the implementation: get(set v) = v, other '
            'parameter unchanged, refill = block of a cipher created with nonce = stream id and seeked to the counter (a '
            'cipher that cannot produce the block is a failure; counters >= 2^58 cannot be reached by any cipher type and '
            'are checked by the model only, counted in the evidence), stream32_eq/stream64_eq = expected truth value for '
            'the word that differs; every case ends with two more comparisons, against a state differing ONLY in d word 0 '
            'and ONLY in d word 1 (one bit: lowest / highest / random); on EVERY compared pair the derived whole-state '
            'PartialEq is evaluated too (a == b, b == a, a != b, b != a): == must be true exactly when all twelve key / d '
            'words are equal (C14 uses == as an observation, on equal states only), a direct failure otherwise '
            '(evidence: whole_state_eq_evaluated); the model replays the whole sequence inside coqc and must reproduce every get value, '
            'block and predicate value; host debug/release 600, forced SSE2 release 200, portable debug and release 200',
    "assumptions": ["little-endian host", "parameter index is 0 or 1"],
}


def run(ctx):
    vlib.standard_proof_stage(ctx)
    ok, log = vlib.coq_make(["Run/ChaCha.vo"])      # the case runner (not in the cone of Props/C15.v)
    if not ok:
        raise vlib.CheckError("Run/ChaCha.vo does not build: %s" % log[-2000:])
    n = 600 if ctx.quick else 25000
    m = max(200, n // 3)
    # (profile, harness features, forced back-end level, label, cases): the portable back end (ppv-lite86 `no_simd`:
    # generic.rs, where vec128_storage is a union with its own PartialEq) is a different implementation of ==, insert,
    # extract, in both profiles; one forced x86 back end because vec128_storage <-> [u32; 4] and refill go through it
    for profile, feats, level, label, cnt in (("debug", (), 0, "host-backend", n), ("release", (), 0, "host-backend", n),
                                              ("release", (), 1, "forced-sse2", m),
                                              ("debug", ("no_simd",), 0, "portable-backend", m),
                                              ("release", ("no_simd",), 0, "portable-backend", m)):
        binary, log = vlib.cargo_build(features=feats, profile=profile, bin_name="h_chacha")
        if binary is None:
            raise vlib.CheckError("harness build failed (%s %s): %s" % (profile, feats, log[-2000:]))
        s = vlib.correspondence(ctx, binary, "c15", ["--count", cnt, "--level", level], "%s/%s" % (label, profile))
        ctx.log("%s/%s: %d cases (nonce lengths %s), %d disagree with the model, %d direct failures" %
                (label, profile, s.get("evaluations", 0), s.get("nonce_length"), len(s["failing"]), len(s.get("direct_failures", []))))
        if not feats and s.get("backend_level_read_back") != level:
            raise vlib.CheckError("back-end level %d requested, the harness reports %r" % (level, s.get("backend_level_read_back")))
        vlib.decide_relative(ctx, s, explain="explain_c15_ops",
                             theorem="C15_get_set_param, C15_set_param_isolated, C15_set_params_eq_new, "
                                     "C15_stream64_eq_iff, C15_stream32_eq_iff",
                             what="Model/ChaChaGuts.v ChaCha::new / set_stream_param / get_stream_param / stream32_eq / stream64_eq / refill")
