import vlib

META = {
    "title": "Hash length counters stay exact for very long messages and at word boundaries",
    "design_ref": "6/C17",
    "technique": "Coq proof: counter invariants at the real word widths by induction over the block sequence / over update histories, from any counter value (BLAKE two-word bit counter with manual carry, Groestl u64 block counter and big-endian count field, JH usize byte counter and 64-bit bit length, Skein tweak position), and conformance of the digest continued from such a state; differential correspondence impl = model = spec on states entered through hook H2 next to every boundary and on states reached by really streaming up to the first boundaries",
    "level_text": "Machine-checked (Props/C17.v + C17_blake.v, C17_groestl.v, C17_jh.v, C17_skein.v, all closed under the global context): C17_blake_t_exact / C17_blake_increase_count_exact (t = bits compressed for every message below 2^64 resp. 2^128 bits, the carry into t.1, no overflow check fires below the limit), C17_blake256_carry_at_2_32 / C17_blake512_carry_at_2_64 (single increase_count steps, helper level), C17_blake{224,256,384,512}_from_state_eq_spec (Proofs/BlakeFromState.v: from ANY chaining value, whole-block counter, buffered prefix and tail the model's digest is Spec.Blake.hash_from - what the hook cases are compared with) and C17_blake*_from_state_no_overflow; C17_groestl_count_exact / C17_groestl_final_count_exact / C17_groestl_count_across_byte_boundaries (counter and all eight count bytes exact below 2^64 blocks), C17_groestl_no_overflow_below_limit, C17_groestl{224,256,384,512}_from_state_eq_spec; C17_jh_len_exact / C17_jh_blocks_exact / C17_jh_digest_conforms (every update history below 2^61 bytes), C17_jh_from_state_eq_spec (Proofs/JHFromState.v: from any 128-byte chaining value and consistent (datalen, buffered) state, any update sequence below 2^61 bytes in total, both profiles: no panic, exact length field, digest = Spec.JH.jh_tail); C17_skein_pos_exact / C17_skein_from_state_eq_spec / C17_skein_beyond_2_64. The digest theorems of C04-C07 are stated with exactly these bounds. Implementation = model = spec is checked on generated cases.",
    "level_note": "Trusted: Coq kernel+VM; spec transcriptions (KAT-anchored); hand-written models tied to the code on generated cases; hook H2 (verif_get_state / verif_set_state: states beyond the first boundary are ENTERED, not reached by hashing; the chaining value of a really streamed state is the implementation's own); harness. No axioms.",
    "rule": "cases = entered states (variant, chaining value, counter, buffered bytes, tail, optional split of the tail over two update calls) with the counter at small offsets around every boundary of the family: BLAKE t at the low-word carry (high word 0 / random / all-ones-but-one), just below the format limit, random block counts; Groestl block_counter at 2^k-d (k = 8,16,24,32,40,48,56,64) x 8 buffered/tail shapes; JH datalen around 0, 64, 2^13, 2^21, 2^29 (= 2^32 bits), 2^32, 2^56, 2^61 and beyond; Skein t.0 at 2^32-j*nb, 2^32, 2^40-nb, 2^63-nb, 2^64-j*nb; plus real_stream cases: 2^29-k bytes (BLAKE-224/256, JH), 2^8/2^16/2^24 blocks minus a few bytes (Groestl), 2^32-k bytes (Skein, release profile) are really streamed in update calls of varying sizes, the counter read back through the hook must equal the proved closed form (direct failure otherwise) and the state becomes an entered state whose tail crosses the boundary; debug and release profile; implementation outcome (ok/panic), counters after the updates where the harness reports them, and the digest are compared with model and spec inside coqc; distinct = distinct case; all cases non-trivial (each runs at least one compression and the padding); ADDED: every real_stream state of BLAKE, Groestl and Skein is crossed TWICE: by a fresh object the read-back state is entered into (as before) and by the streamed object itself continued with the same tail (stream real_stream_same_object, as JH always did): both digests go to Coq and must be equal (direct failure otherwise: a private field the hook does not expose would make them differ); release profile only: ONE update call of 2^29+64 bytes (512 MiB buffer, byte i = i mod 251) into BLAKE-224/256 and JH (--big-update 1; thorough tier, JH: 2^32+100 bytes, a slice length beyond 32 bits): the state read back must equal the state a clone of the chunked real_stream object reaches on the same bytes, the counter the closed form (BLAKE t = 2^32+512 bits, JH datalen = 2^29+64), and the digest continued from it is compared with model and spec; which variant is streamed first rotates with the seed (BLAKE-224/256, the four JH variants; Skein-256/512/1024 in the thorough tier, Skein-512 in the quick tier); the h_skein hook stream now also carries ONE plain digest of an 8 KiB message given in one update call (state size rotating with the seed; stream one_long_update, see C05); the length of every digest is checked in the harness; h_blake runs every implementation call under catch_unwind; entered states beyond the property's domain (Skein position >= 2^64, JH >= 2^61 bytes, Groestl count >= 2^64 blocks) are tagged domain = beyond in the case JSON: their behaviour as written stays pinned by equality, the tag lets a later repair there be told from a violation",
    "assumptions": ["little-endian x86-64 host; usize is 64 bits",
                    "lengths up to the limits as implemented: 2^64-1 bits BLAKE-224/256, 2^128-1 bits BLAKE-384/512, 2^64 blocks Groestl, 2^61 bytes JH, 2^64 bytes Skein",
                    "states beyond the first 2^32-bit boundary are entered through hook H2 rather than reached by hashing"],
}

EXTRA = ("C17_blake", "C17_groestl", "C17_jh", "C17_skein")


def run(ctx):
    vlib.standard_proof_stage(ctx, extra_props=EXTRA)
    tier = "quick" if ctx.quick else "thorough"
    q = ctx.quick
    # (binary, sub-command, profile, extra args, label, explain, theorem)
    plan = []
    for profile in ("debug", "release"):
        # release only: ONE update call of 2^29 + 64 bytes (512 MiB buffer) for BLAKE-224/256 and JH, compared with
        # the same bytes given in many calls
        big = ["--big-update", 1] if profile == "release" else []
        plan.append(("h_blake", "blake", profile, ["--streams", "hook", "--real", 1 if q else 4] + big,
                     "blake/%s/hook" % profile, "explain_blake",
                     "C17_blake_t_exact / C17_blake_increase_count_exact (digest: C04_blake*_eq_spec)"))
        plan.append(("h_groestl", "groestl", profile, ["--streams", "hook", "--real", 3 if q else 6, "--runner", "run_c07"],
                     "groestl/%s/hook" % profile, "explain_c07",
                     "C17_groestl_count_exact / C17_groestl_final_count_exact / C17_groestl*_from_state_eq_spec"))
        # thorough tier, JH: the single call is 2^32 + 100 bytes (a slice length that does not fit in 32 bits; 4 GiB buffer, ~50 s)
        big_jh = (["--big-update", 1 if q else 2] if profile == "release" else [])
        plan.append(("h_jh", "digest", profile, ["--streams", "hook", "--real", 1 if q else 4, "--runner", "run_c06"] + big_jh,
                     "jh/%s/hook" % profile, "explain_c06",
                     "C17_jh_len_exact / C17_jh_digest_conforms"))
        real_sk = (1 if profile == "release" else 0) if q else 2
        plan.append(("h_skein", "skein", profile, ["--streams", "hook", "--real", real_sk, "--runner", "run_c05"],
                     "skein/%s/hook" % profile, "explain_c05",
                     "C17_skein_pos_exact / C17_skein_from_state_eq_spec"))
    for bin_name, sub, profile, args, label, explain, theorem in plan:
        binary, log = vlib.cargo_build(profile=profile, bin_name=bin_name)
        if binary is None:
            raise vlib.CheckError("harness build failed (%s %s): %s" % (bin_name, profile, log[-2000:]))
        s = vlib.correspondence(ctx, binary, sub, ["--tier", tier] + args, label)
        vlib.decide_absolute(ctx, s, explain=explain, theorem=theorem)
