import vlib

META = {
    "title": "Threefish-256/512/1024 encryption conforms to the Threefish specification",
    "design_ref": "6/C09",
    "technique": "Coq proof: symbolic conversion of the in-place round body to the paper's index-wise round for all 72/80 rounds, fold induction; KAT-anchored spec; differential correspondence impl = model = spec",
    "level_text": "Machine-checked theorem C09_encrypt_eq_spec: for every key, tweak and block the model of encrypt_block (in-place rounds, destination permutation tables, subkey table) equals the index-wise Skein 1.3 definition, for both expansions of unroll8! (C09_unroll_irrelevant). The spec reproduces the six published vectors (C09_kats). Implementation = model = spec is checked on generated cases in both feature settings.",
    "level_note": "Trusted: Coq kernel+VM; spec transcription (rotation constants, pi, C240 validated only by the published vectors); hand-written model tied on generated cases; harness. The conformance proof is parametric in the word operations: it establishes the index / schedule structure (in-place update with destination permutation tables, subkey indices, round counts, tweak and parity words); wrapping 64-bit add, rotate direction and C240 are the shared Lib/Words.v definitions on both sides; they are anchored to the textbook forms by C09_*_arith (Proofs/LeftoversThreefish.v): with add = (a + b) mod 2^64, rotl r x = (x * 2^r) mod 2^64 + x / 2^(64 - r) and xor, the arithmetic-form specification equals the specification, so the model equals it too; the rotation / permutation constants and C240 still rest on the six published vectors. C09_unroll_irrelevant holds by conversion (the two macro expansions are convertible); the both-feature harness runs carry that clause for the code. No axioms.",
    "rule": "cases = (size, key, tweak, block) from seeded xoshiro: zero vectors, published-vector inputs, then structured/random incl. carry-heavy words; distinct = distinct (size,key,tweak,block); non-trivial = key or block non-zero; implementation E(b) compared with model and with spec inside coqc; the constructor rotates over with_tweak / NewBlockCipher::new / NewBlockCipher::new_from_slice (the latter two for the zero tweak) and the blocks travel through encrypt_block, encrypt_blocks on a 3-block slice (equal blocks at positions 0 and 2 must give equal results), encrypt_par_blocks, or a clone of the object (and the decrypt forms), rotating with case index and seed; all four blocks of a case (E(b), D(b), D(E(b)), E(D(b))) pass through ONE object; one key in six has its last word chosen so that the parity word k[N_w] is within 20 of 2^64 (the subkey addition k[N_w] + s wraps); every call into the implementation runs under catch_unwind: a panic is reported as outcome of the case with key, tweak and block as failing input (before: harness crash without input)",
    "assumptions": ["little-endian host"],
}


def run(ctx):
    vlib.standard_proof_stage(ctx)
    n = 64 if ctx.quick else 3000   # per configuration; 2 feature settings x 2 build profiles in both tiers
    for feats, label in (((), "unrolled"), (("no_unroll",), "no_unroll")):
        for profile in ("debug", "release"):   # release: debug_assert! side effects, overflow wrap
            binary, log = vlib.cargo_build(features=feats, profile=profile)
            if binary is None:
                raise vlib.CheckError("harness build failed (%s %s): %s" % (label, profile, log[-2000:]))
            s = vlib.correspondence(ctx, binary, "tf", ["--count", n, "--runner", "run_c09"],
                                    "%s/%s" % (label, profile))
            vlib.decide_absolute(ctx, s, explain="explain_tf", theorem="C09_encrypt_eq_spec")
