"""Dev driver (ppv-portable): portable part of C12 on its own. Not registered."""
import vlib
from checks import ppvgen_part

META = {
    "title": "ppv-lite86 portable back end + soft.rs wrappers: word-wise vector ops equal their scalar meaning (part of C12)",
    "design_ref": "6/C12",
    "technique": "Coq proof about Model/PpvGeneric.v + Model/PpvSoft.v (lane-wise theorems for all operands, totality in both profiles); differential correspondence impl = model = Spec/Lanes.v on generated cases, debug and release",
    "level_text": "see notes/ppv-portable.md",
    "level_note": "Trusted: Coq kernel+VM; Spec/Lanes.v; hand-written model tied on generated cases; harness. No axioms.",
    "rule": ppvgen_part.RULE,
    "assumptions": ["little-endian host"],
    "trusted_extra": ppvgen_part.TRUSTED_EXTRA,
}


def run(ctx):
    vlib.standard_proof_stage(ctx)
    ppvgen_part.run_part(ctx, "C12")
