"""Portable part of C12 / C13: ppv-lite86's generic.rs back end (cargo feature no_simd) and the
soft.rs x2/x4 wrappers. Imported by checks/c12.py, checks/c13.py (ppv-x86) and by the dev
modules checks/c12g.py, checks/c13g.py.

run_part(ctx, prop): builds harness bin h_ppvgen (feature no_simd) in the debug and the release
profile, runs sub-command c12 / c13, evaluates Model/PpvGeneric.v + Model/PpvSoft.v and the
lane-wise contract Spec/Lanes.v on every case inside coqc (Run/PpvGen.v: run_pg) and decides
absolutely (implementation != model or != contract on a case is a failing input)."""
import vlib

THEOREM = {"C12": "C12g_portable_binop_lanewise / C12g_portable_unop_lanewise / C12g_portable_swapN_is_bitgroup_swap / C12g_x2_forwards / C12g_x4_forwards (Props/C12g.v)", "C13": "C13g_portable_* (Props/C13g.v)"}
TRUSTED_EXTRA = [
    "portable back end: union vec128_storage / zerocopy read_from_bytes / write_to are modelled as little-endian byte reinterpretation of the word arrays (little-endian host; generic.rs has no big-endian arms)",
    "rustc overflow checks modelled as: `<<`/`>>` panic iff amount >= width, `-` iff negative, only in the debug profile; indexing and unwrap() of the size check panic in both",
]
RULE = ("portable back end (GenericMachine, feature no_simd), debug and release: every (type, method) of the 10 vector types "
        "and 3 storage types, incl. `&=` / `|=` / `^=` on all ten types (every soft.rs x2/x4 wrapper), UnsafeFrom::unsafe_from of x2 / x4, "
        "Default and == of vec128/256/512_storage (pairs differing in one walked bit, the two sides built through different word views); "
        "operands: zero, all-ones, byte-index pattern, high-bit patterns, carry chains, seeded random, rhs-identity pairs (all-ones / zero against "
        "the byte-index pattern: every rhs lane different, the result is the rhs), "
        "walking-one basis (every bit for 128-bit types, every 7th bit for wider types in the quick tier, every bit in thorough); "
        "distinct = distinct (type, op, parameter, operands); non-trivial = some operand byte non-zero; "
        "implementation result compared with the model and with the lane-wise contract inside coqc")


def run_part(ctx, prop):
    """prop in {"C12", "C13"}. Returns True iff no disagreement was found."""
    sub = {"C12": "c12", "C13": "c13"}[prop]
    ok = True
    tier = "quick" if ctx.quick else "thorough"
    for profile in ("debug", "release"):
        binary, log = vlib.cargo_build(features=("no_simd",), profile=profile, bin_name="h_ppvgen")
        if binary is None:
            raise vlib.CheckError("h_ppvgen build failed (no_simd, %s): %s" % (profile, log[-2000:]))
        ctx.log("portable back end, %s: harness %s" % (profile, sub))
        # quick tier: the full quick stream on the overflow-checked build, a thinner walking-one
        # stream (same operand classes) on the release build; thorough: full streams on both
        light = 1 if (ctx.quick and profile == "release") else 0
        # thorough: 96 smaller shards (16 run at a time): a 7000-case shard needs 2.2 GB in coqc
        s = vlib.correspondence(ctx, binary, sub, ["--tier", tier, "--light", light], "portable-no_simd/%s" % profile,
                                shards=16 if ctx.quick else 96)
        ok = vlib.decide_absolute(ctx, s, explain="explain_pg", theorem=THEOREM[prop]) and ok
    return ok
