import json
import os

import vlib

META = {
    "title": "Every algorithm gives identical results on every ppv-lite86 back end and build configuration",
    "design_ref": "6/C03",
    "technique": "Coq proof: case analysis of the selection logic of dispatch!/dispatch_light128!/dispatch_light256! "
                 "(std, no-std, no_simd, hook H1) + parametric machine: the ChaCha double round, the BLAKE round (32/64-bit) "
                 "and JH's S-box/linear layer written over a record of vector operations are independent of any machine that "
                 "refines the lane-wise meaning; differential correspondence: one fixed battery run under every back-end / "
                 "dispatch configuration (each in a child process), compared with the single reference computed inside Coq "
                 "and cross-compared between configurations",
    "level_text": "Machine-checked theorems C03_dispatch_total (no configuration with SSE2 reaches unimplemented!()), C03_dispatch_supported (the selected instance needs only features the CPU has), C03_hook_is_cap / C03_hook_level0 (hook H1 = the real selection on a capped CPU), C03_dispatch_irrelevant, the machine-independence theorems C03_{chacha_round,blake_round,jh_layer}_machine_indep (any machine that refines the lane meaning computes the lane result, any number of rounds), their instantiation with the intrinsic-level model of the x86 u32x4 type (C03_sse_u32x4_refines, C03_sse_chacha_narrow_indep, C03_sse_blake32_indep), and the composed statement WITHOUT hypothesis for the six real machines: C03_sse_m_refines / C03_avx2_m_refines / C03_generic_m_refines / C03_real_inst_refines (the machines built from the intrinsic-level models of SSE2, SSSE3/SSE4.1/AVX, AVX2 and from the portable back end with the soft.rs wrappers refine the lane meaning in all four components u32x4, u32x4x4, u64x4, u128x1/x2, either build profile), C03_backends_agree (any two configurations of any of the three macros give the same ChaCha narrow/wide rounds, BLAKE 32/64 rounds and JH rounds on all well-formed inputs, and neither panics), C03_real_backends_are_lane, C03_jh_lane_is_model / C03_real_backends_e8_is_model (JH's E8 on every real back end is Model/JH.v's e8). The framing code is covered too (Model/MachineFull.v: the machine record extended by storage conversion, byte output, lane access, the u64 counter views, transpose4; Proofs/MachineFull*.v): the WHOLE block functions refill_narrow, refill_wide, init_chacha_x, seek32/seek64, JH f8, BLAKE put_block (both word sizes) and finalize written over it are independent of any refining machine (C03_chacha_refill_narrow/wide_machine_indep, C03_jh_f8_machine_indep, C03_blake_put_block_machine_indep), their lane instance is the executable model the other properties are about (C03_chacha_refill_lane_is_model, C03_jh_f8_is_model, C03_blake_put_block_is_model), the six real machines refine (C03_real_xinst_refines), hence C03_real_blocks_are_model (on every back end and profile each block function equals Model.ChaChaGuts.refill / refill_wide, JH.m_f8, Blake.put_block32/64, compressor_finalize) and C03_real_blocks_agree (in every configuration of the three macros with SSE2 detected the dispatched function returns that value, never the unimplemented!() arm), and composed with C01/C14, C06, C04 (Proofs/Capstones.v): C03_real_chacha_block_eq_spec / C03_config_chacha_block_eq_spec (on every back end and in every configuration the narrow refill at counter k returns Spec.ChaCha.spec_block and the wide refill the four specified blocks), C03_real_jh_f8_eq_spec / C03_config_jh_f8_eq_spec (= Spec.JH.F8), C03_real_blake_compress_eq_spec / C03_config_blake_compress_eq_spec (= the specified compression function). 'No back end panics where another returns' in outcome form: C03_portable_fields_return (all 57 fields of the portable machine return Ok on well-formed operands, both profiles), C03_block_functions_return / C03_real_blocks_return (the seven block functions transcribed in the outcome monad return Ok on every back end); the remaining dispatch site init_chacha: C03_chacha_init_is_model / C03_real_chacha_init_is_stream_init. Scalar code without a Machine (ChaCha::new, stream parameters) is outside this statement. The tie to the code is the battery: every configuration must reproduce the model's outputs and the model's selected Machine type, and all configurations must agree with each other; a child process that dies (SIGILL/SIGSEGV) or panics is an outcome.",
    "level_note": "Trusted: Coq kernel+VM; the hand-written models (tied on generated cases); hook H1 (b4591b7); harness. "
                  "Non-host back ends run on an AVX2 CPU (through H1 and -C target-feature): code paths are exercised, "
                  "absence of an instruction is not. AVX and SSE4.1 are the same Machine type; they differ only in the "
                  "#[target_feature] attributes of the wrapper, which the probe cannot observe. No axioms.",
    "rule": "battery derived from the seed (same inputs in every configuration): ChaCha20/Ietf/XChaCha8 seek+apply over "
            "buffered/narrow/wide(256-byte)/tail shapes and counter-word boundaries, guts refill/refill4, BLAKE-224/256/384/512 "
            "over all padding classes, JH-256/512 digests, F8 through Compressor and f8_impl::<M> on structured/random inputs, "
            "Groestl/Skein controls, and 3 selection probes (type_name of the Machine each macro selects); distinct = distinct "
            "(configuration,kind,input); all are non-trivial (selection probes and every computation have inputs); per configuration every "
            "case is compared with the model inside coqc; across configurations (res,out,aux) must be equal",
    "assumptions": ["little-endian x86-64 host reporting sse2..avx2 (checked: host_feature_mask = 31)"],
}

LEVELS = {1: "sse2", 2: "ssse3", 3: "sse4.1", 4: "avx", 5: "avx2"}


def _configs(ctx):
    """(label, build kwargs, forced level). 12 configurations of DESIGN 5.3 (+ unforced detection)."""
    std = dict(features=(), rustflags=(), no_default=False)
    cfgs = [("rt-detect", std, 0)]
    cfgs += [("rt-%s" % LEVELS[l], std, l) for l in range(1, 6)]
    cfgs.append(("no_simd-std", dict(features=("no_simd",), rustflags=(), no_default=False), 0))
    ct = [("ct-sse2", dict(features=(), rustflags=(), no_default=True), 0)]
    for l in range(2, 6):
        ct.append(("ct-%s" % LEVELS[l],
                   dict(features=(), rustflags=("-C", "target-feature=+%s" % LEVELS[l]), no_default=True), 0))
    if ctx.quick:
        cfgs.append(ct[ctx.seed % len(ct)])
    else:
        cfgs.append(("no_simd-nostd", dict(features=("no_simd",), rustflags=(), no_default=True), 0))
        cfgs += ct
    return cfgs


def _needs_more(observed, allowed_mask):
    """does the observed Machine type (harness code) need a feature outside allowed_mask?"""
    need = {0: 0, 1: 1, 2: 3, 3: 7, 5: 31}.get(observed, 31)
    return (need & ~allowed_mask) != 0


def run(ctx):
    vlib.standard_proof_stage(ctx)
    ok_runner, log = vlib.coq_make(["Run/Dispatch.vo"])
    if os.environ.get("C03_NO_REFERENCE"):     # exercise the fallback path by hand
        ok_runner = False
    if not ok_runner:
        ctx.log("reference runner Run/Dispatch.vo unavailable; falling back to cross-configuration comparison only")
        ctx.assumptions.append("model reference unavailable in this run (Run/Dispatch.vo did not build): "
                               "configurations were only compared with each other")
    bseed = ctx.seed
    thorough = 0 if ctx.quick else 1
    profiles = ("debug",) if ctx.quick else ("debug", "release")
    binaries = {}
    results = {}      # label -> (summary, cases)
    uniform_candidates = {}   # case index -> set of labels whose output differs from the model
    for profile in profiles:
        for label, bk, level in _configs(ctx):
            if profile == "release" and not label.startswith("rt-"):
                continue   # release: the std build only (all run-time levels)
            full = label if profile == "debug" else label + "/release"
            key = (profile, tuple(sorted(bk.items())))
            if key not in binaries:
                binary, blog = vlib.cargo_build(profile=profile, bin_name="h_dispatch", **bk)
                if binary is None:
                    raise vlib.CheckError("harness build failed (%s): %s" % (full, blog[-2000:]))
                binaries[key] = binary
            binary = binaries[key]
            args = ["--bseed", bseed, "--level", level, "--thorough", thorough]
            if ok_runner:
                s = vlib.correspondence(ctx, binary, "battery", args, full, shards=8 if ctx.quick else 16)
            else:
                d = os.path.join(ctx.work, full.replace("/", "_"))
                os.makedirs(d, exist_ok=True)
                s = vlib.run_harness(binary, ["battery", "--seed", 0, "--shards", 16, "--out", d] + args)
                ctx.add_cov(s, full)
                s.update({"failing": [], "_config": full, "_dir": d, "_shards": 16,
                          "_cases": json.load(open(os.path.join(d, "cases.json"))),
                          "_harness": [os.path.basename(binary), "battery"] + [str(a) for a in args]})
            cases = s["_cases"] or []
            results[full] = (s, cases)
            ctx.log("%s: %d cases, selected %s, model disagreements %s, deaths %s" % (
                full, s.get("evaluations", 0),
                {k: v.replace("ppv_lite86::x86_64::", "").replace("ppv_lite86::generic::", "") for k, v in s.get("selected", {}).items()}, s["failing"][:5], s.get("child_deaths", [])))
            if s.get("host_feature_mask") != 31:
                raise vlib.CheckError("host does not report sse2..avx2 (mask %s): forced levels would not be what they say"
                                      % s.get("host_feature_mask"))
            # selection probes against Model/Dispatch.v
            for i in s["failing"]:
                c = cases[i] if i < len(cases) else None
                if c is not None and c["kind"] == "selection":
                    observed = int(c["out"] or "09", 16)
                    b = s["build"]
                    allowed = b["target_feature_mask"] if not b["std"] else \
                        ({0: 31, 1: 1, 2: 3, 3: 7, 4: 15, 5: 31}[s["forced_level"]])
                    rep = vlib._case_report(ctx, s, i, "explain_c03", "C03_dispatch_total / C03_hook_is_cap")
                    rep["observed_machine"] = c["aux"]
                    rep["build"] = b
                    rep["forced_level"] = s["forced_level"]
                    if _needs_more(observed, allowed):
                        rep["kind"] = "selected-machine-needs-features-the-configuration-does-not-have"
                        rep["note"] = ("this macro arm instantiates a Machine whose code uses instructions outside the "
                                       "feature set of the configuration: it faults on a CPU where the other back ends return")
                        ctx.violation(rep)
                    else:
                        rep["kind"] = "correspondence-broken"
                        rep["note"] = ("the Machine type selected by the macro is not the one Model/Dispatch.v selects; "
                                       "results may still agree (no failing input derived)")
                        ctx.violation(rep, no_input=True)
                else:
                    uniform_candidates.setdefault(i, set()).add(full)

    # ---- cross-configuration comparison (the property itself, on the implementation)
    labels = list(results)
    ref_label = labels[0]
    ncases = len(results[ref_label][1])
    reported = 0
    disagreeing = 0
    for i in range(ncases):
        groups = {}
        for lab in labels:
            cs = results[lab][1]
            if i >= len(cs):
                groups.setdefault(("missing",), []).append(lab)
                continue
            c = cs[i]
            if c["kind"] == "selection":
                break
            groups.setdefault((c["res"], c["out"], c["aux"] if c["res"] != "fault" else ""), []).append(lab)
        else:
            if len(groups) > 1:
                disagreeing += 1
                if reported < 3:
                    reported += 1
                    c0 = results[ref_label][1][i]
                    rep = {"kind": "backends-disagree", "case_index": i, "case": {"kind": c0["kind"], "input": c0["input"]},
                           "results": [{"configurations": labs, "res": k[0], "out": k[1] if len(k) > 1 else None,
                                        "aux": k[2] if len(k) > 2 else None} for k, labs in groups.items()],
                           "differs_from_model": sorted(uniform_candidates.get(i, [])) if ok_runner else "model unavailable",
                           "authoritative_theorem": "C03_dispatch_irrelevant + machine independence (Props/C03.v)",
                           "harness": results[ref_label][0]["_harness"],
                           "note": "the same input gives different results (or panic/fault vs value) under different back-end / build configurations"}
                    if ok_runner and uniform_candidates.get(i):
                        lab = sorted(uniform_candidates[i])[0]
                        r = vlib.coq_explain(results[lab][0]["_dir"], results[lab][0]["_shards"], i, "explain_c03")
                        rep["model_says"] = [hex(x) for x in r] if isinstance(r, list) else r
                    ctx.violation(rep)
    # ---- model disagreements shared by every configuration: the property (a relation between
    # configurations) holds on these inputs; the deviation belongs to the conformance property
    uniform = [i for i, labs in uniform_candidates.items() if len(labs) == len(labels)]
    ctx.cov["cross_configuration"] = {"configurations": labels, "cases_compared": ncases,
                                      "cases_on_which_configurations_disagree": disagreeing,
                                      "cases_where_all_configurations_differ_from_model_identically": len(uniform),
                                      "reference": "model inside Coq" if ok_runner else "unavailable"}
    if uniform:
        ctx.log("note: %d case(s) on which ALL configurations agree with each other but not with the model "
                "(conformance, attributed to C01/C04/C06/C14; not a C03 failure): %s" % (len(uniform), uniform[:5]))
        ctx.assumptions.append("%d battery case(s) differ from the Coq reference identically in every configuration "
                               "(attributed to the conformance properties C01/C04/C06/C14)" % len(uniform))
