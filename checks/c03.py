import json
import os
import time

import vlib

META = {
    "title": "Every algorithm gives identical results on every ppv-lite86 back end and build configuration",
    "design_ref": "6/C03",
    "technique": "Coq proof: case analysis of the selection logic of dispatch!/dispatch_light128!/dispatch_light256! "
                 "(std, no-std, no_simd, hook H1) + parametric machine: the ChaCha double round, the BLAKE round (32/64-bit) "
                 "and JH's S-box/linear layer written over a record of vector operations are independent of any machine that "
                 "refines the lane-wise meaning; differential correspondence: one fixed battery run under every back-end / "
                 "dispatch configuration (each in a child process), compared with the single reference computed inside Coq "
                 "and cross-compared between configurations",
    "level_text": "Machine-checked theorems C03_dispatch_total (no configuration with SSE2 reaches unimplemented!()), C03_dispatch_supported (the selected instance needs only features the CPU has), C03_hook_is_cap / C03_hook_level0 (hook H1 = the real selection on a capped CPU), C03_dispatch_irrelevant, the machine-independence theorems C03_{chacha_round,blake_round,jh_layer}_machine_indep (any machine that refines the lane meaning computes the lane result, any number of rounds), their instantiation with the intrinsic-level model of the x86 u32x4 type (C03_sse_u32x4_refines, C03_sse_chacha_narrow_indep, C03_sse_blake32_indep), and the composed statement WITHOUT hypothesis for the six real machines: C03_sse_m_refines / C03_avx2_m_refines / C03_generic_m_refines / C03_real_inst_refines (the machines built from the intrinsic-level models of SSE2, SSSE3/SSE4.1/AVX, AVX2 and from the portable back end with the soft.rs wrappers refine the lane meaning in all four components u32x4, u32x4x4, u64x4, u128x1/x2, either build profile), C03_backends_agree (any two configurations of any of the three macros give the same ChaCha narrow/wide rounds, BLAKE 32/64 rounds and JH rounds on all well-formed inputs, and neither panics), C03_real_backends_are_lane, C03_jh_lane_is_model / C03_real_backends_e8_is_model (JH's E8 on every real back end is Model/JH.v's e8). The framing code is covered too (Model/MachineFull.v: the machine record extended by storage conversion, byte output, lane access, the u64 counter views, transpose4; Proofs/MachineFull*.v): the WHOLE block functions refill_narrow, refill_wide, init_chacha_x, seek32/seek64, JH f8, BLAKE put_block (both word sizes) and finalize written over it are independent of any refining machine (C03_chacha_refill_narrow/wide_machine_indep, C03_jh_f8_machine_indep, C03_blake_put_block_machine_indep), their lane instance is the executable model the other properties are about (C03_chacha_refill_lane_is_model, C03_jh_f8_is_model, C03_blake_put_block_is_model), the six real machines refine (C03_real_xinst_refines), hence C03_real_blocks_are_model (on every back end and profile each block function equals Model.ChaChaGuts.refill / refill_wide, JH.m_f8, Blake.put_block32/64, compressor_finalize) and C03_real_blocks_agree (in every configuration of the three macros with SSE2 detected the dispatched function returns that value, never the unimplemented!() arm), and composed with C01/C14, C06, C04 (Proofs/Capstones.v): C03_real_chacha_block_eq_spec / C03_config_chacha_block_eq_spec (on every back end and in every configuration the narrow refill at counter k returns Spec.ChaCha.spec_block and the wide refill the four specified blocks), C03_real_jh_f8_eq_spec / C03_config_jh_f8_eq_spec (= Spec.JH.F8), C03_real_blake_compress_eq_spec / C03_config_blake_compress_eq_spec (= the specified compression function). 'No back end panics where another returns' in outcome form: C03_portable_fields_return (all 57 fields of the portable machine return Ok on well-formed operands, both profiles), C03_block_functions_return / C03_real_blocks_return (the seven block functions transcribed in the outcome monad return Ok on every back end); the remaining dispatch site init_chacha: C03_chacha_init_is_model / C03_real_chacha_init_is_stream_init. Scalar code without a Machine (ChaCha::new, stream parameters) is outside this statement. The tie to the code is the battery: every configuration must reproduce the model's outputs and the model's selected Machine type, and all configurations must agree with each other; a child process that dies (SIGILL/SIGSEGV) or panics is an outcome.",
    "level_note": "Trusted: Coq kernel+VM; the hand-written models (tied on generated cases); hook H1 (b4591b7); harness. "
                  "Non-host back ends run on an AVX2 CPU (through H1 and -C target-feature): code paths are exercised, "
                  "absence of an instruction is not. AVX and SSE4.1 are the same Machine type; they differ only in the "
                  "#[target_feature] attributes of the wrapper, which the probe cannot observe. No axioms.",
    "rule": "battery derived from the seed (same inputs in every configuration; case index i is the same input everywhere): 3 selection "
            "probes (type_name of the Machine each macro selects), then the MINI battery (prefix of every battery: 10 ChaCha20/Ietf/XChaCha8 "
            "seek+apply shapes incl. block counters at 2^16, 2^31, 2^32 (wide and narrow path), 2^48, 2^57; guts refill/refill4 at counters "
            "0xfffffffe and 2^48-1; BLAKE-224/256/384/512 and JH-224/256/384/512 at one-block / two-final-block lengths; F8 through Compressor and "
            "one directly instantiated Machine), then the main battery: ChaCha20/Ietf/XChaCha8 seek+apply over "
            "buffered/narrow/wide(256-byte)/tail shapes and counter-word boundaries, guts refill/refill4 (d words after compared with the "
            "model; the NEXT block compared across configurations, which observes the key rows), BLAKE-224/256/384/512 "
            "over all padding classes, JH-224/256/384/512 digests, F8 through Compressor and f8_impl::<M> on structured/random inputs, "
            "Groestl/Skein controls. Quick tier: the full battery on rt-detect, rt-sse2..rt-avx2 (hook H1), no_simd-std in debug; the mini "
            "battery on EVERY compile-time configuration (ct-sse2, ct-ssse3, ct-sse4.1, ct-avx, ct-avx2: --no-default-features + -C target-feature; "
            "no_simd-nostd) in debug and on rt-sse2, rt-detect, no_simd-std in RELEASE. Thorough: full battery everywhere, release also for "
            "no_simd-std, no_simd-nostd, ct-sse2, ct-avx2. distinct = distinct "
            "(configuration,kind,input); all are non-trivial (selection probes and every computation have inputs); per configuration every "
            "case is compared with the model inside coqc; across configurations (res,out,aux) must be equal on every case two configurations both run; "
            "a reference runner that does not build is a reported problem (no-failing-input-found), the cross-comparison still runs",
    "assumptions": ["little-endian x86-64 host reporting sse2..avx2 (checked: host_feature_mask = 31)"],
}

LEVELS = {1: "sse2", 2: "ssse3", 3: "sse4.1", 4: "avx", 5: "avx2"}


def _build_kinds():
    std = dict(features=(), rustflags=(), no_default=False)
    b = {"std": std,
         "no_simd-std": dict(features=("no_simd",), rustflags=(), no_default=False),
         "no_simd-nostd": dict(features=("no_simd",), rustflags=(), no_default=True),
         "ct-sse2": dict(features=(), rustflags=(), no_default=True)}
    for l in range(2, 6):
        b["ct-%s" % LEVELS[l]] = dict(features=(), rustflags=("-C", "target-feature=+%s" % LEVELS[l]), no_default=True)
    return b


CT = ["ct-%s" % LEVELS[l] for l in range(1, 6)]


def _configs(quick):
    """(label, build kwargs, forced level, profile, battery). The 13 configurations of DESIGN 5.3 (+ unforced detection).
    battery: "full" (quick or thorough volume) or "mini" (selection probes + the fixed prefix of every battery).
    quick tier: the seven run-time configurations run the full battery in debug as before; EVERY compile-time
    configuration (five target-feature levels, no_simd without std) runs the mini battery in debug; the release profile
    runs the mini battery on the SSE2 machine, the AVX2 machine (detection) and the portable back end."""
    b = _build_kinds()
    cfgs = [("rt-detect", b["std"], 0, "debug", "full")]
    cfgs += [("rt-%s" % LEVELS[l], b["std"], l, "debug", "full") for l in range(1, 6)]
    cfgs.append(("no_simd-std", b["no_simd-std"], 0, "debug", "full"))
    if quick:
        cfgs += [(c, b[c], 0, "debug", "mini") for c in CT]
        cfgs.append(("no_simd-nostd", b["no_simd-nostd"], 0, "debug", "mini"))
        cfgs += [("rt-sse2/release", b["std"], 1, "release", "mini"),
                 ("rt-detect/release", b["std"], 0, "release", "mini"),
                 ("no_simd-std/release", b["no_simd-std"], 0, "release", "mini")]
    else:
        cfgs.append(("no_simd-nostd", b["no_simd-nostd"], 0, "debug", "full"))
        cfgs += [(c, b[c], 0, "debug", "full") for c in CT]
        cfgs += [("rt-detect/release", b["std"], 0, "release", "full")]
        cfgs += [("rt-%s/release" % LEVELS[l], b["std"], l, "release", "full") for l in range(1, 6)]
        # release x portable / compile-time selection (was in no tier)
        cfgs += [("%s/release" % c, b[c], 0, "release", "full") for c in ("no_simd-std", "no_simd-nostd", "ct-sse2", "ct-avx2")]
    return cfgs


def warm():
    """called by setup.sh: pre-build every configuration of the quick tier (one cargo target directory per
    -C target-feature set under _build/target-<hash>; the first build of one costs 30-60 s, later ones are no-ops)"""
    seen = set()
    for label, bk, level, profile, battery in _configs(True):
        key = (profile, tuple(sorted(bk.items())))
        if key in seen:
            continue
        seen.add(key)
        binary, log = vlib.cargo_build(profile=profile, bin_name="h_dispatch", **bk)
        print("warm C03 %s: %s" % (label, "ok" if binary else "FAILED"))


def _needs_more(observed, allowed_mask):
    """does the observed Machine type (harness code) need a feature outside allowed_mask?"""
    need = {0: 0, 1: 1, 2: 3, 3: 7, 5: 31}.get(observed, 31)
    return (need & ~allowed_mask) != 0


def run(ctx):
    vlib.standard_proof_stage(ctx)
    ok_runner, log = vlib.coq_make(["Run/Dispatch.vo"])
    if os.environ.get("C03_NO_REFERENCE"):     # exercise the fallback path by hand
        ok_runner = False
    if not ok_runner:
        ctx.log("reference runner Run/Dispatch.vo unavailable; falling back to cross-configuration comparison only")
        ctx.assumptions.append("model reference unavailable in this run (Run/Dispatch.vo did not build): "
                               "configurations were only compared with each other")
        # the model cannot be run: the tie between theorems and code is not established in this run (DESIGN 2.1 step 4);
        # the search (cross-configuration comparison, the property stated directly on the implementation) runs anyway
        ctx.violation({"kind": "correspondence-not-evaluable", "errors": [log[-1500:] if isinstance(log, str) else str(log)[-1500:]],
                       "note": "Run/Dispatch.vo does not build: no configuration is compared with the model; "
                               "the configurations are still compared with each other"}, no_input=True)
    bseed = ctx.seed
    thorough = 0 if ctx.quick else 1
    binaries = {}
    results = {}      # label -> (summary, cases)
    uniform_candidates = {}   # case index -> set of labels whose output differs from the model
    build_s = 0.0
    for label, bk, level, profile, battery in _configs(ctx.quick):
        full = label
        key = (profile, tuple(sorted(bk.items())))
        if key not in binaries:
            t0 = time.time()
            binary, blog = vlib.cargo_build(profile=profile, bin_name="h_dispatch", **bk)
            build_s += time.time() - t0
            if binary is None:
                raise vlib.CheckError("harness build failed (%s): %s" % (full, blog[-2000:]))
            binaries[key] = binary
        binary = binaries[key]
        args = ["--bseed", bseed, "--level", level] + (["--mini", 1] if battery == "mini" else ["--thorough", thorough])
        if ok_runner:
            s = vlib.correspondence(ctx, binary, "battery", args, full, shards=8 if ctx.quick else 16)
        else:
            d = os.path.join(ctx.work, full.replace("/", "_"))
            os.makedirs(d, exist_ok=True)
            s = vlib.run_harness(binary, ["battery", "--seed", 0, "--shards", 16, "--out", d] + args)
            ctx.add_cov(s, full)
            s.update({"failing": [], "_config": full, "_dir": d, "_shards": 16,
                      "_cases": json.load(open(os.path.join(d, "cases.json"))),
                      "_harness": [os.path.basename(binary), "battery"] + [str(a) for a in args]})
        cases = s["_cases"] or []
        results[full] = (s, cases)
        ctx.log("%s: %d cases, selected %s, model disagreements %s, deaths %s" % (
            full, s.get("evaluations", 0),
            {k: v.replace("ppv_lite86::x86_64::", "").replace("ppv_lite86::generic::", "") for k, v in s.get("selected", {}).items()}, s["failing"][:5], s.get("child_deaths", [])))
        if s.get("host_feature_mask") != 31:
            raise vlib.CheckError("host does not report sse2..avx2 (mask %s): forced levels would not be what they say"
                                  % s.get("host_feature_mask"))
        # selection probes against Model/Dispatch.v
        for i in s["failing"]:
            c = cases[i] if i < len(cases) else None
            if c is not None and c["kind"] == "selection":
                observed = int(c["out"] or "09", 16)
                b = s["build"]
                allowed = b["target_feature_mask"] if not b["std"] else \
                    ({0: 31, 1: 1, 2: 3, 3: 7, 4: 15, 5: 31}[s["forced_level"]])
                rep = vlib._case_report(ctx, s, i, "explain_c03", "C03_dispatch_total / C03_hook_is_cap")
                rep["observed_machine"] = c["aux"]
                rep["build"] = b
                rep["forced_level"] = s["forced_level"]
                if _needs_more(observed, allowed):
                    rep["kind"] = "selected-machine-needs-features-the-configuration-does-not-have"
                    rep["note"] = ("this macro arm instantiates a Machine whose code uses instructions outside the "
                                   "feature set of the configuration: it faults on a CPU where the other back ends return")
                    ctx.violation(rep)
                else:
                    rep["kind"] = "correspondence-broken"
                    rep["note"] = ("the Machine type selected by the macro is not the one Model/Dispatch.v selects; "
                                   "results may still agree (no failing input derived)")
                    ctx.violation(rep, no_input=True)
            else:
                uniform_candidates.setdefault(i, set()).add(full)

    # ---- cross-configuration comparison (the property itself, on the implementation)
    labels = list(results)
    ref_label = labels[0]
    ncases = max(len(results[lab][1]) for lab in labels)
    if len(results[ref_label][1]) != ncases:
        raise vlib.CheckError("the reference configuration does not run the longest battery")
    nmini = min(len(results[lab][1]) for lab in labels)
    for lab in labels:    # index i must mean the same input everywhere (the mini battery is a prefix)
        for i in (0, nmini - 1, len(results[lab][1]) - 1):
            a, b0 = results[lab][1][i], results[ref_label][1][i]
            if (a["kind"], a["input"]) != (b0["kind"], b0["input"]):
                raise vlib.CheckError("battery of %s is not a prefix of the battery of %s (case %d)" % (lab, ref_label, i))
    reported = 0
    disagreeing = 0
    for i in range(ncases):
        groups = {}
        for lab in labels:
            cs = results[lab][1]
            if i >= len(cs):
                continue   # a mini battery is a prefix of the full one: this configuration does not run case i
            c = cs[i]
            if c["kind"] == "selection":
                break
            groups.setdefault((c["res"], c["out"], c["aux"] if c["res"] != "fault" else ""), []).append(lab)
        else:
            if len(groups) > 1:
                disagreeing += 1
                if reported < 3:
                    reported += 1
                    c0 = results[ref_label][1][i]
                    rep = {"kind": "backends-disagree", "case_index": i, "case": {"kind": c0["kind"], "input": c0["input"]},
                           "results": [{"configurations": labs, "res": k[0], "out": k[1] if len(k) > 1 else None,
                                        "aux": k[2] if len(k) > 2 else None} for k, labs in groups.items()],
                           "differs_from_model": sorted(uniform_candidates.get(i, [])) if ok_runner else "model unavailable",
                           "authoritative_theorem": "C03_dispatch_irrelevant + machine independence (Props/C03.v)",
                           "harness": results[ref_label][0]["_harness"],
                           "note": "the same input gives different results (or panic/fault vs value) under different back-end / build configurations"}
                    if ok_runner and uniform_candidates.get(i):
                        lab = sorted(uniform_candidates[i])[0]
                        r = vlib.coq_explain(results[lab][0]["_dir"], results[lab][0]["_shards"], i, "explain_c03")
                        rep["model_says"] = [hex(x) for x in r] if isinstance(r, list) else r
                    ctx.violation(rep)
    # ---- model disagreements shared by every configuration: the property (a relation between
    # configurations) holds on these inputs; the deviation belongs to the conformance property
    uniform = [i for i, labs in uniform_candidates.items()
               if len(labs) == sum(1 for lab in labels if i < len(results[lab][1]))]
    ctx.cov["cross_configuration"] = {"configurations": labels, "cases_compared": ncases,
                                      "cases_compared_in_every_configuration": nmini,
                                      "cargo_build_seconds": round(build_s, 1),
                                      "cases_on_which_configurations_disagree": disagreeing,
                                      "cases_where_all_configurations_differ_from_model_identically": len(uniform),
                                      "reference": "model inside Coq" if ok_runner else "unavailable"}
    if uniform:
        ctx.log("note: %d case(s) on which ALL configurations agree with each other but not with the model "
                "(conformance, attributed to C01/C04/C06/C14; not a C03 failure): %s" % (len(uniform), uniform[:5]))
        ctx.assumptions.append("%d battery case(s) differ from the Coq reference identically in every configuration "
                               "(attributed to the conformance properties C01/C04/C06/C14)" % len(uniform))
