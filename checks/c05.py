import vlib

META = {
    "title": "Skein-256/512/1024 digests conform to Skein 1.3 for every message and output length",
    "design_ref": "6/C05 (+ Skein part of 6/C17, lazy-buffer lemmas of 6/C08)",
    "technique": "Coq proof: characterisation of BlockBuffer::input_lazy (emitted blocks + buffered tail reconstruct the input, input_lazy_app), schedule lemma for the blocks/byte counts/flags fed to Threefish, induction over the block sequence with the tweak position invariant, C09 (model cipher = spec cipher); KAT-anchored spec; differential correspondence impl = model = spec for 18 output sizes x 3 state sizes, two update calls per message, states entered through hook H2",
    "level_text": "Machine-checked theorems in Props/C05.v: C05_ubi_block_eq_spec (process_block = one UBI step with the specified tweak), C05_skein_lazy_schedule (the blocks, byte counts and first/final flags fed to Threefish for any message fed in any number of update calls are the specified ones), C05_skein{256,512,1024}_eq_spec (for every byte string shorter than 2^64 bytes, every partition into update calls, every output size 1 <= n < 2^61 bytes, both build profiles and both unroll settings the model digest is Ok and equals the Skein 1.3 value), C05_skein_pos_exact (C17: the tweak position equals the number of bytes processed, no wrap and no overflow panic below 2^64), C05_input_lazy_app / C05_input_lazy_reconstructs (block-buffer). The spec reproduces the three published empty-message vectors and the 18 vectors of the crate's test suite (C05_kats). Implementation = model = spec is checked on generated cases in debug and release profiles.",
    "level_note": "Trusted: Coq kernel+VM; spec transcription of Skein 1.3 UBI/config/output (anchored by 21 vectors) and of Threefish (C09); hand-written model of lib.rs and of block-buffer 0.9 input_lazy/pad_with tied to the code on generated cases; harness; hook H2 (verif_set_state) for entered states. No axioms.",
    "rule": "cases = (state size, output bytes N in {1,7,8,20,31,32,33,48,63,64,65,100,127,128,129,200,256,300}, message, split point of the two update calls, optional entered state (chaining value, t.0, t.1, buffered bytes)); streams: every message length 0..3*block+1 per state size, per (size,N) empty/exact multiple/+1/random, sparse longer messages, hook states at position 0, just below 2^32, 2^40, 2^63 and just below 2^64 (overflow: debug panics, release wraps); contents random/zero/ones/counting; distinct = distinct (size,N,state,message,split); every case runs configuration, message and output stages so none is trivial; implementation outcome, (t.0,t.1,pos) after the updates and digest are compared with the model, and with the spec whenever the total position stays below 2^64, inside coqc",
    "assumptions": ["little-endian host", "usize is 64 bits (byte_count_add as u64 is the identity)",
                    "output size below 2^61 bytes (the 64-bit output-length field of the configuration block)"],
}


def run(ctx):
    vlib.standard_proof_stage(ctx)
    tier = "quick" if ctx.quick else "thorough"
    plans = [("debug", "all"), ("release", "hook" if ctx.quick else "all")]
    for profile, streams in plans:
        binary, log = vlib.cargo_build(profile=profile, bin_name="h_skein")
        if binary is None:
            raise vlib.CheckError("harness build failed (h_skein %s): %s" % (profile, log[-2000:]))
        s = vlib.correspondence(ctx, binary, "skein",
                                ["--tier", tier, "--streams", streams, "--runner", "run_c05"],
                                "skein/%s/%s" % (profile, streams))
        vlib.decide_absolute(ctx, s, explain="explain_c05", theorem="C05_skein256_eq_spec / C05_skein512_eq_spec / C05_skein1024_eq_spec")
