import vlib

META = {
    "title": "Skein-256/512/1024 digests conform to Skein 1.3 for every message and output length",
    "design_ref": "6/C05 (+ Skein part of 6/C17, lazy-buffer lemmas of 6/C08)",
    "technique": "Coq proof: characterisation of BlockBuffer::input_lazy (emitted blocks + buffered tail reconstruct the input, input_lazy_app), schedule lemma for the blocks/byte counts/flags fed to Threefish, induction over the block sequence with the tweak position invariant, C09 (model cipher = spec cipher); KAT-anchored spec; differential correspondence impl = model = spec for 18 output sizes x 3 state sizes, two update calls per message, states entered through hook H2",
    "level_text": "Machine-checked theorems in Props/C05.v, all closed under the global context: C05_ubi_block_eq_spec (process_block = one UBI step E(x,T,block) xor block with the specified 128-bit tweak and FIRST cleared while the position stays below 2^64; at or beyond 2^64 the debug build panics and the release build wraps), C05_skein_lazy_schedule (from any entered state, for any message fed in any number of update calls, the blocks, byte counts and first/final flags fed to Threefish by update+finalize are the specified ones: (len-1)/nb full blocks, then the held-back 1..nb bytes zero padded with FINAL; a single zero block with count 0 for the empty message; the result is UBI of the specification), C05_skein_default_eq_iv (Default = configuration UBI carrying 8N), C05_skein_output_eq_spec (output loop = counter-mode Output truncated to N bytes), C05_skein256_eq_spec / C05_skein512_eq_spec / C05_skein1024_eq_spec (for every byte string shorter than 2^64 bytes, every partition into update calls, every output size 1 <= n with 8n < 2^64, both build profiles and both unroll settings the model digest is Ok and equals the Skein 1.3 value; uses C09 for the cipher), C05_skein_digest_eq_spec (one-shot digest), C05_input_lazy_app / C05_input_lazy_reconstructs (block-buffer). Props/C17_skein.v: C17_skein_pos_exact (tweak position = bytes given to Threefish, position + buffered = bytes absorbed, no wrap and no overflow panic while off + total < 2^64), C17_skein_from_state_eq_spec (digest from an entered state = Output of UBI continued at that position). The spec reproduces the three published empty-message vectors and the 18 vectors of the crate's test suite (C05_kats); computed examples beside the implications (C05_examples, C17_skein_examples incl. the overflow at 2^64). Implementation = model = spec is checked on generated cases in debug and release profiles.",
    "level_note": "Trusted: Coq kernel+VM; spec transcription of Skein 1.3 UBI/config/output (anchored by 21 vectors) and of Threefish (C09); hand-written model of lib.rs and of block-buffer 0.9 input_lazy/pad_with tied to the code on generated cases; harness; hook H2 (verif_set_state) for entered states. No axioms.",
    "rule": "cases = (state size, output bytes N in {1,7,8,20,31,32,33,48,63,64,65,100,127,128,129,200,256,300}, message, split point of the two update calls, optional entered state (chaining value, t.0, t.1, buffered bytes)); streams: residues (every message length 0..block+1, then block boundaries and every 4th length up to 3*block+1 in the quick tier / every length 0..3*block+1 three times in the thorough tier, per state size), per_output_size (per (size,N): empty/exact multiple/+1/random), long (sparse longer messages), hook (entered states at position 0 with and without FIRST, just below 2^32, 2^32, 2^40, 2^63 and just below 2^64 where t.0 overflows: debug panics, release wraps; buffered 0/1/block-1/block bytes; tails around the block boundaries), smoke (complete runs added to configurations that otherwise only see entered states); contents random/zero/ones/counting/structured; configurations: quick = debug all streams, release hook, release+no_unroll smoke; thorough = debug all, release all, debug+no_unroll all, release+no_unroll hook; distinct = distinct (size,N,state,message,split); every case runs configuration, message and output stages so none is trivial; implementation outcome (ok/panic), (t.0,t.1,buffer position) after the updates and digest are compared with the model, and with the spec whenever the total position stays below 2^64, inside coqc",
    "assumptions": ["little-endian host", "usize is 64 bits (byte_count_add as u64 and i as u64 are identities)",
                    "output size N with 8N < 2^64 (the 64-bit output-bits field of the configuration block, N::to_u64() * 8)",
                    "message shorter than 2^64 bytes (the u64 position word state.t.0; Skein 1.3 allows 2^96-1: beyond 2^64 debug builds panic and release builds wrap, theorem C17_skein_beyond_2_64, reproduced through hook H2)"],
}


def run(ctx):
    vlib.standard_proof_stage(ctx, extra_props=("C17_skein",))
    tier = "quick" if ctx.quick else "thorough"
    # (profile, cargo features of the harness, streams)
    if ctx.quick:
        plans = [("debug", (), "all"), ("release", (), "hook"), ("release", ("no_unroll",), "smoke")]
    else:
        plans = [("debug", (), "all"), ("release", (), "all"),
                 ("debug", ("no_unroll",), "all"), ("release", ("no_unroll",), "hook")]
    for profile, feats, streams in plans:
        binary, log = vlib.cargo_build(features=feats, profile=profile, bin_name="h_skein")
        if binary is None:
            raise vlib.CheckError("harness build failed (h_skein %s %s): %s" % (profile, feats, log[-2000:]))
        label = "skein/%s/%s/%s" % (profile, "no_unroll" if feats else "unrolled", streams)
        s = vlib.correspondence(ctx, binary, "skein",
                                ["--tier", tier, "--streams", streams, "--runner", "run_c05"], label)
        vlib.decide_absolute(ctx, s, explain="explain_c05",
                             theorem="C05_skein256_eq_spec / C05_skein512_eq_spec / C05_skein1024_eq_spec (entered states: C17_skein_from_state_eq_spec, C17_skein_pos_exact)")
