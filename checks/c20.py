"""C20 - every declared cargo feature combination builds and only selects implementations.

(a) proof stage on Props/C20.v (selection irrelevance over the modelled lattice);
(b) the lattice is parsed from the nine Cargo.toml files as they are now, compared with the lattice
    written in Model/Features.v (generated Coq file, checked by coqc), and every point is given to
    `cargo check --offline -p <crate> --no-default-features --features <set>`;
(c) result equality: h_features (a fixed battery) is built against configurations that put the
    crates at chosen lattice points (generated manifests; cargo's resolved feature sets are read
    back with `cargo metadata`) and every section's results are compared with the default build;
    Threefish `no_unroll` is additionally compared with the Coq model (Run/TF.v run_c09).
"""
import hashlib
import itertools
import json
import os
import re
import shutil
import time
import tomllib
from concurrent.futures import ThreadPoolExecutor

import vlib

META = {
    "title": "Every declared cargo feature combination builds and only selects implementations",
    "design_ref": "6/C20",
    "technique": "Coq proof of selection irrelevance over the finite feature lattice (Threefish: corollary of C09_unroll_irrelevant; back-end selections: reduction to back-end equivalence, the statement of C03); buildability observed with cargo check on every lattice point; result equality across configurations with a differential harness; lattice of the Cargo.toml files kept equal to the lattice of the model by a generated Coq file",
    "level_text": "PARTIAL by design. Machine-checked: for every crate, every point of its feature lattice and every environment (CPU level, compile-time target level, unified ppv-lite86 features), the implementation selected at that point computes the same function as the one selected at the default point - unconditionally for Threefish (loop = unrolled, from C09), Groestl (all three modules are the same source function), the no-op features and c2-chacha's rustcrypto_api; for the ppv-lite86 back-end selection it is proved from the hypothesis that all back ends compute the same function (the C03 statement), named ..._partial. Observed, not proved: rustc accepts every point (cargo check per point) and the built configurations give identical results on the battery. Added after an independent audit: the hypothesis of the _partial theorems is discharged with C03 for the whole block functions - C20_chacha_refill_wide/narrow_feature_irrelevant, C20_blake_put_block32/64_feature_irrelevant, C20_blake_finalize_feature_irrelevant, C20_jh_f8_feature_irrelevant (hypothesis-free; the two sides may also differ in build profile); groestl-aesni is modelled with its three entry points aes / ssse3 / sse2, the std autodetect and the no-std re-export chain (Model/FeaturesGroestl.v): C20_groestl_entry_points_are_shared_body, C20_groestl_point_selection_irrelevant, C20_groestl_std_panics_iff(_no_sse2) (the autodetect arm panics exactly when SSE2 is not detected), C20_groestl_not_built_iff, C20_groestl_digests_eq_spec; the older C20_groestl_selection_irrelevant is about a definition that ignores the module and has no content of its own. Open: ppv-lite86's generic-vs-x86_64 module choice as a statement about the crate (arch_irrelevant). Trusted: code generation under #[target_feature].",
    "level_note": "Trusted: Coq kernel+VM; the selection functions in Model/Features.v are a hand transcription of the cfg attributes (tied only by the lattice sync test and the cross-configuration battery); cargo/rustc as the oracle for buildability, on this toolchain and x86-64 only; the harness. No axioms.",
    "rule": "inputs = (crate, feature set) for every subset of the features each crate declares (named features and implicit optional-dependency features; `default` is the subset it expands to); cargo check per point; battery = fixed length sweep + structured/random messages/keys from the seed per algorithm, identical in every configuration; three configurations are built and run with static target features (-C target-feature): no-std with the full host set (+avx2,+aes) no-std with +ssse3,+sse4.1,+avx WITHOUT +avx2 (the AVX arm of the static dispatch macros) and no-std with +ssse3 WITHOUT +aes (groestl-aesni's `mod ssse3` and its ssse3-and-not-aes cfg arms, ppv-lite86's static SSSE3 machine), plus groestl-aesni alone no-std with plain SSE2 (`mod sse2`); distinct = distinct (configuration, section, case); non-trivial = configuration differs from the default build in at least one resolved feature",
    "assumptions": ["stable toolchain found on PATH, x86-64 target with default target features (sse2)", "little-endian host"],
}

CRATES = ["hashes/blake", "hashes/groestl", "hashes/jh", "hashes/skein", "block-ciphers/threefish",
          "stream-ciphers/chacha", "utils-simd/crypto-simd", "utils-simd/ppv-lite86", "utils-simd/ppv-null"]
CHECK_RUSTFLAGS = "--cfg zerocopy_derive_union_into_bytes"
TARGET_CHECK = os.path.join(vlib.BUILD, "target-c20")
CFG_ROOT = os.path.join(vlib.BUILD, "c20-cfg")


# --------------------------------------------------------------------------
# lattice
# --------------------------------------------------------------------------

def parse_crate(path):
    t = tomllib.load(open(os.path.join(vlib.REPO, path, "Cargo.toml"), "rb"))
    feats = t.get("features", {})
    named = [f for f in feats if f != "default"]
    via_dep = {x[4:] for v in feats.values() for x in v if x.startswith("dep:")}
    # optional dependencies are implicit features wherever they are declared: [dependencies], [build-dependencies]
    # and the [target.'cfg(..)'.dependencies] / [target.'cfg(..)'.build-dependencies] tables
    dep_tables = [t.get("dependencies", {}), t.get("build-dependencies", {})]
    for tt in t.get("target", {}).values():
        if isinstance(tt, dict):
            dep_tables += [tt.get("dependencies", {}), tt.get("build-dependencies", {})]
    implicit = []
    for tab in dep_tables:
        for d, spec in tab.items():
            if isinstance(spec, dict) and spec.get("optional") and d not in via_dep and d not in named and d not in implicit:
                implicit.append(d)
    return {"path": path, "name": t["package"]["name"], "named": named, "implicit": implicit,
            "default": list(feats.get("default", [])),
            "implies": [[f, list(v)] for f, v in feats.items() if f != "default"]}


def subsets(xs):
    for r in range(len(xs) + 1):
        for c in itertools.combinations(xs, r):
            yield list(c)


def closure(crate, point):
    """features of the crate itself that a point turns on (feature -> feature implications)."""
    own = set(crate["named"]) | set(crate["implicit"])
    imp = dict((f, v) for f, v in crate["implies"])
    done, todo = set(), list(point)
    while todo:
        f = todo.pop()
        if f in done:
            continue
        done.add(f)
        for g in imp.get(f, []):
            if g in own:
                todo.append(g)
    return sorted(done)


def lattice():
    crates = [parse_crate(p) for p in CRATES]
    for c in crates:
        c["points"] = list(subsets(c["named"] + c["implicit"]))
    return crates


def coq_str_list(xs):
    return "[" + "; ".join('"%s"' % x for x in xs) + "]"


def sync_file(crates):
    """Coq file stating that the parsed manifests equal Model/Features.v's `manifest`."""
    rows = []
    for c in crates:
        imp = "[" + "; ".join('("%s", %s)' % (f, coq_str_list(v)) for f, v in c["implies"]) + "]"
        rows.append('  mk_entry "%s" %s %s %s %s' % (c["name"], coq_str_list(c["named"]), coq_str_list(c["implicit"]),
                                                     coq_str_list(c["default"]), imp))
    n_points = sum(len(c["points"]) for c in crates)
    return ("From Coq Require Import String List NArith.\nImport ListNotations.\nOpen Scope string_scope.\n"
            "From CC Require Import Model.Features.\n"
            "Definition parsed : list manifest_entry := [\n" + ";\n".join(rows) + "\n].\n"
            "(* crates (by index) whose Cargo.toml no longer equals the modelled manifest; then the point count *)\n"
            "Eval vm_compute in (manifest_mismatch parsed manifest).\n"
            "Example point_count : N.of_nat (total_points manifest) = %d%%N. Proof. vm_compute. reflexivity. Qed.\n" % n_points)


def sync_stage(ctx, crates):
    d = os.path.join(ctx.work, "sync")
    os.makedirs(d, exist_ok=True)
    open(os.path.join(d, "lattice_sync.v"), "w").write(sync_file(crates))
    rc, out = vlib.sh(["timeout", "300", "coqc", "-noglob", "-Q", vlib.COQ, "CC", "lattice_sync.v"], cwd=d, timeout=330)
    # the list of differing crates is printed before the point-count Example is checked: read it even when coqc fails there
    try:
        idx = vlib.parse_indices(out)
    except Exception:  # noqa
        idx = None
    ok = rc == 0 and idx == []
    if not ok:
        names = [crates[i]["name"] for i in (idx or []) if i < len(crates)]
        ctx.violation({"kind": "lattice-out-of-sync",
                       "crates": names or "see coqc output",
                       "point_count_matches": rc == 0,
                       "comparison": "as sets: the order of [features] keys, of a feature's members and of `default` is ignored",
                       "parsed": [{k: c[k] for k in ("name", "named", "implicit", "default", "implies")} for c in crates],
                       "coqc": out[-1500:],
                       "note": "the feature lattice declared by the Cargo.toml files is no longer the lattice of Model/Features.v: "
                               "the selection-irrelevance theorem does not speak about the crates as they are now"},
                      no_input=True)
    else:
        ctx.log("lattice sync ok: Cargo.toml manifests = Model/Features.v manifest (%d crates, %d points)"
                % (len(crates), sum(len(c["points"]) for c in crates)))
    return ok


# --------------------------------------------------------------------------
# cargo check per point
# --------------------------------------------------------------------------

def ensure_lock():
    lock = os.path.join(vlib.REPO, "Cargo.lock")
    if not os.path.exists(lock):     # scratch worktree: Cargo.lock is untracked
        shutil.copyfile("/repo/Cargo.lock", lock)


def trim_diag(out):
    lines = out.split("\n")
    keep = []
    for i, l in enumerate(lines):
        if l.startswith("error"):
            keep.append(l)
            for m in lines[i + 1:i + 3]:
                if m.strip().startswith("-->"):
                    keep.append(m)
    seen, res = set(), []
    for l in keep:
        if l not in seen:
            seen.add(l)
            res.append(l)
    if len(res) < 2:      # not a rustc diagnostic (manifest / resolution error): keep cargo's own explanation
        return out[-1800:]
    return "\n".join(res)[:2500]


def check_point(name, feats, tdir, tf=""):
    env = dict(os.environ)
    env["CARGO_TARGET_DIR"] = tdir
    env["CARGO_NET_OFFLINE"] = "true"
    env["RUSTFLAGS"] = CHECK_RUSTFLAGS + ((" -C target-feature=" + tf) if tf else "")
    cmd = ["cargo", "check", "--offline", "-p", name, "--no-default-features"]
    if feats:
        cmd += ["--features", ",".join(feats)]
    t0 = time.time()
    rc, out = vlib.sh(cmd, cwd=vlib.REPO, env=env, timeout=1200)
    return {"crate": name, "features": feats, "target_features": tf, "builds": rc == 0, "seconds": round(time.time() - t0, 1),
            "cmd": " ".join(cmd), "rustflags": env["RUSTFLAGS"], "diagnostics": "" if rc == 0 else trim_diag(out)}


# Compile-time target features select code as cargo features do (cfg(target_feature = ..) in
# hashes/groestl/src/compressor.rs and in the no-std dispatch of ppv-lite86): the no-std points of
# those crates are also checked under each of these static target-feature sets (G3 was such a point).
TF_GRID = ["+ssse3", "+aes", "+ssse3,+aes", "+ssse3,+sse4.1", "+avx", "+avx2"]
TF_CRATES = {"groestl-aesni": [[]], "ppv-lite86": [[], ["simd"]]}


def check_target_feature_points(crates):
    names = {c["name"] for c in crates}
    jobs = []
    for name, pts in TF_CRATES.items():
        if name not in names:
            continue
        for tf in TF_GRID:
            jobs.append((name, pts, tf, os.path.join(TARGET_CHECK, "%s-tf-%s" % (name, tf.replace("+", "").replace(",", "_").replace(".", "")))))

    def lane(job):
        name, pts, tf, tdir = job
        return [check_point(name, p, tdir, tf) for p in pts]
    res = []
    with ThreadPoolExecutor(max_workers=vlib.NCPU) as ex:
        for r in ex.map(lane, jobs):
            res += r
    return res


def check_all_points(crates, lanes_for=4):
    """one serial lane per (crate, slice): cargo serialises on the target directory, so each lane has its own"""
    jobs = []
    for c in crates:
        k = lanes_for if len(c["points"]) > 8 else 1
        for j in range(k):
            pts = c["points"][j::k]
            if pts:
                jobs.append((c["name"], pts, os.path.join(TARGET_CHECK, "%s-%d" % (c["name"], j))))

    def lane(job):
        name, pts, tdir = job
        return [check_point(name, p, tdir) for p in pts]
    res = []
    with ThreadPoolExecutor(max_workers=vlib.NCPU) as ex:
        for r in ex.map(lane, jobs):
            res += r
    return res


def known_points(ctx):
    """(crate, frozenset(features)) -> finding id, exactly the points listed by the open findings"""
    kp = {}
    for f in vlib.known_findings(ctx.prop):
        pts = f.get("points") or [f.get("features", [])]
        for p in pts:
            kp[(f.get("crate"), frozenset(p))] = f.get("id", "?")
    return kp


# --------------------------------------------------------------------------
# configurations for result equality
# --------------------------------------------------------------------------

DEP = {  # section-crate key -> (package, path in the repository, c20_no_ feature)
    "blake": ("blake-hash", "hashes/blake"),
    "groestl": ("groestl-aesni", "hashes/groestl"),
    "jh": ("jh-x86_64", "hashes/jh"),
    "skein": ("skein-hash", "hashes/skein"),
    "threefish": ("threefish-cipher", "block-ciphers/threefish"),
    "chacha": ("c2-chacha", "stream-ciphers/chacha"),
    "ppv": ("ppv-lite86", "utils-simd/ppv-lite86"),
}
SECTION_CRATES = {"blake": ["blake", "ppv"], "groestl": ["groestl"], "jh": ["jh", "ppv"], "skein": ["skein", "threefish"],
                  "threefish": ["threefish"], "chacha-guts": ["chacha", "ppv"], "chacha-api": ["chacha", "ppv"], "ppv": ["ppv"]}


def manifest_text(cfg):
    """cfg: {"label":..., "points": {key: [features] | None}, "std": bool}"""
    pts = cfg["points"]
    deps, off = [], []
    for key, (pkg, path) in DEP.items():
        p = pts.get(key)
        if p is None:
            off.append("c20_no_" + key)
            continue
        deps.append('%s = { path = "%s/%s", default-features = false, features = [%s] }'
                    % (pkg, vlib.REPO, path, ", ".join('"%s"' % f for f in p)))
    if pts.get("chacha") is not None and "rustcrypto_api" not in pts["chacha"]:
        off.append("c20_no_chacha_api")
    default = off + (["std"] if cfg.get("std") else [])
    allf = ["c20_no_" + k for k in DEP] + ["c20_no_chacha_api"]
    return "\n".join([
        "[package]", 'name = "c20cfg"', 'version = "0.1.0"', 'edition = "2021"', "publish = false", "", "[workspace]", "",
        "[[bin]]", 'name = "h_features"', 'path = "%s/src/bin/h_features.rs"' % vlib.HARNESS, "",
        "[dependencies]"] + deps + ['cipher = "0.3"', 'digest = "0.9"', "",
        "[features]", "default = [%s]" % ", ".join('"%s"' % f for f in default), "std = []"] + ["%s = []" % f for f in allf] + ["",
        "[patch.crates-io]"] + ['%s = { path = "%s/%s" }' % (pkg, vlib.REPO, path) for pkg, path in (
            ("c2-chacha", "stream-ciphers/chacha"), ("crypto-simd", "utils-simd/crypto-simd"), ("ppv-lite86", "utils-simd/ppv-lite86"),
            ("ppv-null", "utils-simd/ppv-null"), ("threefish-cipher", "block-ciphers/threefish"))] + ["",
        "[profile.dev]", "opt-level = 1", "overflow-checks = true", "debug-assertions = true", ""])


def build_config(cfg, lane):
    d = os.path.join(CFG_ROOT, "lane%d" % lane)
    os.makedirs(d, exist_ok=True)
    txt = manifest_text(cfg)
    mf = os.path.join(d, "Cargo.toml")
    if not os.path.exists(mf) or open(mf).read() != txt:
        open(mf, "w").write(txt)
    lock = os.path.join(vlib.REPO, "Cargo.lock")
    shutil.copyfile(lock if os.path.exists(lock) else "/repo/Cargo.lock", os.path.join(d, "Cargo.lock"))
    env = dict(os.environ)
    env["CARGO_NET_OFFLINE"] = "true"
    env["CARGO_TARGET_DIR"] = os.path.join(vlib.BUILD, "target-c20h-%d" % lane)
    env["RUSTFLAGS"] = " ".join(vlib.BASE_RUSTFLAGS + (["-C", "target-feature=" + cfg["tf"]] if cfg.get("tf") else []))
    t0 = time.time()
    rc, out = vlib.sh(["cargo", "build", "--offline", "--quiet", "--bin", "h_features"], cwd=d, env=env, timeout=1800)
    if rc != 0:
        return None, trim_diag(out), None, round(time.time() - t0, 1)
    tag = hashlib.sha1((txt + cfg.get("tf", "")).encode()).hexdigest()[:10]
    dst = os.path.join(vlib.BUILD, "bin", "h_features-c20-%s" % tag)
    os.makedirs(os.path.dirname(dst), exist_ok=True)
    shutil.copyfile(os.path.join(env["CARGO_TARGET_DIR"], "debug", "h_features"), dst)
    os.chmod(dst, 0o755)
    # what cargo actually resolved (feature unification across the graph)
    rc2, meta = vlib.sh(["cargo", "metadata", "--offline", "--format-version", "1", "--filter-platform", "x86_64-unknown-linux-gnu"],
                        cwd=d, env=env, timeout=300)
    resolved = {}
    if rc2 == 0:
        try:
            m = json.loads(meta[meta.index("{"):])
            names = {p["id"]: p["name"] for p in m["packages"]}
            want = {pkg: key for key, (pkg, _) in DEP.items()}
            for n in m["resolve"]["nodes"]:
                nm = names.get(n["id"])
                if nm in want:
                    resolved[want[nm]] = sorted(n.get("features", []))
        except Exception as e:  # noqa
            resolved = {"error": str(e)}
    return dst, out, resolved, round(time.time() - t0, 1)


LANES = 4


def host_target_features():
    """static target features that can be both compiled in and executed on this machine"""
    fl = vlib.native_rustflags()
    return fl[1].split("=", 1)[1].split(",") if fl else []


def lanes_of(cfgs):
    """[(cfg, lane)]: ordinary configurations go round the LANES target directories; a configuration with static target
    features (RUSTFLAGS differ: cargo would rebuild everything in a shared directory) has a lane of its own"""
    reg = [c for c in cfgs if not c.get("tf")]
    ct = [c for c in cfgs if c.get("tf")]
    return [(c, i % LANES) for i, c in enumerate(reg)] + [(c, LANES + i) for i, c in enumerate(ct)]


def configurations(crates, quick):
    by = {c["name"]: c for c in crates}
    P = {key: by[pkg]["points"] if pkg in by else [[]] for key, (pkg, _) in DEP.items()}
    full = {key: (by[pkg]["named"] + by[pkg]["implicit"]) if pkg in by else [] for key, (pkg, _) in DEP.items()}
    cfgs = [
        {"label": "all-crates-no-features", "std": False,
         "points": {k: [] for k in DEP}},
        {"label": "all-crates-all-features", "std": True,
         "points": {k: list(full[k]) for k in DEP}},
        {"label": "nostd-chacha+ppv-only", "std": False,
         "points": {"chacha": [], "ppv": [], "blake": None, "jh": None, "groestl": [], "skein": [], "threefish": []}},
        {"label": "nostd-no_simd-api", "std": False,
         "points": {"chacha": [f for f in ("rustcrypto_api",) if f in full["chacha"]],
                    "ppv": [f for f in ("no_simd",) if f in full["ppv"]], "blake": None, "jh": None,
                    "groestl": [f for f in ("lazy_static",) if f in full["groestl"]], "skein": [],
                    "threefish": list(full["threefish"])}},
    ]
    # Added after the audit of the generators: before, no observed configuration had `simd` (or `std`+`simd`)
    # without `no_simd`, so ppv-lite86 [simd], [std,simd] and 24 of the 32 c2-chacha points ran nowhere with the x86
    # back end; blake-hash [std] / [simd] alone and c2-chacha [std] alone were build-checked only. Each configuration
    # below puts several crates at points no other quick configuration observes (cargo keeps one artefact per
    # feature set in the lane's target directory, so after the first build these cost a relink each).
    def only(key, feats):
        return [f for f in feats if f in full[key]]
    cfgs += [
        {"label": "all-features-except-no_simd", "std": True,
         "points": {k: [f for f in full[k] if f not in ("no_simd", "no_unroll")] for k in DEP}},
        {"label": "nostd-simd-only", "std": False,
         "points": {"chacha": only("chacha", ["simd"]), "ppv": only("ppv", ["simd"]), "blake": None, "jh": None,
                    "groestl": [], "skein": [], "threefish": list(full["threefish"])}},
        {"label": "std-alone", "std": True,
         "points": {"chacha": only("chacha", ["std"]), "ppv": [], "blake": only("blake", ["std"]), "jh": only("jh", ["std"]),
                    "groestl": only("groestl", ["std"]), "skein": [], "threefish": []}},
        {"label": "simd-alone+api", "std": False,
         "points": {"chacha": only("chacha", ["rustcrypto_api", "simd"]), "ppv": only("ppv", ["simd"]),
                    "blake": only("blake", ["simd"]), "jh": [], "groestl": only("groestl", ["lazy_static"]), "skein": [],
                    "threefish": list(full["threefish"])}},
        {"label": "nostd-no_simd+simd", "std": False,
         "points": {"chacha": only("chacha", ["no_simd", "simd", "cipher"]), "ppv": only("ppv", ["simd", "no_simd"]), "blake": None,
                    "jh": None, "groestl": [], "skein": [], "threefish": []}},
        {"label": "std-no_simd", "std": True,
         "points": {"chacha": only("chacha", ["std", "no_simd"]), "ppv": only("ppv", ["std", "no_simd"]), "blake": None, "jh": None,
                    "groestl": only("groestl", ["std"]), "skein": [], "threefish": []}},
        {"label": "std-simd-cipher", "std": True,
         "points": {"chacha": only("chacha", ["std", "simd", "cipher"]), "ppv": only("ppv", ["std", "simd"]), "blake": None, "jh": None,
                    "groestl": [], "skein": [], "threefish": []}},
        {"label": "all-crates-default-features", "std": True,
         "points": {key: list(by[pkg]["default"]) if pkg in by else [] for key, (pkg, _) in DEP.items()}},
        {"label": "std-api-no_simd", "std": True,
         "points": {"chacha": only("chacha", ["std", "rustcrypto_api", "no_simd"]), "ppv": [], "blake": None, "jh": None,
                    "groestl": [], "skein": [], "threefish": list(full["threefish"])}},
        {"label": "std-simd", "std": True,
         "points": {"chacha": only("chacha", ["std", "simd"]), "ppv": only("ppv", ["std"]), "blake": None, "jh": None,
                    "groestl": only("groestl", ["std"]), "skein": [], "threefish": []}},
        {"label": "nostd-api-no_simd+simd", "std": False,
         "points": {"chacha": only("chacha", ["rustcrypto_api", "no_simd", "simd"]), "ppv": only("ppv", ["no_simd"]), "blake": None,
                    "jh": None, "groestl": [], "skein": [], "threefish": list(full["threefish"])}},
    ]
    # Static target features select code the way cargo features do (no-std arms of the ppv-lite86 dispatch macros used by
    # blake-hash / jh-x86_64 / c2-chacha, groestl's static re-export chain); before, C20 only `cargo check`ed them. One
    # configuration is built AND run with the most capable level this machine can execute.
    have = host_target_features()
    if "+avx2" in have and "+aes" in have and "+ssse3" in have:
        cfgs.append({"label": "all-crates-no-features/ct-avx2+aes", "std": False, "tf": "+ssse3,+sse4.1,+avx,+avx2,+aes",
                     "points": {k: [] for k in DEP}})
    # Added after the mutation campaign (M05, M46): groestl-aesni's `mod ssse3` bodies and its
    # `cfg(all(target_feature = "ssse3", not(target_feature = "aes")))`-style arms exist only in a no-std build with
    # `-C target-feature=+ssse3` and WITHOUT `+aes`; `mod sse2` only in a no-std build with no extra target feature. This
    # machine executes both (its feature set is a superset). The +ssse3 configuration leaves blake-hash / jh-x86_64 out (they
    # turn ppv-lite86/std on), so that ppv-lite86 is no-std too and its static dispatch selects the SSSE3 machine for the
    # chacha and ppv sections; the plain-sse2 one is groestl alone (`static_dispatch` -> `sse2::*`). Appended AFTER the avx2 configuration so that the lanes (= cached
    # target directories) of the older configurations do not move.
    groestl_only = {k: None for k in DEP}
    groestl_only["groestl"] = []
    if "+ssse3" in have:
        cfgs.append({"label": "groestl-nostd/ct-ssse3-without-aes", "std": False, "tf": "+ssse3",
                     "points": {k: (None if k in ("blake", "jh") else []) for k in DEP}})
    cfgs.append({"label": "groestl-nostd/ct-plain-sse2", "std": False, "points": dict(groestl_only)})
    # Added after seeds round 4 (C20-8): the static (no-std) arms of dispatch! / dispatch_light256! have five levels; avx2,
    # ssse3 and sse2 were run, the AVX-without-AVX2 arm (and with it the 128-bit AVX machine selected at compile time) was
    # only `cargo check`ed. Appended last: the lanes of the older configurations do not move.
    if "+avx" in have and "+ssse3" in have:
        cfgs.append({"label": "all-crates-no-features/ct-avx-without-avx2", "std": False, "tf": "+ssse3,+sse4.1,+avx",
                     "points": {k: [] for k in DEP}})
    if quick:
        return cfgs
    # family A: every crate present, crate k at its point number i mod |lattice_k|
    n = max(len(v) for v in P.values())
    for i in range(n):
        cfgs.append({"label": "A%02d" % i, "std": bool(i & 1),
                     "points": {k: P[k][i % len(P[k])] for k in DEP}})
    # family B: without blake/jh (which always turn ppv-lite86/std on): ppv-lite86 at each of its points,
    # c2-chacha at the points that forward nothing to ppv-lite86
    fwd_free = [p for p in P["chacha"] if not any(f in ("std", "no_simd") for f in p)] or [[]]
    for j, pp in enumerate(P["ppv"]):
        cfgs.append({"label": "B%02d" % j, "std": bool(j & 1),
                     "points": {"chacha": fwd_free[j % len(fwd_free)], "ppv": pp, "blake": None, "jh": None,
                                "groestl": P["groestl"][j % len(P["groestl"])], "skein": [],
                                "threefish": P["threefish"][j % len(P["threefish"])]}})
    return cfgs


def run_battery(ctx, binary, label, extra):
    out = os.path.join(ctx.work, "battery_%s.json" % re.sub(r"[^A-Za-z0-9_.-]", "_", label))
    s = vlib.run_harness(binary, ["battery", "--seed", ctx.seed, "--extra", extra, "--out", out], timeout=900)
    return s, json.load(open(out))


def equality_stage(ctx, crates):
    extra = 0 if ctx.quick else 40
    ctx.log("result equality: building the default configuration (in-tree harness, default features)")
    base_bin, log = vlib.cargo_build(bin_name="h_features")
    if base_bin is None:
        raise vlib.CheckError("h_features (default configuration) does not build: %s" % log[-2000:])
    s0, base = run_battery(ctx, base_bin, "default", extra)
    s0.update({"distinct_nontrivial": 0, "samples": [{"section": k, "case": v[0]} for k, v in list(base.items())[:2]]})
    ctx.add_cov(s0, "default (harness default features)")
    cfgs = configurations(crates, ctx.quick)
    if not any(c.get("tf") for c in cfgs):
        ctx.assumptions.append("this machine cannot execute +avx2,+aes code: no configuration with static target features was run")
    assigned = lanes_of(cfgs)
    lanes = sorted({k for _, k in assigned})
    report = []

    def lane_job(k):
        res = []
        for cfg, lane in assigned:
            if lane == k:
                res.append((cfg,) + build_config(cfg, k))
        return res
    built = []
    with ThreadPoolExecutor(max_workers=len(lanes)) as ex:
        for r in ex.map(lane_job, lanes):
            built += r
    built.sort(key=lambda x: [c["label"] for c in cfgs].index(x[0]["label"]))
    observed = {}   # (key, frozenset(resolved features)) -> [labels]
    for cfg, binary, log, resolved, secs in built:
        entry = {"label": cfg["label"], "requested": cfg["points"], "harness_std": cfg["std"], "resolved": resolved,
                 "static_target_features": cfg.get("tf", ""), "build_seconds": secs}
        if binary is None:
            entry["status"] = "does-not-build"
            ctx.violation({"kind": "configuration-does-not-build", "configuration": cfg, "diagnostics": log,
                           "note": "a combination of lattice points that cargo check accepts crate by crate does not build as one dependency graph"})
            report.append(entry)
            continue
        s, res = run_battery(ctx, binary, cfg["label"], extra)
        diffs = []
        n_cases = 0
        for sec, cases in res.items():
            ref = base.get(sec)
            if ref is None:
                continue
            n_cases += len(cases)
            if len(ref) != len(cases):
                diffs.append({"section": sec, "note": "different number of cases: %d vs %d" % (len(cases), len(ref))})
                continue
            for a, b in zip(ref, cases):
                if a["id"] != b["id"] or a["in"] != b["in"]:
                    diffs.append({"section": sec, "note": "battery not aligned", "default": a["id"], "here": b["id"]})
                    break
                if a["out"] != b["out"]:
                    diffs.append({"section": sec, "case": a["id"], "input": a["in"], "default_result": a["out"], "result_here": b["out"],
                                  "crate_points": {k: resolved.get(k) for k in SECTION_CRATES.get(sec, [])}})
        entry["status"] = "equal" if not diffs else "DIFFERENT"
        entry["cases_compared"] = n_cases
        entry["sections"] = s.get("sections")
        first_per_section = list({f["section"]: f for f in reversed(diffs)}.values())[::-1]
        for f in first_per_section[:3]:
            ctx.violation({"kind": "feature-changes-result", "configuration": cfg["label"], "requested_points": cfg["points"],
                           "resolved_features": resolved, "difference": f,
                           "note": "the same input gives a different result than the default-feature build"})
        s2 = dict(s)
        s2["evaluations"] = n_cases
        s2["distinct_nontrivial"] = n_cases if resolved else 0
        s2["resolved_features"] = resolved
        s2["direct_failures"] = first_per_section[:3]
        entry["sections_with_differences"] = sorted({f["section"] for f in diffs})
        ctx.add_cov(s2, cfg["label"])
        for key, fs in (resolved or {}).items():
            if isinstance(fs, list):
                observed.setdefault((key, frozenset(f for f in fs if f != "default")), []).append(cfg["label"])
        report.append(entry)
        ctx.log("configuration %-26s %s (%d cases, build %.0fs)" % (cfg["label"], entry["status"], n_cases, secs))
    return report, observed


def threefish_model_stage(ctx):
    """Threefish no_unroll against the Coq model and spec (runner of C09, stable)."""
    n = 48 if ctx.quick else 600
    binary, log = vlib.cargo_build(features=("no_unroll",), profile="debug")
    if binary is None:
        ctx.violation({"kind": "configuration-does-not-build", "configuration": "harness --features no_unroll", "diagnostics": log[-2000:]})
        return
    s = vlib.correspondence(ctx, binary, "tf", ["--count", n, "--runner", "run_c09"], "threefish no_unroll vs Coq model/debug")
    vlib.decide_absolute(ctx, s, explain="explain_tf", theorem="C20_threefish_selection_irrelevant / C09_encrypt_eq_spec")


# --------------------------------------------------------------------------

def warm():
    """for setup.sh: fill the cargo caches the quick tier uses"""
    ensure_lock()
    crates = lattice()
    check_all_points(crates)
    vlib.cargo_build(bin_name="h_features")
    assigned = lanes_of(configurations(crates, True))
    lanes = sorted({k for _, k in assigned})
    with ThreadPoolExecutor(max_workers=len(lanes)) as ex:
        list(ex.map(lambda k: [build_config(c, k) for c, lane in assigned if lane == k], lanes))


def run(ctx):
    vlib.standard_proof_stage(ctx)
    ensure_lock()
    crates = lattice()
    npts = sum(len(c["points"]) for c in crates)
    ctx.log("lattice: " + ", ".join("%s %d" % (c["name"], len(c["points"])) for c in crates) + " = %d points" % npts)
    sync_stage(ctx, crates)

    # (b) buildability of every point
    t0 = time.time()
    results = check_all_points(crates)
    tf_results = check_target_feature_points(crates)
    kp = known_points(ctx)
    failing_unknown, reproduced, gone = [], {}, {}
    for r in results:
        key = (r["crate"], frozenset(r["features"]))
        fid = kp.get(key)
        if r["builds"]:
            r["status"] = "builds"
            if fid:
                r["status"] = "builds (open finding %s no longer reproduces here)" % fid
                gone.setdefault(fid, []).append(r["features"])
        elif fid:
            r["status"] = "known finding %s" % fid
            reproduced.setdefault(fid, []).append(r["features"])
            ctx.known_hits.append({"id": fid, "crate": r["crate"], "features": r["features"]})
        else:
            r["status"] = "DOES NOT BUILD"
            failing_unknown.append(r)
    for fid, pts in gone.items():
        ctx.log("finding no longer reproduces: %s now builds at %d listed point(s): %s" % (fid, len(pts), pts[:4]))
    for fid, pts in reproduced.items():
        ctx.log("open finding %s reproduced at %d point(s); those points are skipped, nothing broader" % (fid, len(pts)))
    for r in tf_results:
        r["status"] = "builds" if r["builds"] else "DOES NOT BUILD"
        if not r["builds"]:
            failing_unknown.append(r)
    results = results + tf_results
    for r in failing_unknown[:6]:
        ctx.violation({"kind": "feature-point-does-not-build", "crate": r["crate"], "features": r["features"],
                       "target_features": r.get("target_features", ""),
                       "command": "cd %s && RUSTFLAGS='%s' %s" % (vlib.REPO, r.get("rustflags", CHECK_RUSTFLAGS), r["cmd"]),
                       "diagnostics": r["diagnostics"],
                       "also_failing": [[x["crate"], x["features"]] for x in failing_unknown[:40]]})
    ctx.log("cargo check: %d points, %d build, %d known-finding, %d fail (%.0fs)" % (
        len(results), sum(r["builds"] for r in results), sum(len(v) for v in reproduced.values()), len(failing_unknown), time.time() - t0))
    ctx.cov["evaluations"] += len(results)
    ctx.cov["distinct_nontrivial"] += len(results)
    ctx.cov["lattice"] = [{k: c[k] for k in ("name", "path", "named", "implicit", "default", "implies")} | {"points": len(c["points"])}
                          for c in crates]
    ctx.cov["lattice_points_total"] = npts
    ctx.cov["cargo_check_points"] = [{k: r.get(k, "") for k in ("crate", "features", "target_features", "status", "seconds")} for r in results]

    # (c) result equality
    report, observed = equality_stage(ctx, crates)
    ctx.cov["configurations_compared"] = report
    # which lattice points were observed (resolved feature set of the crate in a built configuration = closure of the point)
    by_pkg = {c["name"]: c for c in crates}
    obs_points = []
    for key, (pkg, _) in DEP.items():
        c = by_pkg.get(pkg)
        if not c:
            continue
        for p in c["points"]:
            labels = observed.get((key, frozenset(closure(c, p))), [])
            obs_points.append({"crate": pkg, "features": p, "observed_in": labels[:4]})
    ctx.cov["lattice_points_observed_through_harness"] = obs_points
    ctx.cov["not_observable"] = ["crypto-simd: src/lib.rs is empty, no public behaviour at any point",
                                 "ppv-null: one point (= default); its behaviour is C19's subject"]
    ctx.log("harness-observed lattice points: %d of %d (observable crates)" % (sum(1 for o in obs_points if o["observed_in"]), len(obs_points)))
    threefish_model_stage(ctx)
