import vlib

META = {
    "title": "ChaCha stream wrapper: output depends only on the absolute position, never on call history",
    "design_ref": "6/C02",
    "technique": "Coq proof: invariant over histories relating Buffer{have,len,fresh,out,state} to an abstract byte position, parametric in the block function; differential correspondence model<->impl on histories with the block oracle taken from the implementation, plus the property evaluated directly on the implementation (every apply = data xor key stream of a fresh instance seeked to the absolute position; current_pos = abstract position; seeks of every integer type)",
    "level_text": "Machine-checked theorems of Props/C02.v about Model/ChaChaStream.v (the wrapper as written, after the fix: commits): for the 12-byte-nonce variant and the 64-bit variants, every finite history of try_seek/try_apply_keystream/try_current_pos from a new buffer returns exactly what the abstract position machine returns, with no panic (C02_stream_history_correct, from every reachable state: C02_stream_history_correct_from_reachable; with the real block producers of Model/ChaChaGuts.v and the seven constructors: C02_real_model_history_correct); corollaries C02_rechunk_invariant, C02_reseek_invariant, C02_apply_twice_restores, C02_seek_accepts_in_range (every in-range value of every integer type is accepted, out-of-range values are Err, never a panic). The model is tied to the code by running the same histories on the implementation and on the model inside coqc (vm_compute), in debug and release profiles. Build profile (Model/ChaChaStreamChk.v, Proofs/ChaChaStreamChk.v): a profile-explicit second transcription of the wrapper in which each of the 13 overflow-checked arithmetic sites of rustcrypto_impl.rs panics in Debug and wraps in Release; C02_profile_* theorems: on every reachable state and for every profile it takes none of those panic branches and equals the model above, so m_run_chk prof = m_run for every history (no step panics in either profile). By inspection only: that the inventory of 13 sites is complete and that chk matches rustc's overflow semantics.",
    "level_note": "Trusted: Coq kernel+VM; hand-written model of rustcrypto_impl.rs (tied only on generated histories); the block producers are Section variables specified by blockfn (C14 discharges refill4 = 4 x refill1); harness and case printer. No axioms.",
    "rule": 'cases = histories of {seek::<T>(p), apply(n bytes), current_pos::<T>()} on one of the 7 variants with '
            'structured/random key and nonce; 6 corpus histories, then boundary-directed histories of 14 kinds assigned '
            "ROUND-ROBIN (kind = k mod 14; variant and the kind's second selector advance every round), at most 4/5 of "
            'the run, the rest random, so every configuration (host debug/release 250; forced SSE2, SSE4.1 release, '
            'forced SSSE3, AVX debug, portable debug/release 100 each) meets all 14 kinds and >= 18 random histories; '
            'kinds: position 0 with every type; mid-block seeks into block 0; negative / > u64 / top-half-u128 arguments; '
            'across 2^32 blocks; one past the end through the wide path; seek to the end, past it and FAR past it (2^39, '
            '3*2^38, 2^38+2^12, 2^63, u64::MAX, 2^64+64) and back; last block pending + failing apply (+ empty apply '
            'while pending); end of the u64 range; current_pos at type edges; wide path after a mid-block seek; repeated '
            'failing applies; backward seeks; [new] 2-8 KiB applies from a mid-block seek (8..32 wide iterations in one '
            'call, twice; in the first round, i.e. once per run - quick: host debug/release and portable release runs only -, followed by ONE apply of 64 KiB + 256..4255 bytes continuing mid-block: '
            '> 256 wide iterations and > 2^16 bytes in one call, whole output compared with the model and the block oracle); [new] 4-5 KiB across 2^32 blocks (IETF: refused whole, then exactly to the end, then one more '
            'byte refused); random histories: positions concentrated at 0, 2^32 blocks, k*2^32 blocks (k >= 2), 2^38 '
            'bytes, 2^64 bytes; every SeekNum type incl. negative i32, u128 beyond 2^64 up to 2^128-1, IETF seeks '
            '2^38+1..2^64 (near, k*2^38, 2^63, u64::MAX); current_pos after refused seeks; 1.2 % of the applies 2-16 KiB; '
            'distinct = distinct (variant,key,nonce,ops); non-trivial = applies at least one byte and (has a mid-block '
            "seek or more than 3 ops); the harness checks every op against the abstract position and the implementation's "
            'own block oracle (fresh instance seeked to the block; a block the oracle cannot produce is a failure, not a '
            'skip; up to 700 blocks per call), after every refused call current_pos::<u128>() and what a clone of the '
            'Buffer does next, at the end of every history that a clone of the Buffer continues like the object, then '
            're-runs each history re-chunked (pieces 1..3 KiB), re-seeked and applied twice; every apply longer than 16 640 '
            'bytes must also equal the same data applied in 4 KiB calls on a fresh instance seeked to its position',
    "assumptions": ["little-endian host", "cipher 0.3 StreamCipher/StreamCipherSeek provided methods only forward to try_apply_keystream/try_seek/try_current_pos"],
}


def run(ctx):
    vlib.standard_proof_stage(ctx)
    n = 250 if ctx.quick else 2000
    maxops = 12 if ctx.quick else 30
    m = max(100, n // 3)
    # (profile, harness features, forced back-end level (hook H1; 0 = the CPU's own detection), label, histories)
    plans = [("debug", (), 0, "histories", n), ("release", (), 0, "histories", n),
             # the narrow (one-block) and the wide (four-block) path use different vector code: a back end on which they
             # disagree makes the output depend on chunking / seek history (only at some counters). Every run has the
             # 14 boundary kinds round-robin and at least a fifth random histories.
             ("release", (), 1, "histories/forced-sse2", m),
             ("release", (), 3, "histories/forced-sse41", m),
             ("debug", (), 2, "histories/forced-ssse3", m),      # debug x forced back end
             ("debug", (), 4, "histories/forced-avx", m),
             ("debug", ("no_simd",), 0, "histories/portable", m),
             ("release", ("no_simd",), 0, "histories/portable", m)]
    for profile, feats, level, label, cnt in plans:
        binary, log = vlib.cargo_build(features=feats, profile=profile, bin_name="h_chacha")
        if binary is None:
            raise vlib.CheckError("harness build failed (%s %s): %s" % (profile, feats, log[-2000:]))
        s = vlib.correspondence(ctx, binary, "hist",
                                ["--mode", "c02", "--count", cnt, "--maxops", maxops, "--big", 0 if ctx.quick else 1, "--level", level,
                                 "--large-permille", 12 if ctx.quick else 20,
                                 # ONE ~66 KiB apply in the first kind-12 history (its Coq case costs ~3 s): host back end in
                                 # both profiles and the portable release build in quick, everywhere in thorough
                                 "--long-apply", 1 if (not ctx.quick or (level == 0 and (not feats or profile == "release"))) else 0],
                                "%s/%s" % (label, profile))
        ctx.log("%s/%s: %d histories (%s boundary, kinds %s; %s random), longest apply %s bytes, %d disagree, %d direct failures" %
                (label, profile, s.get("evaluations", 0), s.get("boundary_histories"), s.get("boundary_histories_by_kind"),
                 s.get("random_histories"), s.get("longest_apply"), len(s["failing"]), len(s.get("direct_failures", []))))
        if not feats and s.get("backend_level_read_back") != level:
            raise vlib.CheckError("back-end level %d requested, the harness reports %r" % (level, s.get("backend_level_read_back")))
        vlib.decide_relative(ctx, s, explain="explain_hist", theorem="C02_stream_history_correct",
                             what="Model/ChaChaStream.v run with the implementation's own block oracle")
