import vlib

META = {
    "title": "ChaCha stream wrapper: output depends only on the absolute position, never on call history",
    "design_ref": "6/C02",
    "technique": "Coq proof: invariant over histories relating Buffer{have,len,fresh,out,state} to an abstract byte position, parametric in the block function; differential correspondence model<->impl on histories with the block oracle taken from the implementation, plus the property evaluated directly on the implementation (every apply = data xor key stream of a fresh instance seeked to the absolute position; current_pos = abstract position; seeks of every integer type)",
    "level_text": "Machine-checked theorems of Props/C02.v about Model/ChaChaStream.v (the wrapper as written, after the fix: commits): for the 12-byte-nonce variant and the 64-bit variants, every finite history of try_seek/try_apply_keystream/try_current_pos from a new buffer returns exactly what the abstract position machine returns, with no panic. The model is tied to the code by running the same histories on the implementation and on the model inside coqc (vm_compute), in debug and release profiles.",
    "level_note": "Trusted: Coq kernel+VM; hand-written model of rustcrypto_impl.rs (tied only on generated histories); the block producers are Section variables specified by blockfn (C14 discharges refill4 = 4 x refill1); harness and case printer. No axioms.",
    "rule": "cases = histories of {seek::<T>(p), apply(n bytes), current_pos::<T>()} on one of the 7 variants with structured/random key and nonce; positions concentrated at 0, mid-block into block 0, 2^32 blocks, 2^38 bytes, 2^64 bytes; every SeekNum type incl. negative i32 and u128 beyond 2^64; distinct = distinct (variant,key,nonce,ops); non-trivial = applies at least one byte and (has a mid-block seek or more than 3 ops); the harness checks every op against the abstract position and the implementation's own block oracle, then re-runs each history re-chunked, re-seeked and applied twice",
    "assumptions": ["little-endian host", "cipher 0.3 StreamCipher/StreamCipherSeek provided methods only forward to try_apply_keystream/try_seek/try_current_pos"],
}


def run(ctx):
    vlib.standard_proof_stage(ctx)
    n = 250 if ctx.quick else 2000
    maxops = 12 if ctx.quick else 30
    for profile in ("debug", "release"):
        binary, log = vlib.cargo_build(profile=profile, bin_name="h_chacha")
        if binary is None:
            raise vlib.CheckError("harness build failed (%s): %s" % (profile, log[-2000:]))
        s = vlib.correspondence(ctx, binary, "hist",
                                ["--mode", "c02", "--count", n, "--maxops", maxops, "--big", 0 if ctx.quick else 1],
                                "histories/%s" % profile)
        vlib.decide_relative(ctx, s, explain="explain_hist", theorem="C02_stream_history_correct",
                             what="Model/ChaChaStream.v run with the implementation's own block oracle")
