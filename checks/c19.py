import vlib

META = {
    "title": "ppv-null emulated vectors equal scalar lane-wise arithmetic and never panic",
    "design_ref": "6/C19",
    "technique": "Coq proof: per-macro model of lib.rs with explicit checked-operator primitives and a build-profile parameter; scalar lemmas (wrapping add, rotate, shift-or rotate, mask/shift swap by a finite bit-position sweep) lifted lane-wise; differential correspondence impl = model = spec for every public method in debug and release builds",
    "level_text": "Machine-checked theorems (Props/C19.v) about the model of every public method of u32x4, u64x4, u128x1, u128x2, u32x4x4: for all operands in the stated domain and both build profiles the model returns normally and equals the independent scalar lane-wise specification. Implementation = model (outcome ok/panic and every lane, also outside the domain) and implementation = spec (inside the domain) are checked on generated cases in a debug (overflow checks, debug assertions) and a release build. Any combination of overflow-checks / debug-assertions: C19_two_switch_reduction / _diagonal / _transfer, C19_model_eq_spec_any_switches, C19_total_any_switches (no method consults both switches, so the four combinations reduce method by method to the two modelled profiles; the outside-domain behaviours are pinned per switch: C19_outside_*_by_overflow_checks / _by_debug_assertions).",
    "level_note": "Trusted: Coq kernel+VM; the scalar spec Spec/NullLanes.v (anchored by Examples); hand-written model tied on generated cases only; harness. One switch profile := Debug | Release drives both overflow checks and debug assertions (the two cargo profiles); release + overflow-checks and dev without them are not separate cases of the model. No axioms.",
    "rule": "cases = (type, method, self lanes, second operand / slice, scalar argument) for all 71 (type, method) pairs: fixed patterns (zero, all-ones, byte-index, alternating), walking-one over every bit of the vector (exhaustive basis), walking-zero, carry chains (MAX+1 per lane, single carrying lane, longest chain ending at each bit), seeded random; rotation amounts 0..bits and beyond u32; every lane index plus out-of-range ones; slices of wrong length. distinct = distinct (type, method, a, b, i); non-trivial = some operand word or the scalar argument non-zero. Outcome (ok|panic) and all lanes compared with the model on every case and with the spec on every in-domain case inside coqc.",
    "assumptions": ["little-endian host is irrelevant here (no byte views in ppv-null)",
                    "the two modelled build profiles are: overflow checks + debug assertions both on (dev), both off (release); the harness refuses to run in a mixed configuration"],
}


def run(ctx):
    vlib.standard_proof_stage(ctx)
    for profile in ("debug", "release"):
        binary, log = vlib.cargo_build(profile=profile, bin_name="h_ppvnull")
        if binary is None:
            raise vlib.CheckError("harness build failed (%s): %s" % (profile, log[-2000:]))
        # thorough tier: 66 769 cases per profile; 48 smaller shards keep one coqc below ~0.5 GB
        # (16 shards of 0.9 MB each needed 1.1 GB per process: one was killed under memory pressure)
        s = vlib.correspondence(ctx, binary, "c19", ["--tier", ctx.tier], profile,
                                shards=16 if ctx.quick else 48)
        want = "Debug" if profile == "debug" else "Release"
        if s.get("profile") != want:
            ctx.violation({"kind": "correspondence-not-evaluable", "config": profile,
                           "note": "harness built as %s reports profile %s" % (profile, s.get("profile"))},
                          no_input=True)
        if s.get("methods_exercised") != 71:
            ctx.violation({"kind": "correspondence-not-evaluable", "config": profile,
                           "note": "harness exercised %s (type, method) pairs, the modelled public surface has 71 (C19_surface)"
                                   % s.get("methods_exercised")}, no_input=True)
        vlib.decide_absolute(ctx, s, explain="explain_c19", theorem="C19_model_eq_spec")
