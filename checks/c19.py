import collections
import os
import re

import vlib

META = {
    "title": "ppv-null emulated vectors equal scalar lane-wise arithmetic and never panic",
    "design_ref": "6/C19",
    "technique": "Coq proof: per-macro model of lib.rs with explicit checked-operator primitives and a build-profile parameter; scalar lemmas (wrapping add, rotate, shift-or rotate, mask/shift swap by a finite bit-position sweep) lifted lane-wise; differential correspondence impl = model = spec for every public method in debug and release builds",
    "level_text": "Machine-checked theorems (Props/C19.v) about the model of every public method of u32x4, u64x4, u128x1, u128x2, u32x4x4: for all operands in the stated domain and both build profiles the model returns normally and equals the independent scalar lane-wise specification. Implementation = model (outcome ok/panic and every lane, also outside the domain) and implementation = spec (inside the domain) are checked on generated cases in a debug (overflow checks, debug assertions) and a release build. Any combination of overflow-checks / debug-assertions: C19_two_switch_reduction / _diagonal / _transfer, C19_model_eq_spec_any_switches, C19_total_any_switches (no method consults both switches, so the four combinations reduce method by method to the two modelled profiles; the outside-domain behaviours are pinned per switch: C19_outside_*_by_overflow_checks / _by_debug_assertions).",
    "level_note": "Trusted: Coq kernel+VM; the scalar spec Spec/NullLanes.v (anchored by Examples); hand-written model tied on generated cases only; harness. One switch profile := Debug | Release drives both overflow checks and debug assertions (the two cargo profiles); release + overflow-checks and dev without them are not separate cases of the model. No axioms.",
    "rule": "cases = (type, method, self lanes, second operand / slice, scalar argument) for all 71 (type, method) pairs: fixed patterns (zero, all-ones, byte-index, alternating), walking-one over every bit of the vector (exhaustive basis), walking-zero, carry chains (MAX+1 per lane, single carrying lane, longest chain ending at each bit), seeded random; rotation amounts 0..bits and beyond u32; every lane index plus out-of-range ones (n, n+1, 7, 256, 257, 2^32-1; for the usize indices of u32x4/u64x4 also 2^32, 2^32+1, 2^63+2, which a narrowing cast would fold back into range; for the u32 indices 2^16, 2^31); slices of wrong length; the constructed value of every type is read back through an explicit Clone::clone. distinct = distinct (type, method, a, b, i); non-trivial = some operand word or the scalar argument non-zero. Outcome (ok|panic) and all lanes compared with the model on every case and with the spec on every in-domain case inside coqc. Trait probe: the harness asks the compiler which core::ops / marker traits each of the five types implements; an implementation outside the pinned table is reported (an operation outside the model). Source scan: the public surface of ppv-null/src/lib.rs (pub fn, impl .. for, instantiations of the defining macros, other pub items) is compared with the pinned list; a difference of the source TEXT is recorded in the evidence (informational only: a textual difference of macro-generated source says nothing about behaviour, and a harmless macro restructuring produced one).",
    "assumptions": ["little-endian host is irrelevant here (no byte views in ppv-null)",
                    "the two modelled build profiles are: overflow checks + debug assertions both on (dev), both off (release); the harness refuses to run in a mixed configuration"],
}


# The public surface of ppv-null the model (Model/PpvNull.v, C19_surface) and the harness cover, as an order-independent
# fingerprint of utils-simd/ppv-null/src/lib.rs: every `pub fn`, every `impl Trait for Type` (inside the defining macros the
# type is a macro variable), every instantiation of the defining macros, every other `pub` item. A method that is REMOVED or
# renamed breaks the harness build; one that is ADDED compiles silently and would be outside every theorem and every run:
# additions are reported.
SURFACE = ["define_vec1!(u128x1,u128)", "define_vec2!(u128x2,u128)", "define_vec4!(u32x4,u32)", "define_vec4!(u64x4,u64)",
           "impl $trait for $vec", "impl AddAssign for $X1", "impl AddAssign for $X2", "impl AddAssign for $X4",
           "impl AddAssign for u32x4x4", "impl BitAnd for $X1", "impl BitAnd for $X2", "impl BitOr for $X2", "impl BitXor for $X1",
           "impl BitXorAssign for $X1", "impl BitXorAssign for $X2", "impl BitXorAssign for $X4", "impl BitXorAssign for u32x4x4",
           "impl Not for $X1", "impl Not for $X2", "impl RotateWordsRight for $X4", "impl RotateWordsRight for u32x4x4",
           "impl SplatRotateRight for $X4", "impl SplatRotateRight for u32x4x4", "pub fn andnot", "pub fn andnot", "pub fn extract",
           "pub fn extract", "pub fn extract", "pub fn from", "pub fn from_slice_unaligned", "pub fn into_inner", "pub fn into_parts",
           "pub fn load", "pub fn load", "pub fn new", "pub fn new", "pub fn new", "pub fn replace", "pub fn rotate_right",
           "pub fn rotate_right", "pub fn rotate_right", "pub fn splat", "pub fn splat", "pub fn swap1", "pub fn swap16", "pub fn swap2",
           "pub fn swap32", "pub fn swap4", "pub fn swap64", "pub fn swap8", "pub fn write_to_slice_unaligned", "pub fn xor_store",
           "pub fn xor_store", "pub struct $X1", "pub struct $X2", "pub struct $X4", "pub struct u32x4x4",
           "zipmap_impl!($X4,$word,Add,add,wrapping_add)", "zipmap_impl!($X4,$word,BitAnd,bitand)", "zipmap_impl!($X4,$word,BitOr,bitor)",
           "zipmap_impl!($X4,$word,BitXor,bitxor)", "zipmap_impl!($vec,$word,$trait,$fn,$fn)", "zipmap_impl!(u32x4x4,u32x4,Add,add)",
           "zipmap_impl!(u32x4x4,u32x4,BitAnd,bitand)", "zipmap_impl!(u32x4x4,u32x4,BitOr,bitor)", "zipmap_impl!(u32x4x4,u32x4,BitXor,bitxor)"]


def _surface(path):
    s = open(path).read()
    s = re.sub(r"//[^\n]*", "", s)
    s = re.sub(r"/\*.*?\*/", "", s, flags=re.S)
    items = []
    for m in re.finditer(r"\bpub\s+(?:const\s+)?(?:unsafe\s+)?fn\s+(\w+)", s):
        items.append("pub fn " + m.group(1))
    for m in re.finditer(r"\bimpl(?:\s*<[^>{]*>)?\s+([\w:$]+(?:<[^>{]*>)?)\s+for\s+(\$?\w+)", s):
        items.append("impl %s for %s" % (re.sub(r"\s+", "", m.group(1)), m.group(2)))
    for m in re.finditer(r"\b(define_\w+|zipmap_\w+|impl_\w+)!\s*\(([^)]*)\)", s):
        items.append("%s!(%s)" % (m.group(1), re.sub(r"\s+", "", m.group(2))))
    for m in re.finditer(r"\bpub\s+(struct|enum|trait|type|const|static|mod|use)\s+(\$?\w+)", s):
        items.append("pub %s %s" % m.groups())
    return sorted(items)


def _surface_stage(ctx):
    path = os.path.join(vlib.REPO, "utils-simd", "ppv-null", "src", "lib.rs")
    have = collections.Counter(_surface(path))
    want = collections.Counter(SURFACE)
    added = sorted((have - want).elements())
    removed = sorted((want - have).elements())
    ctx.cov["public_surface"] = {"file": "utils-simd/ppv-null/src/lib.rs", "items": sum(have.values()), "pinned": sum(want.values()),
                                 "added": added, "removed": removed}
    if removed:
        ctx.log("ppv-null surface: items no longer present (the harness build decides whether that matters): %s" % removed)
    if added:
        # NOT a violation: a textual difference of the source (macro restructuring, renamed macro parameters, moved impls)
        # says nothing about behaviour - a behaviour-preserving rewrite (harmless/ppv-null-4) produced 17 "added" items.
        # Recorded in the evidence so that a reader can see that the source no longer has the shape it had when the
        # 71 (type, method) pairs were listed; whether the public API really grew is for a human to judge.
        ctx.log("ppv-null surface: the source text has %d items the pinned list does not know (informational, not deciding): %s"
                % (len(added), added[:6]))
        ctx.assumptions.append("ppv-null source text differs from the pinned surface list (informational): %d added / %d removed items; "
                               "the check exercises the 71 (type, method) pairs of Model/PpvNull.v" % (len(added), len(removed)))


def run(ctx):
    vlib.standard_proof_stage(ctx)
    _surface_stage(ctx)
    for profile in ("debug", "release"):
        binary, log = vlib.cargo_build(profile=profile, bin_name="h_ppvnull")
        if binary is None:
            raise vlib.CheckError("harness build failed (%s): %s" % (profile, log[-2000:]))
        # thorough tier: 66 769 cases per profile; 48 smaller shards keep one coqc below ~0.5 GB
        # (16 shards of 0.9 MB each needed 1.1 GB per process: one was killed under memory pressure)
        s = vlib.correspondence(ctx, binary, "c19", ["--tier", ctx.tier], profile,
                                shards=16 if ctx.quick else 48)
        want = "Debug" if profile == "debug" else "Release"
        if s.get("profile") != want:
            ctx.violation({"kind": "correspondence-not-evaluable", "config": profile,
                           "note": "harness built as %s reports profile %s" % (profile, s.get("profile"))},
                          no_input=True)
        if s.get("methods_exercised") != 71:
            ctx.violation({"kind": "correspondence-not-evaluable", "config": profile,
                           "note": "harness exercised %s (type, method) pairs, the modelled public surface has 71 (C19_surface)"
                                   % s.get("methods_exercised")}, no_input=True)
        vlib.decide_absolute(ctx, s, explain="explain_c19", theorem="C19_model_eq_spec")
        # operator / marker traits each type implements, decided by the compiler inside the harness (a trait probe, not a
        # reading of source text): an operator implementation that is not in this table is a public operation of ppv-null that
        # neither the model (71 (type, method) pairs) nor any run covers - e.g. an `impl Add for u128x1` written with plain `+`
        got = s.get("implemented_traits")
        if profile == "debug" and isinstance(got, dict):
            extra = {t: sorted(set(v) - set(EXPECTED_TRAITS.get(t, []))) for t, v in got.items()}
            extra = {t: v for t, v in extra.items() if v}
            if extra:
                ctx.violation({"kind": "operation-outside-the-model", "added_trait_impls": extra,
                               "note": "ppv-null implements operator traits for its vector types that Model/PpvNull.v does not model and "
                                       "the harness does not call; the property quantifies over every public method (no input is derived: "
                                       "the new operation has no model to compare with)"}, no_input=True)


# as of the pinned tree (compiler-decided, see h_ppvnull.rs `implemented_traits_json`)
_V4 = ["Add", "BitAnd", "BitOr", "BitXor", "AddAssign", "BitXorAssign", "Clone", "Copy", "RotateWordsRight", "SplatRotateRight"]
EXPECTED_TRAITS = {
    "u32x4": _V4, "u64x4": _V4, "u32x4x4": _V4,
    "u128x1": ["Not", "BitAnd", "BitXor", "AddAssign", "BitXorAssign", "Clone", "Copy"],
    "u128x2": ["Not", "BitAnd", "BitOr", "AddAssign", "BitXorAssign", "Clone", "Copy"],
}
