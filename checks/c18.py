import glob
import os
import re

import vlib

META = {
    "title": "Results are unaffected by concurrent first use and by interleaving of instances",
    "design_ref": "6/C18",
    "technique": "Coq proof over ALL schedules of a micro-step model (non-atomic lazy cells, instance table, threads) + source scan of every global/shared-state construct compared with the modelled inventory + stress runs: cold processes with 2..64 barrier-released threads whose first calls go into every algorithm, and random single-thread interleavings of instances, both compared with one-at-a-time results",
    "level_text": "PARTIAL. Machine-checked (Props/C18.v, 8 theorems, all closed, no bound on threads or steps): lazy dispatch cells accessed by separate read / compute / store micro-steps (weaker than std::sync::Once) only ever hold None or init(c) and every caller uses init(c) under every schedule (C18_once_cell_any_schedule); each thread's outputs and instance state equal the sequential one-at-a-time run of the operations it executed (C18_concurrent_equals_sequential, C18_concurrent_complete); instances not owned are never written (C18_no_foreign_writes); single-thread interleavings give each instance its own sequential results (C18_interleaving_independent); a thread given 4 micro-steps per operation finishes whatever the others do, so under every fair schedule all outputs are the sequential ones (C18_progress, C18_fair_schedule_sequential); a concrete 3-thread schedule with a racy double initialisation (C18_example_three_threads). OBSERVED, not proved: memory-model effects (torn pointer reads, the real Once), and that the code has no shared mutable state beyond the modelled cells. C18_no_foreign_writes and C18_interleaving_independent hold by construction of the model (an operation is given only its own table entry). Instantiated with a real algorithm (Proofs/FollowupsGroestl.v): C18_groestl256_concurrent_first_use / C18_groestl512_concurrent_first_use (+ C18_groestl256_concurrent_first_use_fair, C18_groestl_no_sse2_all_calls_panic, C18_groestl256_hasher_concurrent_first_use): for every schedule of threads whose first Groestl calls race on the lazily initialised implementation choice, each thread's digest is Spec.Groestl.groestl256/512 of its own message (composed with C07); assumes is_x86_feature_detected! is consistent within a process.",
    "level_note": "Proved: the scheduling logic, for every schedule. The model's premises are tied to the code by (a) a scan, regenerated on every run, of <repo>/**/src/**/*.rs for static / static mut / thread_local / UnsafeCell / Cell< / RefCell / atomics / lazy_static! / Once* / Lazy* / Mutex / RwLock outside #[cfg(test)] and #[cfg(cryptocorrosion_verif)] items, compared with the modelled inventory (the lazy_static IMPL cell of the dispatch! macro in hashes/groestl/src/compressor.rs, instantiated by six entry points; std's feature-detection cache behind is_x86_feature_detected! has the same read/compute/store shape and lives outside the repository) — any other mutable global is reported with file:line; (b) stress runs whose counts (processes, thread counts, start modes, first algorithms, interleaving rounds) are in coverage.configurations. Only observed: absence of wrong results in those runs.",
    "rule": "evaluation = one (thread, algorithm) result of a cold multi-threaded process compared with the sequential reference computed in a separate single-threaded process, or one interleaving round (2..6 instances, random schedule) compared with one-at-a-time; distinct = distinct (thread count, start mode, first algorithm) configurations + distinct (instance kinds, schedule) rounds; all are non-trivial (every input is a non-empty random message)",
    "assumptions": ["x86-64 Linux host; schedules actually exercised are chosen by the OS scheduler", "16 hardware threads: 32/64-thread processes are oversubscribed"],
    "trusted_extra": ["the regular-expression source scan (comment stripping, skipping of cfg(test)/cfg(cryptocorrosion_verif) items)"],
}

PATTERNS = [
    ("static mut", re.compile(r"\bstatic\s+mut\b")),
    ("static", re.compile(r"(?<!')\bstatic\s+(?:ref\s+)?\$?[A-Za-z_][A-Za-z0-9_]*\s*:")),
    ("thread_local", re.compile(r"\bthread_local\s*!")),
    ("UnsafeCell", re.compile(r"\bUnsafeCell\b")),
    ("Cell<", re.compile(r"(?<![A-Za-z])Cell\s*(?:<|::)")),
    ("RefCell", re.compile(r"\bRefCell\b")),
    ("atomic", re.compile(r"\bAtomic(?:Bool|U8|U16|U32|U64|Usize|I8|I16|I32|I64|Isize|Ptr)\b")),
    ("lazy_static!", re.compile(r"\blazy_static\s*!")),
    ("Once/Lazy", re.compile(r"\b(?:OnceCell|OnceLock|LazyLock|LazyCell|Lazy|Once)\b(?!\s*\()")),
    ("Mutex/RwLock", re.compile(r"\b(?:Mutex|RwLock|Condvar)\b")),
]
INTERIOR = re.compile(r"Cell|Atomic|Mutex|RwLock|Once|Lazy")

# the modelled inventory: (file relative to the repository, construct) -> what the model has for it
MODELLED = {
    ("hashes/groestl/src/compressor.rs", "lazy_static!"): "lazy cell (Model/Concurrency.v cells), one per expansion of dispatch!",
    ("hashes/groestl/src/compressor.rs", "static"): "the `static ref IMPL` inside that lazy_static!",
}
GROESTL_CELLS = 6


def strip_comments(src):
    """remove // and /* */ comments and string literal contents, keep line structure"""
    out, i, n = [], 0, len(src)
    while i < n:
        c = src[i]
        if src.startswith("//", i):
            j = src.find("\n", i)
            j = n if j < 0 else j
            i = j
        elif src.startswith("/*", i):
            depth, j = 1, i + 2
            while j < n and depth:
                if src.startswith("/*", j):
                    depth += 1; j += 2
                elif src.startswith("*/", j):
                    depth -= 1; j += 2
                else:
                    j += 1
            out.append("\n" * src.count("\n", i, j))
            i = j
        elif c == '"':
            j = i + 1
            while j < n and src[j] != '"':
                j += 2 if src[j] == "\\" else 1
            out.append('""' + "\n" * src.count("\n", i, j))
            i = j + 1
        else:
            out.append(c)
            i += 1
    return "".join(out)


CFG = re.compile(r"#\[cfg\(([^\]]*)\)\]")


def blank_guarded(src):
    """blank out items behind #[cfg(test)] / #[cfg(cryptocorrosion_verif)] (not behind not(...))"""
    s = list(src)
    pos = 0
    text = src
    while True:
        m = CFG.search(text, pos)
        if not m:
            break
        pos = m.end()
        cond = m.group(1)
        if not re.search(r"\b(test|cryptocorrosion_verif)\b", cond) or "not(" in cond:
            continue
        j, n = m.end(), len(text)
        while j < n and text[j] not in "{;":
            j += 1
        if j < n and text[j] == "{":
            depth = 0
            while j < n:
                if text[j] == "{":
                    depth += 1
                elif text[j] == "}":
                    depth -= 1
                    if depth == 0:
                        break
                j += 1
        for k in range(m.start(), min(j + 1, n)):
            if s[k] != "\n":
                s[k] = " "
        text = "".join(s)
        pos = min(j + 1, n)
    return text


def scan(repo):
    findings, files = [], 0
    feature_probes = 0
    for path in sorted(glob.glob(os.path.join(repo, "**", "src", "**", "*.rs"), recursive=True)):
        rel = os.path.relpath(path, repo)
        if rel.startswith("target" + os.sep) or (os.sep + "target" + os.sep) in rel:
            continue
        files += 1
        raw = open(path, errors="replace").read()
        txt = blank_guarded(strip_comments(raw))
        feature_probes += len(re.findall(r"is_x86_feature_detected\s*!", txt))
        rawlines = raw.split("\n")
        for n, line in enumerate(txt.split("\n"), 1):
            if re.match(r"\s*(extern\s+crate|use)\b", line):
                # an import is not a cell; what it imports is found where it is used
                if not re.search(r"\bstatic\b", line):
                    continue
            for name, rx in PATTERNS:
                if rx.search(line):
                    if name == "static" and re.search(r"\bstatic\s+mut\b", line):
                        continue
                    findings.append({"file": rel, "line": n, "construct": name,
                                     "text": rawlines[n - 1].strip()[:160]})
    return findings, files, feature_probes


def classify(repo, findings):
    """-> (modelled, immutable, unmodelled)"""
    modelled, immutable, unmodelled = [], [], []
    for f in findings:
        key = (f["file"].replace(os.sep, "/"), f["construct"])
        if key in MODELLED and (f["construct"] != "static" or re.search(r"\bstatic\s+ref\s+IMPL\b", f["text"])):
            modelled.append(dict(f, model=MODELLED[key]))
        elif f["construct"] == "static" and not INTERIOR.search(
                (re.search(r"\bstatic\s+(?:ref\s+)?\$?\w+\s*:\s*([^=;]*)", f["text"]) or re.search("(.*)", f["text"])).group(1)):
            immutable.append(f)     # a plain immutable static: no state
        else:
            unmodelled.append(f)
    return modelled, immutable, unmodelled


def groestl_cells(repo):
    p = os.path.join(repo, "hashes", "groestl", "src", "compressor.rs")
    if not os.path.exists(p):
        return None
    txt = blank_guarded(strip_comments(open(p).read()))
    return len(re.findall(r"^\s*dispatch!\(", txt, flags=re.M))


def run(ctx):
    vlib.standard_proof_stage(ctx)
    # (a) inventory of shared state
    findings, files, probes = scan(vlib.REPO)
    modelled, immutable, unmodelled = classify(vlib.REPO, findings)
    cells = groestl_cells(vlib.REPO)
    ctx.cov["global_state_scan"] = {
        "repo": vlib.REPO, "files_scanned": files, "constructs_found": len(findings),
        "modelled": modelled, "immutable_statics": immutable, "unmodelled": unmodelled,
        "groestl_dispatch_expansions": cells, "groestl_dispatch_expansions_modelled": GROESTL_CELLS,
        "is_x86_feature_detected_sites": probes,
    }
    ctx.log("scan: %d files, %d constructs (%d modelled, %d immutable statics, %d unmodelled), %s lazy cells, %d feature probes"
            % (files, len(findings), len(modelled), len(immutable), len(unmodelled), cells, probes))
    scan_problems = []
    by_line = {}
    for f in unmodelled:
        w = "%s:%d" % (f["file"], f["line"])
        if w in by_line:
            by_line[w]["construct"] += " + " + f["construct"]
        else:
            by_line[w] = {"kind": "unmodelled-shared-state", "where": w, "construct": f["construct"], "text": f["text"]}
            scan_problems.append(by_line[w])
    if cells != GROESTL_CELLS:
        scan_problems.append({"kind": "lazy-cell-inventory-changed", "where": "hashes/groestl/src/compressor.rs",
                              "expected_dispatch_expansions": GROESTL_CELLS, "found": cells})
    if len([m for m in modelled if m["construct"] == "lazy_static!"]) != 1 or len([m for m in modelled if m["construct"] == "static"]) != 1:
        scan_problems.append({"kind": "lazy-cell-inventory-changed", "where": "hashes/groestl/src/compressor.rs",
                              "note": "expected exactly one lazy_static! { static ref IMPL } site (the dispatch! macro); found %d lazy_static! / %d static ref IMPL" % (
                                  len([m for m in modelled if m["construct"] == "lazy_static!"]), len([m for m in modelled if m["construct"] == "static"]))})

    # (b) stress runs
    nviol = len(ctx.violations)
    procs = 200 if ctx.quick else 1000
    rounds = 600 if ctx.quick else 6000
    for profile in ("debug", "release"):
        binary, log = vlib.cargo_build(profile=profile, bin_name="h_conc")
        if binary is None:
            raise vlib.CheckError("harness build failed (h_conc %s): %s" % (profile, log[-2000:]))
        s = vlib.correspondence(ctx, binary, "conc", ["--procs", procs, "--rounds", rounds], "host/%s" % profile)
        ctx.log("host/%s: %d cold processes %s, %d thread results, %d interleaving rounds, %d failing" % (
            profile, s.get("cold_processes", 0), s.get("thread_counts"), s.get("thread_results_compared", 0),
            s.get("interleaving_rounds", 0), s.get("failing_results", 0)))
        vlib.decide_relative(ctx, s, theorem="C18_concurrent_complete / C18_interleaving_independent")
    if not ctx.quick:
        binary, log = vlib.cargo_build(features=("h1",), profile="release", bin_name="h_conc")
        if binary is None:
            ctx.assumptions.append("hook H1 not present at build time: back ends not forced, host dispatch only")
        else:
            for level in (1, 2, 3, 4, 5):
                s = vlib.correspondence(ctx, binary, "conc", ["--procs", 80, "--rounds", 500, "--level", level],
                                        "H1-level%d/release" % level)
                ctx.log("H1 level %d/release: %d cold processes, %d thread results, %d failing" % (
                    level, s.get("cold_processes", 0), s.get("thread_results_compared", 0), s.get("failing_results", 0)))
                vlib.decide_relative(ctx, s, theorem="C18_concurrent_complete / C18_interleaving_independent")
    found_input = len(ctx.violations) > nviol
    for p in scan_problems[:5]:
        p["note"] = ("the sources contain shared state that Model/Concurrency.v does not have (or the modelled cells changed): "
                     "the theorems no longer cover the code" + ("; the stress runs of this check also found wrong results (see the other replay files)" if found_input
                                                                  else "; the stress runs of this run found no wrong result"))
        p["authoritative_theorem"] = "C18_concurrent_equals_sequential (premise: operations touch only their own instance and the dispatch cells)"
        ctx.violation(p, no_input=not found_input)
