import os
import re
import tomllib

import vlib

META = {
    "title": "Results are unaffected by concurrent first use and by interleaving of instances",
    "design_ref": "6/C18",
    "technique": "Coq proof over ALL schedules of a micro-step model (non-atomic lazy cells, instance table, threads) + source scan of every global/shared-state construct compared with the modelled inventory + stress runs: cold processes with 2..64 barrier-released threads whose first calls go into every algorithm, and random single-thread interleavings of instances, both compared with one-at-a-time results",
    "level_text": "PARTIAL. Machine-checked (Props/C18.v, 8 theorems, all closed, no bound on threads or steps): lazy dispatch cells accessed by separate read / compute / store micro-steps (weaker than std::sync::Once) only ever hold None or init(c) and every caller uses init(c) under every schedule (C18_once_cell_any_schedule); each thread's outputs and instance state equal the sequential one-at-a-time run of the operations it executed (C18_concurrent_equals_sequential, C18_concurrent_complete); instances not owned are never written (C18_no_foreign_writes); single-thread interleavings give each instance its own sequential results (C18_interleaving_independent); a thread given 4 micro-steps per operation finishes whatever the others do, so under every fair schedule all outputs are the sequential ones (C18_progress, C18_fair_schedule_sequential); a concrete 3-thread schedule with a racy double initialisation (C18_example_three_threads). OBSERVED, not proved: memory-model effects (torn pointer reads, the real Once), and that the code has no shared mutable state beyond the modelled cells. C18_no_foreign_writes and C18_interleaving_independent hold by construction of the model (an operation is given only its own table entry). Instantiated with a real algorithm (Proofs/FollowupsGroestl.v): C18_groestl256_concurrent_first_use / C18_groestl512_concurrent_first_use (+ C18_groestl256_concurrent_first_use_fair, C18_groestl_no_sse2_all_calls_panic, C18_groestl256_hasher_concurrent_first_use): for every schedule of threads whose first Groestl calls race on the lazily initialised implementation choice, each thread's digest is Spec.Groestl.groestl256/512 of its own message (composed with C07); assumes is_x86_feature_detected! is consistent within a process.",
    "level_note": "Proved: the scheduling logic, for every schedule. The model's premises are tied to the code by (a) a scan, regenerated on every run, of every .rs file of the repository (own lexer; build scripts included; tests/ benches/ examples/ and cfg(test) modules only when a library file pulls them in; #[path] / include! targets followed, computed ones such as OUT_DIR reported) for static / static mut / thread_local / UnsafeCell / Cell / RefCell / atomics / lazy_static! / Once* / Lazy* / Mutex / RwLock / unsafe impl Sync outside items whose cfg is test or cryptocorrosion_verif (alone, inside all(..), or any(..) of only those), compared with the modelled inventory recognised by shape (in hashes/groestl: a lazy_static! cell holding one function pointer whose initialiser only selects a path by is_x86_feature_detected!, six expansions; std's feature-detection cache behind is_x86_feature_detected! has the same read/compute/store shape and lives outside the repository) — any other mutable global is reported with file:line; (b) stress runs whose counts (processes, thread counts, start modes, first algorithms, interleaving rounds) are in coverage.configurations. Only observed: absence of wrong results in those runs.",
    "rule": "evaluation = one (thread, algorithm) result of a cold multi-threaded process compared with the sequential reference computed in a separate single-threaded process (two kinds of cold process: every thread walks through all algorithms from a start that depends on the mode, then the hammer phase; or - same-start - all k threads, k = 2 / 8 / 64, released together by a barrier and a spinning rendezvous, make their first two calls into ONE algorithm and nothing else, the algorithm rotating over all of them across the processes), or one interleaving round (2..6 instances, random schedule) compared with one-at-a-time; distinct = distinct (thread count, start mode (3 = same-start), first algorithm) configurations + distinct (instance kinds, schedule) rounds; all are non-trivial (every input is a non-empty random message)",
    "assumptions": ["x86-64 Linux host; schedules actually exercised are chosen by the OS scheduler", "16 hardware threads: 32/64-thread processes are oversubscribed"],
    "trusted_extra": ["the source scan of checks/c18.py (its Rust lexer, its item extents for cfg(test)/cfg(cryptocorrosion_verif) skipping, its list of constructs, its shape test for the modelled lazy cells); code produced by macros of external crates or by build scripts is not seen"],
}

GUARD_CFG = vlib.GUARD     # "cryptocorrosion_verif"

# --------------------------------------------------------------------------
# (a) source scan: a small Rust lexer + item-level cfg evaluation
# --------------------------------------------------------------------------
# token = (kind, text, line); kinds: id, lt (lifetime/label), str, chr, num, p (punctuation)

_ID0 = re.compile(r"[A-Za-z_][A-Za-z0-9_]*")
_NUM = re.compile(r"[0-9][A-Za-z0-9_]*")
_RAWSTR = re.compile(r"(?:b|c)?r(#*)\"")
_PUNCT2 = ("::", "->", "=>", "==", "!=", "<=", ">=", "&&", "||")


def lex(src):
    """Rust tokens without comments; string / char literal CONTENTS are dropped (kind str / chr keeps the raw text
    only for attribute values such as #[path = "..."])"""
    toks, i, n, line = [], 0, len(src), 1
    while i < n:
        c = src[i]
        if c == "\n":
            line += 1; i += 1
        elif c in " \t\r":
            i += 1
        elif src.startswith("//", i):
            j = src.find("\n", i)
            i = n if j < 0 else j
        elif src.startswith("/*", i):
            depth, j = 1, i + 2
            while j < n and depth:
                if src.startswith("/*", j):
                    depth += 1; j += 2
                elif src.startswith("*/", j):
                    depth -= 1; j += 2
                else:
                    j += 1
            line += src.count("\n", i, j)
            i = j
        elif c == '"' or (c in "bc" and src.startswith('"', i + 1)):
            s = i
            j = i + (1 if c == '"' else 2)
            while j < n and src[j] != '"':
                j += 2 if src[j] == "\\" else 1
            j = min(j + 1, n)
            toks.append(("str", src[s:j], line))
            line += src.count("\n", s, j)
            i = j
        elif c in "rbc" and _RAWSTR.match(src, i):
            m = _RAWSTR.match(src, i)
            close = '"' + m.group(1)
            j = src.find(close, m.end())
            j = n if j < 0 else j + len(close)
            toks.append(("str", src[i:j], line))
            line += src.count("\n", i, j)
            i = j
        elif c == "'" or (c == "b" and src.startswith("'", i + 1)):
            q = i if c == "'" else i + 1            # position of the opening quote
            if q + 1 < n and src[q + 1] == "\\":     # escaped char literal: '\n' '\'' '\\' '\x7f' '\u{1F600}'
                j = src.find("'", q + 3)
                j = n if j < 0 else j + 1
                toks.append(("chr", src[i:j], line)); i = j
            elif q + 2 < n and src[q + 2] == "'" and src[q + 1] != "'":   # 'x'  '"'  '{'
                toks.append(("chr", src[i:q + 3], line)); i = q + 3
            else:                                   # lifetime or loop label
                m = _ID0.match(src, q + 1)
                j = m.end() if m else q + 1
                toks.append(("lt", src[i:j], line)); i = j
        elif c == "r" and src.startswith("#", i + 1) and _ID0.match(src, i + 2):   # raw identifier r#type
            m = _ID0.match(src, i + 2)
            toks.append(("id", m.group(0), line)); i = m.end()
        elif _ID0.match(src, i):
            m = _ID0.match(src, i)
            toks.append(("id", m.group(0), line)); i = m.end()
        elif c.isdigit():
            m = _NUM.match(src, i)
            toks.append(("num", m.group(0), line)); i = m.end()
        elif src[i:i + 2] in _PUNCT2:
            toks.append(("p", src[i:i + 2], line)); i += 2
        else:
            toks.append(("p", c, line)); i += 1
    return toks


_OPEN = {"(": ")", "[": "]", "{": "}"}
_CLOSE = set(_OPEN.values())


def brackets(toks):
    """-> (match: open index -> close index (and back), parent: token index -> index of the innermost enclosing open bracket or -1)"""
    match, parent, stack = {}, [], []
    for i, (k, t, _) in enumerate(toks):
        if k == "p" and t in _CLOSE and stack and _OPEN[toks[stack[-1]][1]] == t:
            o = stack.pop()
            match[o] = i; match[i] = o
        parent.append(stack[-1] if stack else -1)
        if k == "p" and t in _OPEN:
            stack.append(i)
    for o in stack:                     # unbalanced (should not happen in code that compiles): close at the end
        match[o] = len(toks)
    return match, parent


def split_commas(toks, lo, hi, match):
    """token index ranges [a, b) of the comma-separated members of toks[lo:hi] (top level only)"""
    out, a, j = [], lo, lo
    while j < hi:
        t = toks[j]
        if t[0] == "p" and t[1] in _OPEN and j in match:
            j = match[j] + 1
            continue
        if t[0] == "p" and t[1] == ",":
            out.append((a, j)); a = j + 1
        j += 1
    if a < hi:
        out.append((a, hi))
    return out


OFF_CFGS = ("test", GUARD_CFG)


def cfg_surely_off(toks, lo, hi, match):
    """is the cfg predicate toks[lo:hi] false in every build of the library that is not a test build and does not
    pass --cfg cryptocorrosion_verif?  Only `test`, `cryptocorrosion_verif`, all(.. one such ..), any(.. only such ..);
    everything else (features, not(..), target tests) counts as possibly on."""
    if hi - lo == 1:
        return toks[lo][0] == "id" and toks[lo][1] in OFF_CFGS
    if hi - lo >= 3 and toks[lo][0] == "id" and toks[lo + 1][1] == "(" and match.get(lo + 1) == hi - 1:
        members = split_commas(toks, lo + 2, hi - 1, match)
        if toks[lo][1] == "all":
            return any(cfg_surely_off(toks, a, b, match) for a, b in members)
        if toks[lo][1] == "any":
            return bool(members) and all(cfg_surely_off(toks, a, b, match) for a, b in members)
    return False


ITEM_KW = {"pub", "fn", "mod", "struct", "enum", "union", "impl", "use", "static", "const", "type", "trait", "unsafe",
           "extern", "let", "async", "default", "macro_rules", "crate"}


def item_end(toks, s, match, parent):
    """index of the last token of the item / statement / field / arm that starts at token s"""
    n = len(toks)
    limit = match.get(parent[s], n) if s < n and parent[s] >= 0 else n
    if s >= limit:
        return max(s - 1, 0)
    itemlike = toks[s][1] in ITEM_KW or (toks[s][0] == "id" and s + 1 < n and toks[s + 1][1] == "!")
    j = s
    while j < limit:
        k, t, _ = toks[j]
        if k == "p" and t in _OPEN and j in match:
            if t == "{":
                return min(match[j], limit - 1)
            j = match[j] + 1
            continue
        if k == "p" and (t == ";" or (t == "," and not itemlike)):
            return j
        j += 1
    return limit - 1


def str_value(tok):
    m = re.match(r'^(?:b|c)?r?#*"(.*?)"#*$', tok[1], re.S)
    return m.group(1) if m else None


class Source:
    """one .rs file: tokens, which of them are live (not behind cfg(test) / cfg(cryptocorrosion_verif)), module references"""

    def __init__(self, rel, text):
        self.rel = rel
        self.lines = text.split("\n")
        self.toks = lex(text)
        self.match, self.parent = brackets(self.toks)
        n = len(self.toks)
        self.live = [True] * n
        self.whole_file_off = False
        self.refs = []        # (kind, target | None, line, live)   kind: path | include | mod
        self.off_mods = []    # (name, explicit path | None): out-of-line modules behind a cfg that is off
        self._walk()

    def _attr(self, i):
        """if an attribute starts at token i: (index after it, inner?, name, lo, hi of the argument tokens) else None"""
        t = self.toks
        if t[i][1] != "#" or t[i][0] != "p":
            return None
        j = i + 1
        inner = j < len(t) and t[j][1] == "!" and t[j][0] == "p"
        if inner:
            j += 1
        if j >= len(t) or t[j][1] != "[" or j not in self.match:
            return None
        c = self.match[j]
        name = t[j + 1][1] if j + 1 < c else ""
        return c + 1, inner, name, j + 2, c

    def _kill(self, a, b):
        for k in range(a, min(b + 1, len(self.live))):
            self.live[k] = False

    def _walk(self):
        t, n, i = self.toks, len(self.toks), 0
        while i < n:
            a = self._attr(i)
            if a is None:
                i += 1
                continue
            # a run of consecutive attributes
            first, attrs, j = i, [], i
            while j < n:
                a = self._attr(j)
                if a is None:
                    break
                attrs.append(a); j = a[0]
            off_outer = off_inner = False
            path = None
            for (_, inner, name, lo, hi) in attrs:
                if name == "cfg" and hi - lo >= 2 and t[lo][1] == "(" and self.match.get(lo) == hi - 1:
                    if cfg_surely_off(t, lo + 1, hi - 1, self.match):
                        if inner:
                            off_inner = True
                        else:
                            off_outer = True
                if name == "path":
                    vals = [str_value(x) for x in t[lo:hi] if x[0] == "str"]
                    path = vals[0] if vals else None
                    self.refs.append(("path", path, t[first][2], None))
                if name == "cfg_attr":
                    # #[cfg_attr(pred, path = "..")]: the module source depends on the configuration; follow it always
                    ids = [x[1] for x in t[lo:hi] if x[0] == "id"]
                    if "path" in ids:
                        vals = [str_value(x) for x in t[lo:hi] if x[0] == "str"]
                        self.refs.append(("path", vals[-1] if vals else None, t[first][2], None))
            if off_inner:
                # #![cfg(test)]: the rest of the enclosing module (or file) is off
                p = self.parent[first]
                end = self.match.get(p, n) if p >= 0 else n
                if p < 0:
                    self.whole_file_off = True
                self._kill(first, end - 1)
                i = end
                continue
            if off_outer and j < n:
                e = item_end(t, j, self.match, self.parent)
                # an out-of-line module behind the cfg: its file is off as well
                k = j
                if t[k][1] == "pub":
                    k += 1
                    if k < n and t[k][1] == "(" and k in self.match:
                        k = self.match[k] + 1
                if k + 2 <= e and t[k][1] == "mod" and t[k + 1][0] == "id" and t[k + 2][1] == ";":
                    self.off_mods.append((t[k + 1][1], path))
                self._kill(first, e)
                i = e + 1
                continue
            i = j if j > i else i + 1
        # the references are live iff their first token is
        fixed = []
        line_live = {}
        for k, tok in enumerate(t):
            line_live.setdefault(tok[2], self.live[k])
        for kind, target, line, _ in self.refs:
            fixed.append((kind, target, line, line_live.get(line, True)))
        self.refs = fixed
        # include!(..)
        for k in range(n - 2):
            if t[k][0] == "id" and t[k][1] == "include" and t[k + 1][1] == "!" and t[k + 2][1] in _OPEN and k + 2 in self.match:
                inner = t[k + 3:self.match[k + 2]]
                target = str_value(inner[0]) if len(inner) == 1 and inner[0][0] == "str" else None
                self.refs.append(("include", target, t[k][2], self.live[k]))

    def text_at(self, line):
        return self.lines[line - 1].strip()[:160] if 0 < line <= len(self.lines) else ""


SIMPLE_TYPES = {"UnsafeCell": "UnsafeCell", "SyncUnsafeCell": "UnsafeCell", "RefCell": "RefCell",
                "OnceCell": "Once/Lazy", "OnceLock": "Once/Lazy", "LazyLock": "Once/Lazy", "LazyCell": "Once/Lazy",
                "OnceBox": "Once/Lazy", "OnceRef": "Once/Lazy", "ONCE_INIT": "Once/Lazy",
                "Mutex": "Mutex/RwLock", "RwLock": "Mutex/RwLock", "Condvar": "Mutex/RwLock", "ReentrantMutex": "Mutex/RwLock"}
# names that are also plausible identifiers of the crates' own (enum variants, structs): only in type / path position
AMBIGUOUS_TYPES = {"Cell": "Cell<", "Once": "Once/Lazy", "Lazy": "Once/Lazy"}
TYPE_PREV = {":", "&", "mut", "<", "->", "dyn"}
ATOMIC = re.compile(r"^Atomic[A-Z][A-Za-z0-9]*$")
INTERIOR = re.compile(r"Cell|Atomic|Mutex|RwLock|Once|Lazy|Condvar")


def type_aliases(src):
    """name -> tokens it stands for, from the live items of this file (added after the mutation campaign, M29: a static
    of type `Slot` with `use core::sync::atomic::AtomicU64 as Slot;` was classed as a plain immutable static):
      use a::b::X as NAME;   use a::{X as NAME, ..};      NAME -> [X]
      type NAME<..> = T;                                   NAME -> tokens of T"""
    t, n, al = src.toks, len(src.toks), {}
    i = 0
    while i < n:
        k, x, _ = t[i]
        if src.live[i] and k == "id" and x == "use" and (i == 0 or t[i - 1][1] not in ("$", "::", ".")):
            j = i + 1
            while j < n and t[j][1] != ";":
                if t[j][0] == "id" and t[j][1] == "as" and t[j - 1][0] == "id" and j + 1 < n and t[j + 1][0] == "id":
                    al.setdefault(t[j + 1][1], []).extend([t[j - 1]])
                j += 1
            i = j
        elif src.live[i] and k == "id" and x == "type" and i + 1 < n and t[i + 1][0] == "id" and (i == 0 or t[i - 1][1] not in ("$", "::", ".")):
            j = i + 2
            while j < n and t[j][1] not in ("=", ";"):
                j = src.match[j] + 1 if (t[j][1] in _OPEN and j in src.match) else j + 1
            e = j
            while e < n and t[e][1] != ";":
                e = src.match[e] + 1 if (t[e][1] in _OPEN and e in src.match) else e + 1
            if j < n and t[j][1] == "=":
                al.setdefault(t[i + 1][1], []).extend(t[j + 1:e])
            i = e
        i += 1
    return al


def expand_aliases(ty, aliases, depth=2):
    """the tokens of a type plus what the aliases of the same file used in it stand for (the aliases of an alias too: `depth` levels)"""
    out, frontier = list(ty), list(ty)
    for _ in range(depth):
        nxt = []
        for y in frontier:
            if y[0] == "id" and y[1] in aliases:
                nxt += aliases[y[1]]
        if not nxt:
            break
        out += nxt
        frontier = nxt
    return out


def constructs(src):
    """global / shared state constructs in the live tokens of a Source: dicts with tok = token index"""
    t, n, out = src.toks, len(src.toks), []
    aliases = type_aliases(src)
    in_use = [False] * n
    i = 0
    while i < n:
        if src.live[i] and t[i][0] == "id" and t[i][1] == "use" and (i == 0 or t[i - 1][1] not in ("$", "::", ".")):
            j = i
            while j < n and t[j][1] != ";":
                in_use[j] = True; j += 1
            i = j
        i += 1

    def add(i, construct, **kw):
        out.append(dict(file=src.rel, line=t[i][2], construct=construct, text=src.text_at(t[i][2]), tok=i, **kw))

    for i in range(n):
        if not src.live[i] or in_use[i]:
            continue
        k, x, _ = t[i]
        if k != "id":
            continue
        nxt = t[i + 1][1] if i + 1 < n else ""
        prv = t[i - 1][1] if i > 0 else ""
        if x == "static":
            if nxt == "mut":
                add(i, "static mut")
                continue
            j = i + 1
            if j < n and t[j][1] == "ref":
                j += 1
            if j < n and t[j][1] == "$":
                j += 1
            if j + 1 < n and t[j][0] == "id" and t[j + 1][1] == ":":
                a = b = j + 2
                while b < n and t[b][1] not in ("=", ";"):
                    b = src.match[b] + 1 if (t[b][1] in _OPEN and b in src.match) else b + 1
                written = t[a:min(b, n)]
                # aliases of this file (`use .. X as A;`, `type A = ..;`) are replaced by what they stand for before the
                # type is classified; a custom struct / enum type stays what it was (its fields are scanned where it is defined)
                ty = expand_aliases(written, aliases)
                interior = any(INTERIOR.search(y[1]) for y in ty if y[0] == "id") or \
                    any(ty[q][1] == "*" and ty[q + 1][1] == "mut" for q in range(len(ty) - 1))
                via = sorted({y[1] for y in written if y[0] == "id" and y[1] in aliases}) if len(ty) > len(written) else []
                add(i, "static", name=t[j][1], interior=interior, **({"type_aliases_resolved": via} if via else {}))
        elif x == "thread_local":
            add(i, "thread_local")
        elif x == "lazy_static" and nxt == "!":
            add(i, "lazy_static!")
        elif x in SIMPLE_TYPES:
            add(i, SIMPLE_TYPES[x])
        elif ATOMIC.match(x):
            add(i, "atomic")
        elif x in AMBIGUOUS_TYPES and (nxt in ("<", "::") or prv in TYPE_PREV):
            add(i, AMBIGUOUS_TYPES[x])
        elif x == "impl" and prv == "unsafe":
            j = i + 1
            while j < n and t[j][1] not in ("for", "{", ";"):
                j += 1
            if any(y[1] == "Sync" for y in t[i:j]):
                add(i, "unsafe impl Sync")
        elif x in ("set_var", "remove_var") and prv == "::":
            add(i, "process environment")
    return out


# ---- the modelled inventory, recognised by shape -------------------------------------------------
# Model/Concurrency.v has lazy cells: option value, read / compute / store, the initialiser a deterministic function of
# the CPU oracle. In the code that is: a lazy_static! cell in the groestl crate holding ONE function pointer whose
# initialiser does nothing but choose a path by is_x86_feature_detected!(..). Six instances (Proofs/FollowupsGroestl.v).
MODEL_CRATE = "hashes/groestl"
GROESTL_CELLS = 6
INIT_MACROS = {"is_x86_feature_detected", "panic", "unreachable", "unimplemented", "cfg"}
INIT_WORDS_FORBIDDEN = {"static", "let", "unsafe", "mut", "loop", "while", "for", "match", "return", "move", "as", "fn", "const"}


def macro_defs(src):
    """macro_rules! NAME { .. } definitions: (name, open index, close index)"""
    t, out = src.toks, []
    for i in range(len(t) - 3):
        if t[i][1] == "macro_rules" and t[i + 1][1] == "!" and t[i + 2][0] == "id" and t[i + 3][1] in _OPEN and i + 3 in src.match:
            out.append((t[i + 2][1], i + 3, src.match[i + 3]))
    return out


def fn_pointer_aliases(src):
    """type NAME<..> = [unsafe] [extern ".."] fn(..) ..;"""
    t, out = src.toks, set()
    for i in range(len(t) - 2):
        if t[i][1] == "type" and t[i][0] == "id" and t[i + 1][0] == "id" and src.live[i]:
            j = i + 2
            while j < len(t) and t[j][1] not in ("=", ";"):
                j += 1
            e = j
            while e < len(t) and t[e][1] != ";":
                e += 1
            body = t[j + 1:e]
            if any(y[1] == "fn" for y in body) and not any(y[0] == "id" and INTERIOR.search(y[1]) for y in body):
                out.add(t[i + 1][1])
    return out


def _selector_only(toks_, local_fns, depth=0):
    """does this token list do nothing but select a path by CPU feature detection? -> (ok, reason)"""
    seen_probe = False
    i, n = 0, len(toks_)
    while i < n:
        k, x, _ = toks_[i]
        nxt = toks_[i + 1][1] if i + 1 < n else ""
        if k == "p" and x == "$" and i + 1 < n and toks_[i + 1][0] == "id":
            i += 2              # a macro metavariable ($fn): a name, whatever it is called
            continue
        if k == "id":
            if x in INIT_WORDS_FORBIDDEN:
                return False, "`%s` in the initialiser" % x
            if nxt == "!":
                if x not in INIT_MACROS:
                    return False, "macro %s! in the initialiser" % x
                seen_probe |= x == "is_x86_feature_detected"
                # skip the macro's argument group
                if i + 2 < n and toks_[i + 2][1] in _OPEN:
                    d, j = 0, i + 2
                    while j < n:
                        if toks_[j][1] in _OPEN:
                            d += 1
                        elif toks_[j][1] in _CLOSE:
                            d -= 1
                            if d == 0:
                                break
                        j += 1
                    i = j + 1
                    continue
            elif nxt == "(":
                if x in local_fns and depth < 2 and i + 2 < n and toks_[i + 2][1] == ")":
                    ok, why = _selector_only(local_fns[x], local_fns, depth + 1)
                    if not ok:
                        return False, "%s(): %s" % (x, why)
                    seen_probe |= why == "probe"
                    i += 3
                    continue
                return False, "call of %s(..) in the initialiser" % x
        elif k == "p":
            if x not in ("{", "}", "(", ")", "::", "$", "!", "&&", "||", ",", ";"):
                return False, "`%s` in the initialiser" % x
        elif k not in ("str",):
            return False, "literal %s in the initialiser" % x
        i += 1
    return True, ("probe" if seen_probe else "no probe")


def dispatch_cells(sources):
    """lazy_static! cells of the modelled crate with the modelled shape.
    -> (cells, expansions) ; cell = {file, line, name, macro, expansions, ok, why, toks: (file, lo, hi)}"""
    cells = []
    crate_sources = [s for s in sources if (s.rel.replace(os.sep, "/") + "/").startswith(MODEL_CRATE + "/") and s.role == "library"]
    for src in crate_sources:
        t = src.toks
        defs = macro_defs(src)
        aliases = fn_pointer_aliases(src)
        for i in range(len(t) - 2):
            if not (src.live[i] and t[i][1] == "lazy_static" and t[i][0] == "id" and t[i + 1][1] == "!" and t[i + 2][1] in _OPEN and i + 2 in src.match):
                continue
            lo, hi = i + 3, src.match[i + 2]
            cell = {"file": src.rel, "line": t[i][2], "name": None, "macro": None, "expansions": 1, "ok": False, "why": "", "span": (lo, hi), "at": i}
            cells.append(cell)
            # body: [attrs] [pub [(..)]] static ref NAME : TYPE = INIT ;   and nothing else
            j = lo
            while True:
                a = src._attr(j) if j < hi else None
                if not a:
                    break
                j = a[0]
            if j < hi and t[j][1] == "pub":
                j += 1
                if j < hi and t[j][1] == "(" and j in src.match:
                    j = src.match[j] + 1
            if not (j + 3 < hi and t[j][1] == "static" and t[j + 1][1] == "ref" and t[j + 2][0] == "id" and t[j + 3][1] == ":"):
                cell["why"] = "not a single `static ref NAME: T = init;`"
                continue
            cell["name"] = t[j + 2][1]
            a = b = j + 4
            while b < hi and t[b][1] != "=":
                b = src.match[b] + 1 if (t[b][1] in _OPEN and b in src.match) else b + 1
            ty = t[a:b]
            e = b + 1
            while e < hi and t[e][1] != ";":
                e = src.match[e] + 1 if (t[e][1] in _OPEN and e in src.match) else e + 1
            init = t[b + 1:e]
            if [y for y in t[e + 1:hi] if y[1] != ";"]:
                cell["why"] = "more than one cell in the lazy_static! block"
                continue
            # local zero-argument functions visible from the cell (same macro body, or the file)
            inside = [d for d in defs if d[1] < i < d[2]]
            scope = (inside[-1][1], inside[-1][2]) if inside else (0, len(t))
            local_fns = {}
            for q in range(scope[0], scope[1] - 3):
                if t[q][1] == "fn" and t[q + 1][0] == "id" and t[q + 2][1] == "(" and t[q + 3][1] == ")":
                    r = q + 4
                    while r < scope[1] and t[r][1] not in ("{", ";"):
                        r += 1
                    if r < scope[1] and t[r][1] == "{" and r in src.match:
                        local_fns[t[q + 1][1]] = t[r + 1:src.match[r]]
            ok, why = _selector_only(init, local_fns)
            if not ok or why != "probe":
                cell["why"] = why if not ok else "the initialiser does not consult is_x86_feature_detected!"
                continue
            metavar = len(ty) == 2 and ty[0][1] == "$"
            fnptr = any(y[1] == "fn" for y in ty) or (ty and ty[0][0] == "id" and ty[0][1] in aliases)
            if any(y[0] == "id" and INTERIOR.search(y[1]) for y in ty):
                cell["why"] = "cell type has interior mutability"
                continue
            if inside:
                name = inside[-1][0]
                cell["macro"] = name
                uses = []
                for s2 in crate_sources:
                    d2 = [d for d in macro_defs(s2) if d[0] == name]
                    al2 = fn_pointer_aliases(s2) | aliases
                    t2 = s2.toks
                    for q in range(len(t2) - 2):
                        if s2.live[q] and t2[q][0] == "id" and t2[q][1] == name and t2[q + 1][1] == "!" and t2[q + 2][1] in _OPEN \
                                and q + 2 in s2.match and not any(d[1] < q < d[2] for d in d2) and (q == 0 or t2[q - 1][1] != "!"):
                            args = t2[q + 3:s2.match[q + 2]]
                            uses.append(any(y[1] == "fn" or (y[0] == "id" and y[1] in al2) for y in args))
                cell["expansions"] = len(uses)
                if metavar and not all(uses):
                    cell["why"] = "an expansion of %s! is not given a function-pointer type" % name
                    continue
                if not metavar and not fnptr:
                    cell["why"] = "cell type is not a function pointer"
                    continue
            elif not fnptr:
                cell["why"] = "cell type is not a function pointer"
                continue
            cell["ok"] = True
            cell["why"] = "lazy cell holding a function pointer chosen by CPU feature detection"
    return cells


# ---- which files ---------------------------------------------------------------------------------
TEST_DIRS = ("tests", "benches", "examples")


def crate_dirs(repo):
    out = []
    for root, dirs, files in os.walk(repo):
        dirs[:] = sorted(d for d in dirs if d not in ("target", ".git"))
        if "Cargo.toml" in files:
            try:
                t = tomllib.load(open(os.path.join(root, "Cargo.toml"), "rb"))
            except Exception:  # noqa
                t = {}
            if "package" in t:
                out.append((os.path.relpath(root, repo), t))
    return out


def rs_files(repo):
    out = []
    for root, dirs, files in os.walk(repo):
        dirs[:] = sorted(d for d in dirs if d not in ("target", ".git"))
        for f in sorted(files):
            if f.endswith(".rs"):
                out.append(os.path.relpath(os.path.join(root, f), repo))
    return out


def load_sources(repo):
    """every .rs file of the repository, each with a role:
    library     compiled into a crate's library / binary in a normal build (everything that is not shown to be one of the others)
    build       a build script (runs at build time; still scanned: it may generate code)
    test-only   integration tests / benches / examples (cargo's directory convention or [[test]]/[[bench]]/[[example]] path),
                out-of-line modules behind cfg(test), files under #![cfg(test)] - unless a library file pulls them in"""
    crates = crate_dirs(repo)
    norm = lambda p: os.path.normpath(p).replace(os.sep, "/")
    explicit_test, explicit_lib, build_scripts = set(), set(), set()
    for cdir, t in crates:
        for sect in ("test", "bench", "example"):
            for e in t.get(sect, []) if isinstance(t.get(sect), list) else []:
                if isinstance(e, dict) and "path" in e:
                    explicit_test.add(norm(os.path.join(cdir, e["path"])))
        for e in ([t.get("lib")] if isinstance(t.get("lib"), dict) else []) + (t.get("bin") if isinstance(t.get("bin"), list) else []):
            if isinstance(e, dict) and "path" in e:
                explicit_lib.add(norm(os.path.join(cdir, e["path"])))
        b = t["package"].get("build")
        if isinstance(b, str):
            build_scripts.add(norm(os.path.join(cdir, b)))
        elif b is not False and os.path.exists(os.path.join(repo, cdir, "build.rs")):
            build_scripts.add(norm(os.path.join(cdir, "build.rs")))
    cdirs = sorted((norm(c) for c, _ in crates), key=len, reverse=True)
    sources = {}
    for rel in rs_files(repo):
        r = norm(rel)
        try:
            text = open(os.path.join(repo, rel), errors="replace").read()
        except OSError:
            continue
        s = Source(rel, text)
        owner = next((c for c in cdirs if c == "." or (r + "/").startswith(c + "/")), None)
        inner = r if owner in (None, ".") else r[len(owner) + 1:]
        s.crate = owner
        if r in build_scripts:
            s.role = "build"
        elif r in explicit_lib:
            s.role = "library"
        elif r in explicit_test or inner.split("/")[0] in TEST_DIRS or s.whole_file_off:
            s.role = "test-only"
        else:
            s.role = "library"
        sources[r] = s
    # out-of-line modules behind cfg(test) / cfg(cryptocorrosion_verif)
    for r, s in list(sources.items()):
        d = os.path.dirname(r)
        stem = os.path.splitext(os.path.basename(r))[0]
        for name, path in s.off_mods:
            cands = [os.path.join(d, path)] if path else [os.path.join(d, name + ".rs"), os.path.join(d, name, "mod.rs"),
                                                           os.path.join(d, stem, name + ".rs"), os.path.join(d, stem, name, "mod.rs")]
            for c in cands:
                c = norm(c)
                if c in sources and c not in explicit_lib:
                    sources[c].role = "test-only"
                    sub = c[:-3] if not c.endswith("/mod.rs") else os.path.dirname(c)
                    for r2, s2 in sources.items():       # its sub-modules
                        if (r2 + "/").startswith(sub + "/"):
                            s2.role = "test-only"
    # live #[path] / include! references from non-test files pull their targets in; unresolved ones are findings
    problems = []
    changed = True
    while changed:
        changed = False
        for r, s in sources.items():
            if s.role == "test-only":
                continue
            for kind, target, line, live in s.refs:
                if not live:
                    continue
                if target is not None:
                    c = norm(os.path.join(os.path.dirname(r), target))
                    if c in sources:
                        if sources[c].role == "test-only":
                            sources[c].role = "library"; changed = True
                        continue
                    if kind == "include" and not target.endswith(".rs") and os.path.exists(os.path.join(repo, c)):
                        # include! of a non-.rs file is still code: scan it
                        try:
                            s2 = Source(c, open(os.path.join(repo, c), errors="replace").read())
                            s2.crate, s2.role = s.crate, "library"
                            sources[c] = s2; changed = True
                            break
                        except OSError:
                            pass
                key = (r, line)
                if key not in [(p["file"], p["line"]) for p in problems]:
                    problems.append({"file": s.rel, "line": line, "construct": "code outside the scanned files",
                                     "text": s.text_at(line),
                                     "why": ("%s target %r is not a file of the repository" % (kind, target)) if target is not None else
                                            "include!/#[path] target is computed (OUT_DIR / concat! / env!): generated code cannot be scanned"})
            if changed:
                break
    return list(sources.values()), problems, sorted(build_scripts)


def scan(repo):
    sources, problems, build_scripts = load_sources(repo)
    findings, test_only, probes = [], [], 0
    for s in sources:
        cs = constructs(s)
        if s.role == "test-only":
            test_only += cs
            continue
        findings += cs
        probes += sum(1 for k in range(len(s.toks) - 1)
                      if s.live[k] and s.toks[k][1] == "is_x86_feature_detected" and s.toks[k + 1][1] == "!")
    for p in problems:
        findings.append(dict(p, tok=-1))
    return sources, findings, test_only, probes, build_scripts


def classify(sources, findings):
    """-> (modelled, immutable, unmodelled, cells)"""
    cells = dispatch_cells(sources)
    ok_cells = [c for c in cells if c["ok"]]
    modelled, immutable, unmodelled = [], [], []
    for f in findings:
        cell = next((c for c in ok_cells if c["file"] == f["file"] and
                     ((f["construct"] == "lazy_static!" and f["tok"] == c["at"]) or
                      (f["construct"] == "static" and c["span"][0] <= f["tok"] < c["span"][1]))), None)
        if cell:
            modelled.append(dict(f, model="lazy cell (Model/Concurrency.v cells): %s; %d expansion(s)%s" % (
                cell["why"], cell["expansions"], (" of %s!" % cell["macro"]) if cell["macro"] else "")))
        elif f["construct"] == "static" and not f.get("interior"):
            immutable.append(f)     # a plain immutable static: no state
        else:
            unmodelled.append(f)
    return modelled, immutable, unmodelled, cells


def _pub(f):
    return {k: v for k, v in f.items() if k not in ("tok", "interior", "span", "at")}


def run(ctx):
    vlib.standard_proof_stage(ctx)
    # (a) inventory of shared state
    sources, findings, test_only, probes, build_scripts = scan(vlib.REPO)
    modelled, immutable, unmodelled, cells = classify(sources, findings)
    ok_cells = [c for c in cells if c["ok"]]
    expansions = sum(c["expansions"] for c in ok_cells)
    roles = {}
    for s in sources:
        roles[s.role] = roles.get(s.role, 0) + 1
    files = roles.get("library", 0) + roles.get("build", 0)
    ctx.cov["global_state_scan"] = {
        "repo": vlib.REPO, "files_scanned": files, "files_by_role": roles, "build_scripts": build_scripts,
        "constructs_found": len(findings),
        "modelled": [_pub(f) for f in modelled], "immutable_statics": [_pub(f) for f in immutable],
        "unmodelled": [_pub(f) for f in unmodelled],
        "constructs_in_test_only_files": [_pub(f) for f in test_only][:40],
        "lazy_static_cells": [_pub(c) for c in cells],
        "groestl_dispatch_expansions": expansions, "groestl_dispatch_expansions_modelled": GROESTL_CELLS,
        "is_x86_feature_detected_sites": probes,
        "method": "own lexer (comments, strings, raw strings, char literals vs lifetimes), items behind cfg(test) / "
                  "cfg(cryptocorrosion_verif) (alone, or inside all(..), or any(..) of only those) are skipped, nothing else; every .rs "
                  "file of the repository except tests/ benches/ examples/ and cfg(test) modules not pulled in by a library file; "
                  "#[path] / include! targets followed, computed targets reported; the modelled cells are recognised by shape",
    }
    ctx.log("scan: %d files (%s), %d constructs (%d modelled, %d immutable statics, %d unmodelled), %s lazy cells, %d feature probes"
            % (files, ", ".join("%d %s" % (v, k) for k, v in sorted(roles.items())), len(findings), len(modelled), len(immutable),
               len(unmodelled), expansions, probes))
    scan_problems = []
    by_line = {}
    for f in unmodelled:
        w = "%s:%d" % (f["file"], f["line"])
        if w in by_line:
            if f["construct"] not in by_line[w]["construct"].split(" + "):
                by_line[w]["construct"] += " + " + f["construct"]
        else:
            by_line[w] = {"kind": "unmodelled-shared-state", "where": w, "construct": f["construct"], "text": f["text"]}
            if f.get("why"):
                by_line[w]["why"] = f["why"]
            if f.get("type_aliases_resolved"):
                by_line[w]["why"] = "the static's type is written with the alias(es) %s of the same file, which stand for a type with interior mutability" % (
                    ", ".join(f["type_aliases_resolved"]))
            for c in cells:
                if not c["ok"] and c["file"] == f["file"] and (f.get("tok") == c["at"] or c["span"][0] <= f.get("tok", -1) < c["span"][1]):
                    by_line[w]["why"] = "a lazy_static! cell that is not of the modelled shape: " + c["why"]
            scan_problems.append(by_line[w])
    if expansions != GROESTL_CELLS:
        scan_problems.append({"kind": "lazy-cell-inventory-changed", "where": MODEL_CRATE,
                              "expected_cells": GROESTL_CELLS, "found": expansions, "cells": [_pub(c) for c in cells],
                              "text": "the model has %d lazy function-pointer cells (tf/of/init x 512/1024); the sources have %d" % (GROESTL_CELLS, expansions)})

    # (b) stress runs
    nviol = len(ctx.violations)
    procs = 200 if ctx.quick else 1000
    rounds = 600 if ctx.quick else 6000
    hammer = 2000 if ctx.quick else 8000      # short-operation iterations per cold process (divided among its threads)
    # cold processes whose k threads (k = 2, 8, 64 in turn) ALL start on the same algorithm and run nothing else; the algorithm
    # rotates over the 45 kinds: 135 processes = every (k, algorithm) pair once
    samestart = 675 if ctx.quick else 2700
    for profile in ("debug", "release"):
        binary, log = vlib.cargo_build(profile=profile, bin_name="h_conc")
        if binary is None:
            raise vlib.CheckError("harness build failed (h_conc %s): %s" % (profile, log[-2000:]))
        s = vlib.correspondence(ctx, binary, "conc", ["--procs", procs, "--rounds", rounds, "--hammer", hammer, "--samestart", samestart], "host/%s" % profile)
        ctx.log("host/%s: %d cold processes %s, %d thread results + %d hammer results, %d same-start processes %s (%d results), %d sequence results, %d interleaving rounds (%d ops: %s), %d failing" % (
            profile, s.get("cold_processes", 0), s.get("thread_counts"), s.get("thread_results_compared", 0),
            s.get("hammer_results_compared", 0), s.get("same_start_processes", 0), s.get("same_start_thread_counts"),
            s.get("same_start_results_compared", 0), s.get("sequence_results_compared", 0),
            s.get("interleaving_rounds", 0), s.get("interleaving_ops", 0), s.get("interleaving_op_mix"), s.get("failing_results", 0)))
        vlib.decide_relative(ctx, s, theorem="C18_concurrent_complete / C18_interleaving_independent")
    if not ctx.quick:
        binary, log = vlib.cargo_build(features=("h1",), profile="release", bin_name="h_conc")
        if binary is None:
            ctx.assumptions.append("hook H1 not present at build time: back ends not forced, host dispatch only")
        else:
            for level in (1, 2, 3, 4, 5):
                s = vlib.correspondence(ctx, binary, "conc", ["--procs", 80, "--rounds", 500, "--hammer", hammer, "--samestart", 270, "--level", level],
                                        "H1-level%d/release" % level)
                ctx.log("H1 level %d/release: %d cold processes, %d thread results, %d failing" % (
                    level, s.get("cold_processes", 0), s.get("thread_results_compared", 0), s.get("failing_results", 0)))
                vlib.decide_relative(ctx, s, theorem="C18_concurrent_complete / C18_interleaving_independent")
    found_input = len(ctx.violations) > nviol
    for p in scan_problems[:5]:
        p["note"] = ("the sources contain shared state that Model/Concurrency.v does not have (or the modelled cells changed): "
                     "the theorems no longer cover the code" + ("; the stress runs of this check also found wrong results (see the other replay files)" if found_input
                                                                  else "; the stress runs of this run found no wrong result"))
        p["authoritative_theorem"] = "C18_concurrent_equals_sequential (premise: operations touch only their own instance and the dispatch cells)"
        ctx.violation(p, no_input=not found_input)
