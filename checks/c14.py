import vlib

META = {
    "title": "ChaCha block API: 4-block refill equals four 1-block refills, 64-bit counter",
    "design_ref": "6/C14",
    "technique": "Coq proof: lane-wise evolution of the 4x4-lane state (symbolic conversion + induction on double rounds), "
                 "64-bit counter arithmetic of d0123/add_pos/inc_block_ct on the little-endian u64x2 view (join/split "
                 "lemmas), transpose by lanes; differential correspondence model<->impl on every back end (hook H1) in "
                 "both profiles plus the direct statement refill4 == 4 x refill on the implementation",
    "level_text": "Machine-checked theorems (Props/C14.v), for every well-formed state and EVERY number of double rounds (0 included): C14_refill4_eq_4_refills (refill_wide = bytes of four consecutive refills, same final state), C14_d0123_counters (lane i holds counter+i mod 2^64 in words 0,1; words 2,3 untouched), C14_add_pos, C14_inc_block_ct (64-bit carry low->high word, never into the stream-id words, wrap at 2^64, no panic), C14_refill_emits_then_advances / C14_refill4_emits_then_advances (block(s) for the current counter(s) = specified block function, then counter +1 / +4), C14_at_ctr_spec. On every back end and configuration (composed with C03): C14_refill4_eq_4_refills_every_backend (six real machines, both profiles), C14_refill4_eq_4_refills_every_config.",
    "level_note": "Trusted: Coq kernel+VM; hand-written model Model/ChaChaGuts.v (little-endian arms of d0123/add_pos; "
                  "vector operations at their lane meaning Spec/Lanes.v, which C12/C13/C03 tie to the back ends) tied to "
                  "guts.rs on generated cases per back end; harness. No axioms.",
    "rule": 'cases = (key, 64-bit counter, 64-bit stream id, drounds 0..10 round-robin) from seeded xoshiro; the state is '
            'built in three ways in turn (ChaCha::new with an 8-byte nonce = id, with a 12-byte nonce = high counter word '
            '++ id, or with a zero nonce and both parameters set) and the d words sent to the model are computed from '
            '(counter, id), not read back (a read-back that differs is a failure); the first 154 cases pair each of 14 '
            'boundary counters (0, 2^32-4..2^32, 2^64-5..2^64-1, random high word with low word 0xfffffffd..ff) with each '
            'round count, so the low-word carry and the 2^64 wrap land in every lane and in the final add_pos; 22 cases '
            '5..9 below a boundary (the carry falls into the continuation); then random/boundary mix; every 5th stream id '
            'is all-ones; distinct = distinct (key,counter,id,drounds), all non-trivial; per case the implementation runs '
            'refill4 and 4 x refill from clones, then CONTINUES on the same two objects with refill4; refill and refill; '
            'refill4 (panics caught) into buffers pre-filled with a case-dependent non-zero pattern, and reports bytes, '
            'get_stream_param(0/1), and whether the two objects are equal as whole states (==, key rows included) and '
            'equal to a state created from scratch at counter+4; direct check: bytes equal (both phases), states equal, '
            'counter advanced by 4 then 9 mod 2^64 and stream id unchanged; model evaluated inside coqc on all of it; per '
            'configuration the forced level is read back (verif::level()) and the Machine type selected by dispatch! / '
            'dispatch_light128! (expanded in the harness) must be the one that goes with the level',
    "assumptions": ["little-endian host (the big-endian arms of d0123/add_pos are not compiled)",
                    "back ends selected through the cfg(cryptocorrosion_verif) level override of ppv-lite86 dispatch"],
}

LEVELS = ((1, "sse2"), (2, "ssse3"), (3, "sse41"), (4, "avx"), (5, "avx2"))
# Machine type each dispatch macro must select under a forced level (SSE4.1 and AVX are the same Machine type;
# dispatch_light128 knows two: AVX from level 4 on, else SSE2), observed by expanding the macros in the harness
EXPECT_DISPATCH = {1: "sse2", 2: "ssse3", 3: "sse41", 4: "sse41", 5: "avx2"}
EXPECT_LIGHT128 = {1: "sse2", 2: "sse2", 3: "sse2", 4: "sse41", 5: "sse41"}


def _host_has(flags):
    try:
        for line in open("/proc/cpuinfo"):
            if line.startswith("flags"):
                have = set(line.split(":", 1)[1].split())
                return all(f in have for f in flags)
    except OSError:
        pass
    return False


def _level_honoured(s, level, label):
    """the level that was asked for is the one in force, and the macros select the Machine type that goes with it"""
    if s.get("backend_level_read_back") != level:
        raise vlib.CheckError("%s: back-end level %d requested, verif::level() reads %r" % (label, level, s.get("backend_level_read_back")))
    if _host_has(("sse2", "ssse3", "sse4_1", "avx", "avx2")):
        got = (s.get("machine_selected_by_dispatch"), s.get("machine_selected_by_dispatch_light128"))
        if got != (EXPECT_DISPATCH[level], EXPECT_LIGHT128[level]):
            raise vlib.CheckError("%s: level %d is stored but not honoured: dispatch! selects %s, dispatch_light128! selects %s "
                                  "(expected %s / %s): the runs labelled with this back end would exercise another one"
                                  % (label, level, got[0], got[1], EXPECT_DISPATCH[level], EXPECT_LIGHT128[level]))


def run(ctx):
    vlib.standard_proof_stage(ctx)
    ok, log = vlib.coq_make(["Run/ChaCha.vo"])      # the case runner (not in the cone of Props/C14.v)
    if not ok:
        raise vlib.CheckError("Run/ChaCha.vo does not build: %s" % log[-2000:])
    n = 11 * 18 if ctx.quick else 11 * 150
    for profile in ("debug", "release"):
        binary, log = vlib.cargo_build(profile=profile, bin_name="h_chacha")
        if binary is None:
            raise vlib.CheckError("harness build failed (%s): %s" % (profile, log[-2000:]))
        for level, name in LEVELS:
            s = vlib.correspondence(ctx, binary, "c14", ["--count", n, "--level", level], "%s/%s" % (name, profile))
            ctx.log("%s/%s: %d cases, %d disagree with the model, %d direct failures; level read back %s, machines %s / %s" %
                    (name, profile, s.get("evaluations", 0), len(s["failing"]), len(s.get("direct_failures", [])),
                     s.get("backend_level_read_back"), s.get("machine_selected_by_dispatch"), s.get("machine_selected_by_dispatch_light128")))
            _level_honoured(s, level, "%s/%s" % (name, profile))
            vlib.decide_relative(ctx, s, explain="explain_c14",
                                 theorem="C14_refill4_eq_4_refills, C14_refill_emits_then_advances",
                                 what="Model/ChaChaGuts.v refill / refill_wide")
    # the portable back end (ppv-lite86 `no_simd`): generic.rs u64x2 add / insert / extract under d0123, add_pos, inc_block_ct
    for profile in ("debug", "release"):
        binary, log = vlib.cargo_build(features=("no_simd",), profile=profile, bin_name="h_chacha")
        if binary is None:
            raise vlib.CheckError("harness build failed (no_simd %s): %s" % (profile, log[-2000:]))
        s = vlib.correspondence(ctx, binary, "c14", ["--count", n, "--level", 0], "portable/%s" % profile)
        ctx.log("portable/%s: %d cases, %d disagree with the model, %d direct failures" %
                (profile, s.get("evaluations", 0), len(s["failing"]), len(s.get("direct_failures", []))))
        if s.get("machine_selected_by_dispatch") != "generic":
            raise vlib.CheckError("portable/%s: the no_simd build selects %r" % (profile, s.get("machine_selected_by_dispatch")))
        vlib.decide_relative(ctx, s, explain="explain_c14",
                             theorem="C14_refill4_eq_4_refills, C14_refill_emits_then_advances",
                             what="Model/ChaChaGuts.v refill / refill_wide")
