import vlib

META = {
    "title": "Threefish decryption is the exact inverse of encryption",
    "design_ref": "6/C10",
    "technique": "Coq proof: algebraic inverse laws of the round body (any rotation table), lifted by fold induction; differential correspondence model<->impl plus direct D(E(b))=b search",
    "level_text": "Machine-checked theorems C10_decrypt_encrypt / C10_encrypt_decrypt / C10_encrypt_injective: for every key, tweak, block, both unroll variants and ANY rotation table, the model of decrypt_block inverts the model of encrypt_block and vice versa, at the byte level. Model tied to the code by running E and D of the implementation and of the model on the same generated cases inside coqc (vm_compute). Bijection stated literally: C10_encrypt_wellformed / C10_decrypt_wellformed (E(b), D(b) are blocks of the right length of bytes), C10_encrypt_surjective / C10_decrypt_surjective, C10_bijection.",
    "level_note": "Trusted: Coq kernel+VM; hand-written model of block-ciphers/threefish/src/lib.rs (tied only on generated cases); harness and case printer. No axioms.",
    "rule": "cases = (size, key, tweak, block) from seeded xoshiro: zero vectors, published-vector inputs, then structured/random (zero, ones, counting, single-bit, carry-heavy, random); distinct = distinct (size,key,tweak,block); non-trivial = key or block non-zero; each case runs E(b), D(b), D(E(b)), E(D(b)) on the implementation and E, D on the model; the constructor rotates over with_tweak / NewBlockCipher::new / new_from_slice and the blocks travel through encrypt_block / decrypt_block, encrypt_blocks / decrypt_blocks on a 3-block slice (equal blocks at positions 0 and 2 must give equal results: direct failure otherwise), the par_blocks forms, or a clone of the object, rotating with case index and seed; all four blocks of a case pass through ONE object; one key in six has the parity word k[N_w] within 20 of 2^64; every call runs under catch_unwind: a panic is a direct failure with key, tweak and block as failing input",
    "assumptions": ["little-endian host", "cipher 0.3 GenericArray block API only forwards to encrypt_block/decrypt_block"],
}


def run(ctx):
    vlib.standard_proof_stage(ctx)
    n = 64 if ctx.quick else 3000   # per configuration; 2 feature settings x 2 build profiles in both tiers
    for feats, label in (((), "unrolled"), (("no_unroll",), "no_unroll")):
        for profile in ("debug", "release"):   # release: debug_assert! side effects, overflow wrap
            binary, log = vlib.cargo_build(features=feats, profile=profile)
            if binary is None:
                raise vlib.CheckError("harness build failed (%s %s): %s" % (label, profile, log[-2000:]))
            s = vlib.correspondence(ctx, binary, "tf", ["--count", n, "--runner", "run_c10"],
                                    "%s/%s" % (label, profile))
            vlib.decide_relative(ctx, s, explain="explain_tf", theorem="C10_decrypt_encrypt, C10_encrypt_decrypt",
                                 what="Model/Threefish.v m_encrypt/m_decrypt with the standard tables")
