import vlib

META = {
    "title": "JH-224/256/384/512 digests conform to the JH specification for every message",
    "design_ref": "6/C06 (+ JH part of 6/C17)",
    "technique": "Coq proof: bit-slice uniformity of ss/l (N.testbit), swapN as an index xor, position map pos r relating the eight 128-bit registers to the 256 nibbles of the specification round by round, generated round constants = table under the position map, padding schedule by case analysis on len mod 64, length counter invariant; KAT-anchored nibble-oriented spec; differential correspondence impl = model = spec on digests, on F8 directly for every machine type, and on states entered through hook H2",
    "level_text": "Machine-checked theorems in Props/C06.v, all closed under the global context: C06_f8_eq_spec (for EVERY 128-byte state and 64-byte block the model of Compressor::{new,input,finalize} / f8_impl equals F8 of the specification: full, not partial), built from C06_ss_bitwise_eq_sbox and C06_l_bitwise_eq_L (bit j of the outputs of ss / l is S0/S1 / L on bit j of the inputs, for all 128-bit words), C06_swap_eq_index_xor (swapN moves bit j to j xor N), C06_bitslice_constants_eq_spec (each of the 42 table entries is the generated constant R6^r(C0) under the position map of round r mod 7), C06_round_eq_spec (the unroll7! body is R8 under the position maps, period 7), grouping/de-grouping against the byte layout of the registers; C06_iv_table_eq_spec (consts.rs = F8(H(-1),0)); C06_schedule_eq_spec (blocks fed to F8 = specified padding, both branches, every message below 2^61 bytes, both build profiles); C06_jh224/256/384/512_eq_spec (Digest::digest(msg) = JH-n(msg) for every byte string below 2^61 bytes); C06_length_field_limit (at 2^61 bytes datalen*8 overflows: debug panics, release writes 0). Props/C17_jh.v: C17_jh_len_exact / C17_jh_blocks_exact / C17_jh_digest_conforms (for every sequence of update calls with < 2^61 bytes in total: no panic, datalen exact, length field = 8*bytes, blocks compressed = specified padding, digest = specification). The specification reproduces 20 NIST vectors, the four published initial values and the published C1 (C06_kats). Implementation = model = spec is checked on generated cases: digests, F8 on five machine types, hook-entered states.",
    "level_note": "Trusted: Coq kernel+VM; spec transcription of the JH round-3 document (anchored by the NIST vectors of KAT_JH.v and the published initial values); hand-written model of compressor.rs/lib.rs/consts.rs and of block-buffer 0.9 input_block/len64_padding_be/pad_with tied to the code on generated cases; ppv-lite86 u128x1/u128x2 operations taken by their lane meaning (their conformance is C12/C13; F8 is run on SSE2, SSSE3, SSE4.1, AVX2 and the host dispatch); harness; hook H2 (verif_set_state/verif_get_state). No axioms.",
    "rule": "digest cases = (variant, message, split point of the update calls (split = len: one call), optional entered state (chaining value, datalen, buffered bytes)); streams: one_long_update (full debug stream only: ONE update call of 8 KiB and of 16 KiB + 1 bytes per variant; contents the computable sequence LP (byte i = x_i >> 8, x_(i+1) = 5 x_i + 12345 mod 2^16; defined in the header of the generated case files, so the case carries no 64 KiB literal)), every message length 0..3*64+1 (quick: variant rotates with the length except at the padding boundaries 0,1,55,56,63,64,65,128; thorough: all four variants x 4 contents), sparse longer messages up to 16 KiB, hook states with datalen at offsets -129..+64 around 0, 64, 2^13, 2^21, 2^29 bytes (= 2^32 bits), 2^32, 2^56, 2^61 (datalen*8 leaves 64 bits: debug panics, release wraps), 2^61+2^29, 2^63, 2^64 (datalen += len overflows) with tails that cross the boundary, a few inconsistent states (datalen unrelated to the buffer), and real_stream cases: 2^29-k bytes (k = 64,1,129,200) are really streamed into the hasher in update calls of varying sizes, the state read back through the hook must have datalen = bytes streamed (direct failure otherwise) and becomes the entered state of the case, whose tail then crosses 2^32 bits; contents random/zero/ones/counting/structured; implementation outcome, (datalen, position, chaining value) after the updates and the digest are compared with the model, and with the spec whenever the state is consistent and the total length is below 2^61 bytes, inside coqc. F8 cases = (state, block): fixed patterns, unit vectors of state (1024) and block (512) (quick: every 8th), single-bit flips on random backgrounds, random/structured; each run through Compressor (host dispatch) and f8_impl::<SSE2|SSSE3|SSE41|AVX2> with the block at an odd address; every distinct output is compared with model F8 and spec F8 inside coqc. distinct = distinct inputs; non-trivial = every digest case (all run padding and at least one F8), F8 cases with a non-zero input; CONFIGURATIONS (quick): debug: digests all streams + F8; release: hook stream + real stream, F8, the reduced digest stream (padding boundaries 0,1,55,56,63,64,65,119,120,128 for all four variants, every 8th other length, four longer messages, a twelfth of the hook product); release with every arm of the crate's own dispatch! (compressor.rs f8) forced through hook H1 (--level 1..5 = SSE2, SSSE3, SSE4.1, AVX, AVX2; before, only the arm the host's detection selects ever ran for digests): reduced stream each; release built with this machine's SIMD target features (-C target-feature=+ssse3,+sse4.1,+aes,+avx,+avx2: cfg(target_feature) arms): reduced stream + F8; thorough adds F8 under every forced level. The hook sub-sampling (a quarter of the (boundary, offset, tail) product) now rotates with the (boundary, offset) pair and the seed, so every tail class (0 = finalise directly from the entered state, 1, exact fill 64-nbuf, 65, 130, fill+64) meets every boundary; the variant of a hook / real_stream case rotates with the seed; the length of every digest returned is checked in the harness against size/8 (direct failure otherwise); cases carry domain = within / beyond (datalen + message >= 2^61: behaviour as written stays pinned) / inconsistent entered state",
    "assumptions": ["little-endian x86-64 host", "usize is 64 bits (datalen as u64 is the identity)",
                    "message shorter than 2^61 bytes (the implementation's 64-bit bit-length field; the JH format itself allows 2^128-1 bits: see notes/jh.md, finding JH-L1)"],
}


def run(ctx):
    vlib.standard_proof_stage(ctx, extra_props=("C17_jh",))
    tier = "quick" if ctx.quick else "thorough"
    th = "C06_jh224_eq_spec / C06_jh256_eq_spec / C06_jh384_eq_spec / C06_jh512_eq_spec"
    plans = [("debug", "all"), ("release", "hook" if ctx.quick else "all")]
    bins = {}
    for profile, streams in plans:
        binary, log = vlib.cargo_build(profile=profile, bin_name="h_jh")
        if binary is None:
            raise vlib.CheckError("harness build failed (h_jh %s): %s" % (profile, log[-2000:]))
        bins[profile] = binary
        # really streamed prefixes of 2^29 - k bytes (C17: the first 2^32-bit boundary crossed for
        # real; 2.6 s per 512 MiB in either profile): one per profile in the quick tier, four in thorough
        real = 1 if ctx.quick else 4
        s = vlib.correspondence(ctx, binary, "digest",
                                ["--tier", tier, "--streams", streams, "--real", real, "--runner", "run_c06"],
                                "digest/%s/%s" % (profile, streams))
        vlib.decide_absolute(ctx, s, explain="explain_c06", theorem=th)
        # F8 directly in both profiles (release: opt-level 2, no debug assertions)
        s = vlib.correspondence(ctx, binary, "f8", ["--tier", tier, "--runner", "run_c06_f8"],
                                "f8/%s" % profile)
        vlib.decide_absolute(ctx, s, explain="explain_c06_f8", theorem="C06_f8_eq_spec")
    rel = bins["release"]
    if ctx.quick:
        # plain digests in the release profile too (the IV tables and the padding are otherwise never compared there)
        s = vlib.correspondence(ctx, rel, "digest", ["--tier", "quick", "--streams", "reduced", "--runner", "run_c06"],
                                "digest/release/reduced")
        vlib.decide_absolute(ctx, s, explain="explain_c06", theorem=th)
    # the crate's own `dispatch!` (compressor.rs `f8`): every arm forced through hook H1 (1..5 = SSE2, SSSE3, SSE4.1,
    # AVX, AVX2); the host's run-time detection only ever selects one of them
    for level, name in ((1, "sse2"), (2, "ssse3"), (3, "sse41"), (4, "avx"), (5, "avx2")):
        s = vlib.correspondence(ctx, rel, "digest",
                                ["--tier", "quick", "--streams", "reduced", "--level", level, "--runner", "run_c06"],
                                "digest/release/reduced/forced-%s" % name)
        vlib.decide_absolute(ctx, s, explain="explain_c06", theorem=th + " (back end: C03/C12/C13)")
        if not ctx.quick:
            s = vlib.correspondence(ctx, rel, "f8", ["--tier", "quick", "--level", level, "--runner", "run_c06_f8"],
                                    "f8/release/forced-%s" % name)
            vlib.decide_absolute(ctx, s, explain="explain_c06_f8", theorem="C06_f8_eq_spec")
    # this machine's SIMD target features enabled at compile time (cfg(target_feature = ...) arms of jh and of
    # ppv-lite86 are compiled and run)
    native = tuple(vlib.native_rustflags())
    if native:
        nb, log = vlib.cargo_build(profile="release", bin_name="h_jh", rustflags=native)
        if nb is None:
            raise vlib.CheckError("harness build failed (h_jh release, %s): %s" % (" ".join(native), log[-2000:]))
        s = vlib.correspondence(ctx, nb, "digest", ["--tier", "quick", "--streams", "reduced", "--runner", "run_c06"],
                                "digest/release/reduced/native-target-features")
        vlib.decide_absolute(ctx, s, explain="explain_c06", theorem=th)
        s = vlib.correspondence(ctx, nb, "f8", ["--tier", "quick", "--runner", "run_c06_f8"],
                                "f8/release/native-target-features")
        vlib.decide_absolute(ctx, s, explain="explain_c06_f8", theorem="C06_f8_eq_spec")
