import os

import vlib

META = {
    "title": "ppv-lite86 word-wise vector operations equal their scalar lane meaning on every back end",
    "design_ref": "6/C12",
    "technique": "Coq proof about intrinsic-level models of the x86-64 back ends (Model/Intrinsics.v, PpvSse.v, PpvAvx2.v): each (capability variant, type, operation group) equals the lane-wise contract Spec/Lanes.v for all operands (word lemmas, symbolic conversion on 16 byte variables, finite sweeps for the 16-bit-lane swaps); portable back end and soft.rs forwarding in Props/C12g.v; differential correspondence implementation = model = contract on generated cases for SSE2, SSSE3, SSE4.1, AVX, AVX2 and the portable back end; the intrinsic models are compared with this CPU on every run",
    "level_text": "Machine-checked theorems in Props/C12.v (x86-64 back ends, intrinsic-level models) and Props/C12g.v (portable back end generic.rs and the soft.rs x2/x4 wrappers), all closed under the global context, each for ALL operands: add = wrapping add per 32/64-bit word (C12_sse_u32x4/u64x2_add_lanewise, C12_avx2_add_lanewise, C12g_portable_binop_lanewise); xor/and/or/not/andnot word-wise for 4-, 8- and 16-byte words (C12_sse_bitops_lanewise, C12_avx2_bitops_lanewise); rotate_each_word_right k for every k the traits offer, in the shift-or, pshuflw/pshufhw, pshufd and pshufb forms of both SSSE3 capability variants (C12_sse_u32x4/u64x2/u128x1_rotr_lanewise, C12_avx2_rotr_lanewise, C12g_portable_unop_lanewise); word shuffles are the named permutations (C12_sse_u32x4/u64x4_shuffle_is_perm, C12_avx2_lane_shuffle_is_perm, C12g_portable_u64x4_shuffle_is_perm); bswap = byte reversal per word (both variants); swap1..swap64 move bit j to bit j xor n (C12_sse_u128x1_swap_is_bitgroup_swap, by a 65536-value sweep of a 16-bit lane lifted to all operands, and C12g swap theorems); the x2/x4 forms apply the 1-lane operation to each lane (C12g forwarding theorems); every operation returns Ok in both build profiles (C12g totality). Six of these statements were false on the pinned tree (defects P1, P2, P3, P5, P7, P14, repaired by fix: commits). Implementation = model = lane contract is checked on generated operands on SSE2, SSSE3, SSE4.1, AVX, AVX2 and the portable back end; the intrinsic models are compared with this CPU. Wide types on x86 (Proofs/PpvWide*.v): the x86-side copies of the soft.rs wrappers in Model/PpvSse.v are proved equal to Model/PpvSoft.v at the register type; the compound-assignment macros fwd_binop_assign_x2/x4 are modelled statement by statement (Model/PpvSoftAssign.v) and proved equal to the binary forms; composed lane theorems C12_wide_* for every x86 wide type (u32x4x2/x4, u64x2x2/x4, u64x4, u128x2/x4, u32x4x4_avx2): add, bit operations incl. not/andnot, rotate_each_word_right, bswap, lane-word shuffles, swapN; with them every (back end, type, operation) triple required by types.rs has a composed statement (coverage table in notes/ppv-wide.md: 1206 of 1206).",
    "level_note": "Trusted: Coq kernel+VM; Spec/Lanes.v; Model/Intrinsics.v (intrinsic semantics, validated against the host CPU on the same operand streams); hand-written models tied on generated cases; harness. No axioms.",
    "rule": "x86 back ends: for each machine every (type, method) the Machine bounds expose plus the methods the concrete types add (u128 bswap, u32x4x2 lane shuffles, and `&=` / `|=` on ALL ten vector types: the 128-bit types, u32x4x2_avx2 and every soft.rs x2/x4 wrapper (u64x2x2, u64x4, u128x2, u32x4x4, u64x2x4, u128x4), next to `^=` on all ten and `+=` on the seven arithmetic types); operands built with Machine::unpack and read with Into<storage>: zero, all-ones, byte-index pattern, high-bit patterns, carry chains, seeded random, rhs-identity pairs (all-ones / zero against the byte-index pattern: every rhs lane different and the result is the rhs), walking-one basis (every bit for 128-bit types, every 7th bit for wider types in the quick tier, every 13th for the ':l' machines and the assign forms, every bit in thorough); quick tier: debug profile on SSE2, SSE41, AVX2 and SseMachine<YesS3,YesS4,YesNI>:l (AVX is the same Rust type as SSE41; S4 selects no code of these operations, so SSSE3 differs from SSE41 by its type only: both run in release), release profile (opt-level 2, no debug assertions) on SSE2, SSSE3, AVX, AVX2 with the --light 2 stream (same operand classes, walking one every 29th/11th bit, 5 carry chains); thorough: all five machines full streams in both profiles + the YesNI instantiation of the SSE machine; distinct = distinct (machine, type, op, parameter, operands); non-trivial = some operand byte non-zero; implementation outcome (ok/panic) and result compared with the intrinsic-level model and with the lane-wise contract inside coqc. Raw intrinsics: each _mm_*/_mm256_* the crate issues, same streams, the immediates of the source plus boundary ones, compared with Model/Intrinsics.v",
    "assumptions": ["little-endian x86-64 host with AVX2 (all five x86 machines are executed directly on it)"],
    "trusted_extra": [
        "x86 back ends: Model/Intrinsics.v gives the meaning of each intrinsic on byte-list registers; it is modelled, and compared with this host's CPU on every run (h_ppv intr)",
        "case files carry byte strings as Coq primitive-integer (Uint63) literals, converted to N inside Run/Ppv.v; proofs do not use primitive integers",
        "#[target_feature]/inlining: the harness calls the trait methods from plain functions; AVX and SSE41 are the same Rust types (VEX encoding is not modelled)",
    ],
}


def run(ctx):
    extra = ("C12g",) if os.path.exists(os.path.join(vlib.COQ, "Props", "C12g.v")) else ()
    vlib.standard_proof_stage(ctx, extra_props=extra)
    tier = "quick" if ctx.quick else "thorough"
    # (profile, raw-intrinsic stream?, [(configuration label, harness arguments)])
    # AVX is the same Rust type as SSE41 (one monomorphisation): the quick tier runs it in release only and gives its
    # debug slot to SseMachine<YesS3, YesS4, YesNI>, an instantiation no alias or dispatch macro names.
    if ctx.quick:
        # C12 operands never pass through insert/extract/from_lanes, so S4 selects no code here: SSSE3 is the S3 code
        # of SSE41 under another type; it runs in release only
        plan = [("debug", True, [("x86/debug", ["--tier", tier, "--machine", "SSE2,SSE41,AVX2,SSE41NI:l"])]),
                ("release", False, [("x86/release", ["--tier", tier, "--light", 2, "--machine", "SSE2,SSSE3,AVX,AVX2"])])]
    else:
        plan = [(pr, True, [("x86/%s" % pr, ["--tier", tier]),
                            ("x86-NI/%s" % pr, ["--tier", "quick", "--machine", "SSE41NI"])])
                for pr in ("debug", "release")]
    for profile, intr, runs in plan:
        binary, log = vlib.cargo_build(profile=profile, bin_name="h_ppv")
        if binary is None:
            raise vlib.CheckError("h_ppv build failed (%s): %s" % (profile, log[-2000:]))
        if intr:
            ctx.log("x86 back ends, %s: raw intrinsics" % profile)
            s = vlib.correspondence(ctx, binary, "intr", ["--tier", tier], "x86-intrinsics/%s" % profile)
            vlib.decide_absolute(ctx, s, explain="explain_pi", theorem="(Model/Intrinsics.v is the trusted meaning of the instruction)")
        for label, args in runs:
            ctx.log("x86 back ends, %s: harness c12 %s" % (profile, " ".join(str(a) for a in args)))
            s = vlib.correspondence(ctx, binary, "c12", args, label, shards=16 if ctx.quick else 96)   # thorough: 16 shards of ~7 MB each overflow coqc's stack
            vlib.decide_absolute(ctx, s, explain="explain_px", theorem="C12_x86 theorems of Props/C12.v")
    try:
        from checks import ppvgen_part
    except ImportError:
        ctx.assumptions.append("portable back end part (checks/ppvgen_part.py) not present in this run")
        return
    META["trusted_extra"] = META["trusted_extra"] + list(getattr(ppvgen_part, "TRUSTED_EXTRA", []))
    ppvgen_part.run_part(ctx, "C12")
