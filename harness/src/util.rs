//! Shared helpers: deterministic PRNG, hex / Coq literal printing, JSON strings.
use std::fmt::Write as _;

/// splitmix64-seeded xoshiro256**; every random choice of the harness comes from one of these.
#[derive(Clone)]
pub struct Rng {
    s: [u64; 4],
}

fn splitmix(x: &mut u64) -> u64 {
    *x = x.wrapping_add(0x9E37_79B9_7F4A_7C15);
    let mut z = *x;
    z = (z ^ (z >> 30)).wrapping_mul(0xBF58_476D_1CE4_E5B9);
    z = (z ^ (z >> 27)).wrapping_mul(0x94D0_49BB_1331_11EB);
    z ^ (z >> 31)
}

impl Rng {
    pub fn new(seed: u64) -> Self {
        let mut x = seed;
        let s = [splitmix(&mut x), splitmix(&mut x), splitmix(&mut x), splitmix(&mut x)];
        Rng { s }
    }
    pub fn u64(&mut self) -> u64 {
        let r = self.s[1].wrapping_mul(5).rotate_left(7).wrapping_mul(9);
        let t = self.s[1] << 17;
        self.s[2] ^= self.s[0];
        self.s[3] ^= self.s[1];
        self.s[1] ^= self.s[2];
        self.s[0] ^= self.s[3];
        self.s[2] ^= t;
        self.s[3] = self.s[3].rotate_left(45);
        r
    }
    pub fn u32(&mut self) -> u32 {
        (self.u64() >> 32) as u32
    }
    pub fn u128(&mut self) -> u128 {
        ((self.u64() as u128) << 64) | self.u64() as u128
    }
    pub fn below(&mut self, n: u64) -> u64 {
        if n == 0 {
            0
        } else {
            self.u64() % n
        }
    }
    pub fn range(&mut self, lo: u64, hi: u64) -> u64 {
        lo + self.below(hi - lo + 1)
    }
    pub fn chance(&mut self, num: u64, den: u64) -> bool {
        self.below(den) < num
    }
    pub fn pick<'a, T>(&mut self, xs: &'a [T]) -> &'a T {
        &xs[self.below(xs.len() as u64) as usize]
    }
    pub fn fill(&mut self, buf: &mut [u8]) {
        for c in buf.chunks_mut(8) {
            let v = self.u64().to_le_bytes();
            c.copy_from_slice(&v[..c.len()]);
        }
    }
    /// structured byte strings: random / zero / ones / counting / single bit / carry-heavy
    pub fn bytes(&mut self, n: usize) -> Vec<u8> {
        let mut v = vec![0u8; n];
        match self.below(10) {
            0 => {}
            1 => v.iter_mut().for_each(|b| *b = 0xff),
            2 => v.iter_mut().enumerate().for_each(|(i, b)| *b = i as u8),
            3 => {
                if n > 0 {
                    let bit = self.below(8 * n as u64) as usize;
                    v[bit / 8] = 1 << (bit % 8);
                }
            }
            4 => {
                // words of all-ones / high bit set: carry chains
                for c in v.chunks_mut(8) {
                    let w: u64 = match self.below(4) {
                        0 => u64::MAX,
                        1 => 1 << 63,
                        2 => u64::MAX - self.below(4),
                        _ => 0xffff_ffff,
                    };
                    let b = w.to_le_bytes();
                    c.copy_from_slice(&b[..c.len()]);
                }
            }
            _ => self.fill(&mut v),
        }
        v
    }
    pub fn word64(&mut self) -> u64 {
        match self.below(8) {
            0 => 0,
            1 => u64::MAX,
            2 => 1 << self.below(64),
            3 => u64::MAX - self.below(8),
            4 => (1u64 << 32) - 1 + self.below(3),
            _ => self.u64(),
        }
    }
}

pub fn hex(b: &[u8]) -> String {
    let mut s = String::with_capacity(2 * b.len());
    for x in b {
        let _ = write!(s, "{:02x}", x);
    }
    s
}

/// Coq `N` literal whose little-endian byte encoding is `b` (so the Coq side
/// recovers the string with `B len lit`).
pub fn nlit(b: &[u8]) -> String {
    // coqc 8.16 overflows its stack parsing a single numeral longer than ~3000 bytes: long strings
    // are written as a parenthesised sum of shifted 2048-byte numerals (same value).
    const CH: usize = 2048;
    if b.len() > CH {
        let parts: Vec<String> = b
            .chunks(CH)
            .enumerate()
            .map(|(k, c)| if k == 0 { nlit(c) } else { format!("N.shiftl {} {}", nlit(c), 8 * CH * k) })
            .collect();
        return format!("({})", parts.join(" + "));
    }
    let mut s = String::with_capacity(2 * b.len() + 2);
    s.push_str("0x");
    let mut started = false;
    for x in b.iter().rev() {
        if !started && *x == 0 {
            continue;
        }
        started = true;
        let _ = write!(s, "{:02x}", x);
    }
    if !started {
        s.push('0');
    }
    s
}

pub fn nlit_u64(x: u64) -> String {
    format!("0x{:x}", x)
}
pub fn nlit_u128(x: u128) -> String {
    format!("0x{:x}", x)
}

pub fn jstr(s: &str) -> String {
    let mut o = String::from("\"");
    for c in s.chars() {
        match c {
            '"' => o.push_str("\\\""),
            '\\' => o.push_str("\\\\"),
            '\n' => o.push_str("\\n"),
            c if (c as u32) < 0x20 => {
                let _ = write!(o, "\\u{:04x}", c as u32);
            }
            c => o.push(c),
        }
    }
    o.push('"');
    o
}

/// Command-line options of the form --key value.
pub struct Args {
    pub kv: Vec<(String, String)>,
}
impl Args {
    pub fn parse(rest: &[String]) -> Self {
        let mut kv = Vec::new();
        let mut i = 0;
        while i < rest.len() {
            let k = rest[i].trim_start_matches("--").to_string();
            let v = if i + 1 < rest.len() { rest[i + 1].clone() } else { String::new() };
            kv.push((k, v));
            i += 2;
        }
        Args { kv }
    }
    pub fn get(&self, k: &str) -> Option<&str> {
        self.kv.iter().find(|(a, _)| a == k).map(|(_, v)| v.as_str())
    }
    pub fn u64(&self, k: &str, d: u64) -> u64 {
        self.get(k).and_then(|v| v.parse().ok()).unwrap_or(d)
    }
    pub fn str(&self, k: &str, d: &str) -> String {
        self.get(k).unwrap_or(d).to_string()
    }
}

/// Writes `cases` (already rendered as Coq terms) into `shards` files
/// `<out>/cases_<k>.v`; case `i` goes to shard `i % shards` at index `i / shards`.
pub fn write_shards(out: &str, shards: usize, header: &str, ty: &str, runner: &str, cases: &[String]) {
    std::fs::create_dir_all(out).unwrap();
    let shards = shards.max(1);
    for k in 0..shards {
        let mut s = String::new();
        s.push_str(header);
        s.push_str("\nImport ListNotations.\nLocal Open Scope N_scope.\n");
        let _ = write!(s, "Definition cases : list {} := [\n", ty);
        let mut first = true;
        for (i, c) in cases.iter().enumerate() {
            if i % shards != k {
                continue;
            }
            if !first {
                s.push_str(";\n");
            }
            first = false;
            s.push_str(c);
        }
        s.push_str("\n].\n");
        let _ = write!(s, "Eval vm_compute in (failing {} cases).\n", runner);
        std::fs::write(format!("{}/cases_{}.v", out, k), s).unwrap();
    }
}
