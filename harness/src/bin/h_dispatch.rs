//! C03: one fixed battery (derived from --bseed only, so it is the same in every build and
//! configuration) computed by the implementation under the configuration this binary was
//! built for (cargo features `std` / `no_simd`, `-C target-feature`) and, for the std build,
//! under the back-end level forced through hook H1 (`ppv_lite86::x86_64::verif::set_level`).
//!
//!   battery --bseed B --level L --shards N --out DIR [--thorough 1 | --mini 1]
//!       The battery is: 3 selection probes, the MINI battery (`mini_battery`, own generator
//!       state, so it is the same PREFIX of the quick, thorough and mini batteries and case index
//!       i means the same input in every configuration), then the main battery. `--mini 1` stops
//!       after the prefix: it is what the compile-time configurations (one cargo build each) and
//!       the release profile run in the quick tier.
//!       parent: runs `child` (this executable) and collects one result line per case; a child
//!       that dies (SIGILL, SIGSEGV, abort) yields outcome `fault` for the case it was
//!       computing and a new child continues with the next case.
//!   child --bseed B --level L --from I [--thorough 1 | --mini 1]
//!
//! Every case is written as a `dcase` of Run/Dispatch.v (model reference computed inside Coq)
//! and into cases.json (index, kind, input, res, out, aux) for the cross-configuration
//! comparison done by checks/c03.py.
#![allow(dead_code)]
#[path = "../util.rs"]
mod util;
use util::*;

use c2_chacha::guts::ChaCha;
use c2_chacha::{ChaCha20, Ietf, XChaCha8};
use cipher::generic_array::GenericArray;
use cipher::{NewCipher, StreamCipher, StreamCipherSeek};
use digest::Digest;
use jh_x86_64::compressor::{f8_impl, Compressor};
use jh_x86_64::simd::vec128_storage;
use std::collections::HashSet;
use std::io::{BufRead, Write};
use std::panic::{catch_unwind, AssertUnwindSafe};

// ---------------------------------------------------------------------------------------------
// what this build is
// ---------------------------------------------------------------------------------------------
const STD: bool = cfg!(feature = "std");
const NO_SIMD: bool = cfg!(feature = "no_simd");

/// highest level named by the compile-time target features (1 = SSE2 ... 5 = AVX2), as the
/// `cfg!(target_feature = ..)` chain of the no-std arms sees them
fn tf_level() -> u8 {
    if cfg!(target_feature = "avx2") {
        5
    } else if cfg!(target_feature = "avx") {
        4
    } else if cfg!(target_feature = "sse4.1") {
        3
    } else if cfg!(target_feature = "ssse3") {
        2
    } else if cfg!(target_feature = "sse2") {
        1
    } else {
        0
    }
}
fn tf_mask() -> u8 {
    (cfg!(target_feature = "sse2") as u8)
        | (cfg!(target_feature = "ssse3") as u8) << 1
        | (cfg!(target_feature = "sse4.1") as u8) << 2
        | (cfg!(target_feature = "avx") as u8) << 3
        | (cfg!(target_feature = "avx2") as u8) << 4
}
/// what `is_x86_feature_detected!` reports on this host, same bit layout
fn host_mask() -> u8 {
    (std::is_x86_feature_detected!("sse2") as u8)
        | (std::is_x86_feature_detected!("ssse3") as u8) << 1
        | (std::is_x86_feature_detected!("sse4.1") as u8) << 2
        | (std::is_x86_feature_detected!("avx") as u8) << 3
        | (std::is_x86_feature_detected!("avx2") as u8) << 4
}

// The three macros expanded in this crate: `cfg(feature = "std")` and
// `cfg(cryptocorrosion_verif)` are evaluated here exactly as they are in c2-chacha, blake-hash
// and jh-x86_64 (same RUSTFLAGS, the harness features forward to theirs), so the selected
// Machine type can be observed.
mod probe {
    use ppv_lite86::{dispatch, dispatch_light128, dispatch_light256, Machine};
    dispatch!(m, M, {
        fn sel_dispatch(x: u32) -> &'static str {
            let _ = (m, x);
            core::any::type_name::<M>()
        }
    });
    dispatch_light128!(m, M, {
        fn sel_light128(x: u32) -> &'static str {
            let _ = (m, x);
            core::any::type_name::<M>()
        }
    });
    dispatch_light256!(m, M, {
        fn sel_light256(x: u32) -> &'static str {
            let _ = (m, x);
            core::any::type_name::<M>()
        }
    });
    pub fn selected(mac: u8) -> &'static str {
        match mac {
            0 => sel_dispatch(0),
            1 => sel_light128(0),
            _ => sel_light256(0),
        }
    }
    fn _unused<M: Machine>() {}
}

/// Machine type -> code: 0 GenericMachine, 1 SSE2, 2 SSSE3, 3 SSE4.1 (= AVX: the same type),
/// 5 AVX2, 9 unknown
fn type_code(name: &str) -> u8 {
    let n: String = name.chars().filter(|c| !c.is_whitespace()).collect();
    if n.contains("GenericMachine") {
        0
    } else if n.contains("Avx2Machine") {
        5
    } else if n.contains("SseMachine") {
        let s3 = n.contains("YesS3");
        let s4 = n.contains("YesS4");
        match (s3, s4) {
            (false, false) => 1,
            (true, false) => 2,
            (true, true) => 3,
            _ => 9,
        }
    } else {
        9
    }
}

#[cfg(all(not(feature = "no_simd"), feature = "std"))]
fn set_level(l: u8) {
    ppv_lite86::x86_64::verif::set_level(l);
    assert_eq!(ppv_lite86::x86_64::verif::level(), l);
}
#[cfg(not(all(not(feature = "no_simd"), feature = "std")))]
fn set_level(l: u8) {
    assert_eq!(l, 0, "a back-end level can only be forced in the std build without no_simd");
}

// ---------------------------------------------------------------------------------------------
// battery
// ---------------------------------------------------------------------------------------------
#[derive(Clone)]
enum Inp {
    /// public cipher API: new(key, nonce); seek(pos); apply_keystream(data); current_pos
    Stream { var: u8, key: Vec<u8>, nonce: Vec<u8>, pos: u64, data: Vec<u8> },
    /// guts: ChaCha::new; set_stream_param; refill (64 bytes) or refill4 (256 bytes); d after
    Refill { wide: bool, key: Vec<u8>, ctr: u64, id: u64, dr: u32 },
    Blake { v: u32, msg: Vec<u8> },
    Jh { v: u32, msg: Vec<u8> },
    /// F8: sel 0 = Compressor (dispatch!), 1..4 = f8_impl::<M> instantiated directly with the
    /// sel-th machine of this build (SSE2, SSSE3, SSE4.1, AVX2; GenericMachine under no_simd)
    JhF8 { sel: u8, state: Vec<u8>, block: Vec<u8> },
    /// not dispatch-dependent (controls): 0 Groestl-256, 1 Groestl-512, 2 Skein-256-256, 3 Skein-512-512
    Ctl { id: u8, msg: Vec<u8> },
    /// which Machine type the macro selects (0 dispatch!, 1 dispatch_light128!, 2 dispatch_light256!)
    Sel { mac: u8 },
}

struct VarInfo {
    name: &'static str,
    v: u8,
    drounds: u32,
    nonce_len: usize,
}
const VARS: [VarInfo; 3] = [
    VarInfo { name: "ChaCha20", v: 0, drounds: 10, nonce_len: 8 },
    VarInfo { name: "Ietf", v: 1, drounds: 10, nonce_len: 12 },
    VarInfo { name: "XChaCha8", v: 2, drounds: 4, nonce_len: 24 },
];

/// volume of the battery: 0 quick, 1 thorough, 2 mini (selection probes + `mini_battery` only)
#[derive(Clone, Copy, PartialEq, Eq)]
enum Vol {
    Quick,
    Thorough,
    Mini,
}
impl Vol {
    fn of(a: &Args) -> Vol {
        if a.u64("mini", 0) != 0 {
            Vol::Mini
        } else if a.u64("thorough", 0) != 0 {
            Vol::Thorough
        } else {
            Vol::Quick
        }
    }
    fn flag(self) -> [&'static str; 2] {
        match self {
            Vol::Quick => ["--thorough", "0"],
            Vol::Thorough => ["--thorough", "1"],
            Vol::Mini => ["--mini", "1"],
        }
    }
    fn name(self) -> &'static str {
        match self {
            Vol::Quick => "quick",
            Vol::Thorough => "thorough",
            Vol::Mini => "mini",
        }
    }
}

/// The small fixed subset every configuration runs (also the compile-time configurations and the
/// release profile in the quick tier). Own generator state: the same cases whatever follows.
/// One case per dispatch site and per class the seeded faults lived in:
///  * stream: buffered / narrow tail / wide(256) / wide+tail shapes; block counters next to every
///    half-word boundary of the two counter words (2^16, 2^31, 2^32 inside a wide refill, 2^48, 2^57)
///  * guts refill / refill4 at two counters (carry out of the low word, carry into the upper half-word of the high word)
///  * BLAKE-224/256/384/512 and JH-224/256/384/512 at a one-block and a two-final-blocks length
///  * F8 through Compressor (dispatch!) and through one directly instantiated Machine
fn mini_battery(bseed: u64) -> Vec<Inp> {
    let mut rng = Rng::new(bseed ^ 0xc03_0000_0031);
    let mut v = Vec::new();
    let b32 = 1u64 << 32;
    // (variant, pos, len)
    let shapes: &[(usize, u64, usize)] = &[
        (0, 0, 65),
        (1, 0, 257),
        (2, 17, 48),
        (0, 64 * 5 + 1, 63 + 256 + 64 + 5),
        (1, 64 * ((1 << 16) - 2) + 3, 300),   // low counter word: 0x0000ffff -> 0x00010000 inside a wide refill
        (1, 64 * ((1u64 << 31) - 2) + 9, 300), // low counter word gets its top bit (Ietf: 32-bit counter)
        (0, 64 * (b32 - 2), 300),              // carry out of the low counter word inside a wide refill
        (2, 64 * (b32 - 1) + 60, 70),          // the same carry on the narrow path (lazy refill, then one block)
        (2, 64 * ((1u64 << 48) - 3) + 5, 450), // high counter word carries into its upper half-word
        (0, 64 * ((1u64 << 57) - 2), 200),     // high counter word: 0x01ffffff -> 0x02000000
    ];
    for &(vi, pos, len) in shapes {
        let key = rng.bytes(32);
        let nonce = rng.bytes(VARS[vi].nonce_len);
        let data = rng.bytes(len);
        v.push(Inp::Stream { var: vi as u8, key, nonce, pos, data });
    }
    for (i, &ctr) in [0xffff_fffeu64, 0x0000_ffff_ffff_ffff].iter().enumerate() {
        for wide in [false, true] {
            let dr = [10u32, 4][(i + wide as usize) % 2];
            v.push(Inp::Refill { wide, key: rng.bytes(32), ctr, id: rng.word64(), dr });
        }
    }
    for &(bv, n) in &[(256u32, 55usize), (256, 65), (512, 111), (512, 129), (224, 56), (384, 240)] {
        v.push(Inp::Blake { v: bv, msg: rng.bytes(n) });
    }
    for &(jv, n) in &[(256u32, 55usize), (256, 64), (512, 1), (512, 119), (224, 56), (384, 65)] {
        v.push(Inp::Jh { v: jv, msg: rng.bytes(n) });
    }
    let mut s = vec![0u8; 128];
    let mut b = vec![0u8; 64];
    rng.fill(&mut s);
    rng.fill(&mut b);
    v.push(Inp::JhF8 { sel: 0, state: s.clone(), block: b.clone() });
    v.push(Inp::JhF8 { sel: 1 + (bseed % 4) as u8, state: s, block: b });
    v
}

fn battery(bseed: u64, vol: Vol) -> Vec<Inp> {
    let thorough = vol == Vol::Thorough;
    let mut rng = Rng::new(bseed ^ 0xc03);
    let mut v = Vec::new();
    for mac in 0..3 {
        v.push(Inp::Sel { mac });
    }
    v.extend(mini_battery(bseed));
    if vol == Vol::Mini {
        return v;
    }
    // --- ChaCha public API. Buffer::try_apply_keystream: buffered bytes first, then 256-byte
    // chunks through refill4 (dispatch!), then the tail block by block through refill
    // (dispatch_light128! + dispatch! refill_narrow_rounds). pos % 64 != 0 => lazy narrow refill.
    let shapes: &[(u64, usize)] = &[
        (0, 1),
        (0, 64),
        (0, 65),
        (0, 255),
        (0, 256),
        (0, 257),
        (17, 47),
        (17, 48),
        (64 * 3 + 63, 2),
        (64 * 5 + 1, 63 + 256 + 64 + 5),
        (0, 512 + 37),
        (1u64 << 32, 300),            // low counter word carries inside a wide refill
        (64 * ((1u64 << 32) - 2), 300), // 32-bit block counter boundary (djb / x: carry into word 1)
        (64 * ((1u64 << 31) - 2) + 9, 300), // low counter word gets its top bit
        (64 * ((1u64 << 48) - 3) + 5, 450), // high counter word carries into its upper half-word (blocks 2^48)
        (64 * ((1u64 << 57) - 2), 200),     // high counter word: 0x01ffffff -> 0x02000000
    ];
    for (vi, var) in VARS.iter().enumerate() {
        for (si, &(pos, len)) in shapes.iter().enumerate() {
            if !thorough && si % 3 != vi % 3 && si > 6 {
                continue; // quick: every variant gets the first seven shapes and a third of the rest
            }
            let mut pos = pos;
            if var.v == 1 && pos >= 64 * ((1u64 << 32) - 2) {
                pos = 64 * ((1u64 << 32) - 6) - (si as u64 % 4) * 64 * (1 << 16); // Ietf: stay inside the 2^32-block stream
            }
            let key = rng.bytes(32);
            let nonce = rng.bytes(var.nonce_len);
            let data = rng.bytes(len);
            v.push(Inp::Stream { var: vi as u8, key, nonce, pos, data });
        }
    }
    let extra = if thorough { 24 } else { 4 };
    for _ in 0..extra {
        let vi = rng.below(3) as usize;
        let len = match rng.below(4) {
            0 => rng.range(1, 63),
            1 => rng.range(64, 255),
            2 => rng.range(256, 600),
            _ => 256 * rng.range(1, 3) + rng.below(2) * rng.range(1, 70),
        } as usize;
        let pos = match rng.below(3) {
            0 => 0,
            1 => rng.below(1000),
            _ => 64 * rng.below(1 << 20) + rng.below(64),
        };
        let key = rng.bytes(32);
        let nonce = rng.bytes(VARS[vi].nonce_len);
        let data = rng.bytes(len);
        v.push(Inp::Stream { var: vi as u8, key, nonce, pos, data });
    }
    // --- guts block API
    let ctrs: &[u64] = &[0, 1, 0xffff_fffe, 0xffff_ffff, u64::MAX - 2, u64::MAX, 0x1234_5678_9abc_def0,
        // the increment changes both half-words of a counter word / sets a top bit
        0x0000_ffff_ffff_ffff, 0x1234_ffff_ffff_fffe, 0x7fff_ffff_ffff_ffff, 0x0000_0000_7fff_ffff, 0xfffe_ffff_ffff_fffd, 0x0000_0001_0000_ffff];
    for (i, &ctr) in ctrs.iter().enumerate() {
        for wide in [false, true] {
            if !thorough && (i + wide as usize) % 2 == 1 && i > 1 && i < 7 {
                continue;
            }
            let dr = [10u32, 4, 6, 0, 1, 10, 3, 10, 4, 6, 10, 1, 10][i];
            v.push(Inp::Refill { wide, key: rng.bytes(32), ctr, id: rng.word64(), dr });
        }
    }
    // --- BLAKE: every padding class (one / two final blocks, empty, exact blocks)
    let l64: &[usize] = &[0, 1, 54, 55, 56, 57, 63, 64, 65, 119, 120, 128, 183, 200];
    let l128: &[usize] = &[0, 1, 110, 111, 112, 113, 127, 128, 129, 239, 240, 256, 367, 400];
    for &bv in &[224u32, 256, 384, 512] {
        let ls = if bv <= 256 { l64 } else { l128 };
        for (i, &n) in ls.iter().enumerate() {
            if !thorough && i >= 7 && (i + (bv as usize / 32) + bseed as usize % 2) % 2 == 1 {
                continue;
            }
            v.push(Inp::Blake { v: bv, msg: rng.bytes(n) });
        }
    }
    // --- JH digests (64-byte blocks, padding adds one or two blocks)
    let lj: &[usize] = &[0, 1, 55, 56, 63, 64, 65, 119, 128, 191];
    for &jv in &[256u32, 512, 224, 384] {
        for (i, &n) in lj.iter().enumerate() {
            if jv % 256 != 0 && !thorough && i % 3 != (bseed as usize + jv as usize / 32) % 3 {
                continue; // JH-224/384 (same code, other IV / truncation): a third of the lengths in quick
            }
            if !thorough && i % 2 == (jv as usize / 256 + bseed as usize) % 2 && i > 1 {
                continue;
            }
            v.push(Inp::Jh { v: jv, msg: rng.bytes(n) });
        }
    }
    // --- F8 directly: structured + random state/block, on every selector
    let mut f8in: Vec<(Vec<u8>, Vec<u8>)> = vec![
        (vec![0u8; 128], vec![0u8; 64]),
        (vec![0xff; 128], vec![0xff; 64]),
        ((0..128).map(|i| i as u8).collect(), (0..64).map(|i| (128 + i) as u8).collect()),
    ];
    // walking one in the state / in the block
    let mut s = vec![0u8; 128];
    let bit = rng.below(1024) as usize;
    s[bit / 8] = 1 << (bit % 8);
    f8in.push((s, vec![0u8; 64]));
    let mut b = vec![0u8; 64];
    let bit = rng.below(512) as usize;
    b[bit / 8] = 1 << (bit % 8);
    f8in.push((vec![0u8; 128], b));
    for _ in 0..(if thorough { 6 } else { 1 }) {
        let mut s = vec![0u8; 128];
        let mut b = vec![0u8; 64];
        rng.fill(&mut s);
        rng.fill(&mut b);
        f8in.push((s, b));
    }
    for (i, (s, b)) in f8in.iter().enumerate() {
        for sel in 0..5u8 {
            if !thorough && sel != 0 && (i + sel as usize) % 2 == 1 {
                continue;
            }
            v.push(Inp::JhF8 { sel, state: s.clone(), block: b.clone() });
        }
    }
    // --- controls
    for id in 0..4u8 {
        for &n in &[0usize, 1, 64, 200] {
            if !thorough && (n == 1 || n == 200) && id % 2 == 0 {
                continue;
            }
            v.push(Inp::Ctl { id, msg: rng.bytes(n) });
        }
    }
    v
}

// ---------------------------------------------------------------------------------------------
// running one case on the implementation
// ---------------------------------------------------------------------------------------------
/// (res, out, aux): res 0 ok / 1 err / 2 panic; aux = values compared only across configurations
struct Outp {
    res: u8,
    out: Vec<u8>,
    aux: Vec<u8>,
}

fn stream_case(var: u8, key: &[u8], nonce: &[u8], pos: u64, data: &[u8]) -> (u8, Vec<u8>, Vec<u8>) {
    macro_rules! go {
        ($t:ident) => {{
            let mut c = $t::new(GenericArray::from_slice(key), GenericArray::from_slice(nonce));
            if c.try_seek(pos).is_err() {
                return (1, vec![], vec![]);
            }
            let mut d = data.to_vec();
            let r = c.try_apply_keystream(&mut d);
            let p: Result<u64, _> = c.try_current_pos();
            let aux = match p {
                Ok(p) => p.to_le_bytes().to_vec(),
                Err(_) => vec![0xee],
            };
            (if r.is_ok() { 0 } else { 1 }, d, aux)
        }};
    }
    match var {
        0 => go!(ChaCha20),
        1 => go!(Ietf),
        _ => go!(XChaCha8),
    }
}

fn state_d(s: &ChaCha) -> [u32; 4] {
    let p0 = s.get_stream_param(0);
    let p1 = s.get_stream_param(1);
    [p0 as u32, (p0 >> 32) as u32, p1 as u32, (p1 >> 32) as u32]
}
fn d_bytes(d: &[u32; 4]) -> Vec<u8> {
    d.iter().flat_map(|w| w.to_le_bytes()).collect()
}
fn refill_state(key: &[u8], ctr: u64, id: u64) -> ChaCha {
    let mut k = [0u8; 32];
    k.copy_from_slice(key);
    let mut s = ChaCha::new(&k, &[0u8; 8]);
    s.set_stream_param(1, id);
    s.set_stream_param(0, ctr);
    s
}

fn to_storage(st: &[u8]) -> [vec128_storage; 8] {
    let mut s = [vec128_storage::default(); 8];
    for i in 0..8 {
        let mut w = [0u32; 4];
        for j in 0..4 {
            let mut b = [0u8; 4];
            b.copy_from_slice(&st[16 * i + 4 * j..16 * i + 4 * j + 4]);
            w[j] = u32::from_le_bytes(b);
        }
        s[i] = vec128_storage::from(w);
    }
    s
}
fn from_storage(s: &[vec128_storage; 8]) -> Vec<u8> {
    let mut v = Vec::with_capacity(128);
    for x in s.iter() {
        let w: [u32; 4] = (*x).into();
        for y in w.iter() {
            v.extend_from_slice(&y.to_le_bytes());
        }
    }
    v
}

#[cfg(not(feature = "no_simd"))]
mod direct {
    use super::*;
    use jh_x86_64::simd::x86_64::{AVX2, SSE2, SSE41, SSSE3};
    use jh_x86_64::simd::Machine;
    #[target_feature(enable = "sse2")]
    unsafe fn f8_sse2(s: &mut [vec128_storage; 8], d: *const u8) {
        f8_impl(SSE2::instance(), s, d)
    }
    #[target_feature(enable = "ssse3")]
    unsafe fn f8_ssse3(s: &mut [vec128_storage; 8], d: *const u8) {
        f8_impl(SSSE3::instance(), s, d)
    }
    #[target_feature(enable = "sse4.1")]
    unsafe fn f8_sse41(s: &mut [vec128_storage; 8], d: *const u8) {
        f8_impl(SSE41::instance(), s, d)
    }
    #[target_feature(enable = "avx2")]
    unsafe fn f8_avx2(s: &mut [vec128_storage; 8], d: *const u8) {
        f8_impl(AVX2::instance(), s, d)
    }
    pub fn f8(sel: u8, s: &mut [vec128_storage; 8], p: *const u8) {
        unsafe {
            match sel {
                1 => f8_sse2(s, p),
                2 => f8_ssse3(s, p),
                3 => f8_sse41(s, p),
                _ => f8_avx2(s, p),
            }
        }
    }
}
#[cfg(feature = "no_simd")]
mod direct {
    use super::*;
    use jh_x86_64::simd::generic::GenericMachine;
    use jh_x86_64::simd::Machine;
    pub fn f8(_sel: u8, s: &mut [vec128_storage; 8], p: *const u8) {
        f8_impl(unsafe { GenericMachine::instance() }, s, p)
    }
}

fn ctl_digest(id: u8, msg: &[u8]) -> Vec<u8> {
    use digest::generic_array::typenum::{U32, U64};
    match id {
        0 => groestl_aesni::Groestl256::digest(msg).to_vec(),
        1 => groestl_aesni::Groestl512::digest(msg).to_vec(),
        2 => skein_hash::Skein256::<U32>::digest(msg).to_vec(),
        _ => skein_hash::Skein512::<U64>::digest(msg).to_vec(),
    }
}

fn run_case(inp: &Inp) -> Outp {
    let r = catch_unwind(AssertUnwindSafe(|| match inp {
        Inp::Stream { var, key, nonce, pos, data } => stream_case(*var, key, nonce, *pos, data),
        Inp::Refill { wide, key, ctr, id, dr } => {
            let mut s = refill_state(key, *ctr, *id);
            let out = if *wide {
                let mut b = [0u8; 256];
                s.refill4(*dr, &mut b);
                b.to_vec()
            } else {
                let mut b = [0u8; 64];
                s.refill(*dr, &mut b);
                b.to_vec()
            };
            // aux = d words after (compared with the model) ++ the NEXT narrow block (compared across
            // configurations only): the key rows b, c are not readable, a back end that clobbers
            // them shows in what the object produces next
            let mut aux = d_bytes(&state_d(&s));
            let mut nb = [0x5au8; 64];
            s.refill(*dr, &mut nb);
            aux.extend_from_slice(&nb);
            (0, out, aux)
        }
        Inp::Blake { v, msg } => (
            0,
            match v {
                224 => blake_hash::Blake224::digest(msg).to_vec(),
                256 => blake_hash::Blake256::digest(msg).to_vec(),
                384 => blake_hash::Blake384::digest(msg).to_vec(),
                _ => blake_hash::Blake512::digest(msg).to_vec(),
            },
            vec![],
        ),
        Inp::Jh { v, msg } => (
            0,
            match v {
                224 => jh_x86_64::Jh224::digest(msg).to_vec(),
                256 => jh_x86_64::Jh256::digest(msg).to_vec(),
                384 => jh_x86_64::Jh384::digest(msg).to_vec(),
                _ => jh_x86_64::Jh512::digest(msg).to_vec(),
            },
            vec![],
        ),
        Inp::JhF8 { sel, state, block } => {
            if *sel == 0 {
                let mut a = [0u8; 128];
                a.copy_from_slice(state);
                let mut c = Compressor::new(a);
                c.input(digest::generic_array::GenericArray::from_slice(block));
                (0, c.finalize().to_vec(), vec![])
            } else {
                // the block sits at an odd address: read_unaligned must not care
                let mut blk = vec![0u8; 65];
                blk[1..].copy_from_slice(block);
                let mut s = to_storage(state);
                direct::f8(*sel, &mut s, blk[1..].as_ptr());
                (0, from_storage(&s), vec![])
            }
        }
        Inp::Ctl { id, msg } => (0, ctl_digest(*id, msg), vec![]),
        Inp::Sel { mac } => {
            let name = probe::selected(*mac);
            (0, vec![type_code(name)], name.as_bytes().to_vec())
        }
    }));
    match r {
        Ok((res, out, aux)) => Outp { res, out, aux },
        Err(_) => Outp { res: 2, out: vec![], aux: vec![] },
    }
}

// ---------------------------------------------------------------------------------------------
// child / parent
// ---------------------------------------------------------------------------------------------
fn unhex(s: &str) -> Vec<u8> {
    (0..s.len() / 2).map(|i| u8::from_str_radix(&s[2 * i..2 * i + 2], 16).unwrap()).collect()
}

fn run_child(a: &Args) {
    std::panic::set_hook(Box::new(|_| {}));
    let bseed = a.u64("bseed", 1);
    let level = a.u64("level", 0) as u8;
    let from = a.u64("from", 0) as usize;
    let vol = Vol::of(a);
    set_level(level);
    let cases = battery(bseed, vol);
    let so = std::io::stdout();
    for (i, c) in cases.iter().enumerate().skip(from) {
        {
            let mut o = so.lock();
            writeln!(o, "begin {}", i).unwrap();
            o.flush().unwrap();
        }
        let r = run_case(c);
        let mut o = so.lock();
        writeln!(o, "done {} {} x{} x{}", i, r.res, hex(&r.out), hex(&r.aux)).unwrap();
        o.flush().unwrap();
    }
}

fn collect(bseed: u64, level: u8, vol: Vol, n: usize) -> (Vec<Outp>, Vec<String>) {
    let exe = std::env::current_exe().unwrap();
    let mut res: Vec<Outp> = Vec::with_capacity(n);
    let mut faults = Vec::new();
    let mut from = 0usize;
    let mut spawns = 0;
    while from < n {
        spawns += 1;
        assert!(spawns <= n + 1);
        let mut ch = std::process::Command::new(&exe)
            .args(["child", "--bseed", &bseed.to_string(), "--level", &level.to_string(), "--from", &from.to_string(), vol.flag()[0], vol.flag()[1]])
            .stdout(std::process::Stdio::piped())
            .stderr(std::process::Stdio::piped())
            .spawn()
            .expect("spawn child");
        let rd = std::io::BufReader::new(ch.stdout.take().unwrap());
        let mut begun: Option<usize> = None;
        for line in rd.lines() {
            let line = match line {
                Ok(l) => l,
                Err(_) => break,
            };
            let f: Vec<&str> = line.split(' ').collect();
            if f[0] == "begin" {
                begun = Some(f[1].parse().unwrap());
            } else if f[0] == "done" {
                let i: usize = f[1].parse().unwrap();
                assert_eq!(i, res.len());
                res.push(Outp { res: f[2].parse().unwrap(), out: unhex(&f[3][1..]), aux: unhex(&f[4][1..]) });
                begun = None;
            }
        }
        let st = ch.wait().unwrap();
        if res.len() >= n {
            break;
        }
        // the child died before finishing: attribute the death to the case it had begun
        use std::os::unix::process::ExitStatusExt;
        let why = match st.signal() {
            Some(s) => format!("signal {}", s),
            None => format!("exit {}", st.code().unwrap_or(-1)),
        };
        let at = begun.unwrap_or(res.len());
        assert_eq!(at, res.len());
        faults.push(format!("case {}: child died ({})", at, why));
        res.push(Outp { res: 3, out: vec![], aux: why.into_bytes() });
        from = res.len();
    }
    (res, faults)
}

fn blist(b: bool) -> &'static str {
    if b {
        "true"
    } else {
        "false"
    }
}
fn dlist(d: &[u8]) -> String {
    let w: Vec<String> = d.chunks(4).map(|c| nlit_u64(u32::from_le_bytes([c[0], c[1], c[2], c[3]]) as u64)).collect();
    format!("[{}]", w.join("; "))
}

fn run_battery(a: &Args) {
    let bseed = a.u64("bseed", 1);
    let level = a.u64("level", 0) as u8;
    let shards = a.u64("shards", 16) as usize;
    let out = a.str("out", "/tmp/c03");
    let vol = Vol::of(a);
    let cases = battery(bseed, vol);
    let nmini = 3 + mini_battery(bseed).len();
    let (res, faults) = collect(bseed, level, vol, cases.len());
    let host = host_mask();
    let mut coq = Vec::new();
    let mut js = Vec::new();
    let mut distinct = HashSet::new();
    let mut kinds = std::collections::BTreeMap::new();
    let mut variants: std::collections::BTreeMap<String, usize> = std::collections::BTreeMap::new();
    let mut outcomes = [0usize; 4];
    let mut selected = Vec::new();
    for (i, (c, r)) in cases.iter().zip(res.iter()).enumerate() {
        outcomes[r.res as usize] += 1;
        let (kind, input, term, nontrivial): (&str, String, String, bool) = match c {
            Inp::Stream { var, key, nonce, pos, data } => {
                let vi = &VARS[*var as usize];
                (
                    "stream",
                    format!("{{\"variant\":\"{}\",\"key\":{},\"nonce\":{},\"pos\":\"{}\",\"data\":{}}}", vi.name, jstr(&hex(key)), jstr(&hex(nonce)), pos, jstr(&hex(data))),
                    format!("DStream {} {} {} {} {} {} {} {} {} {}", vi.v, vi.drounds, nlit(key), nonce.len(), nlit(nonce), nlit_u64(*pos), data.len(), nlit(data), r.res, nlit(&r.out)),
                    !data.is_empty(),
                )
            }
            Inp::Refill { wide, key, ctr, id, dr } => {
                let d0 = [*ctr as u32, (*ctr >> 32) as u32, *id as u32, (*id >> 32) as u32];
                (
                    if *wide { "refill4" } else { "refill" },
                    format!("{{\"key\":{},\"counter\":\"{}\",\"stream_id\":\"{}\",\"drounds\":{}}}", jstr(&hex(key)), ctr, id, dr),
                    format!("DRefill {} {} {} {} {} {} {}", blist(*wide), nlit(key), dlist(&d_bytes(&d0)), dr, r.res, nlit(&r.out),
                        if r.aux.len() >= 16 { dlist(&r.aux[..16]) } else { "[]".to_string() }),
                    true,
                )
            }
            Inp::Blake { v, msg } => (
                "blake",
                format!("{{\"variant\":{},\"len\":{},\"msg\":{}}}", v, msg.len(), jstr(&hex(msg))),
                format!("DBlake {} {} {} {} {}", v, msg.len(), nlit(msg), r.res, nlit(&r.out)),
                true,
            ),
            Inp::Jh { v, msg } => (
                "jh",
                format!("{{\"variant\":{},\"len\":{},\"msg\":{}}}", v, msg.len(), jstr(&hex(msg))),
                format!("DJh {} {} {} {} {}", v, msg.len(), nlit(msg), r.res, nlit(&r.out)),
                true,
            ),
            Inp::JhF8 { sel, state, block } => (
                "jh_f8",
                format!("{{\"selector\":{},\"state\":{},\"block\":{}}}", sel, jstr(&hex(state)), jstr(&hex(block))),
                format!("DJhF8 {} {} {} {}", nlit(state), nlit(block), r.res, nlit(&r.out)),
                true,
            ),
            Inp::Ctl { id, msg } => (
                "control",
                format!("{{\"hash\":\"{}\",\"len\":{},\"msg\":{}}}", ["Groestl256", "Groestl512", "Skein256-256", "Skein512-512"][*id as usize], msg.len(), jstr(&hex(msg))),
                format!("DCtl {}", r.res),
                true,
            ),
            Inp::Sel { mac } => {
                let name = String::from_utf8_lossy(&r.aux).to_string();
                selected.push(format!("\"{}\":{}", ["dispatch", "dispatch_light128", "dispatch_light256"][*mac as usize], jstr(&name)));
                (
                    "selection",
                    format!("{{\"macro\":{}}}", mac),
                    format!("DSel {} {} {} {} {} {} {} {}", mac, blist(STD), blist(NO_SIMD), level, host, tf_mask(), r.res, r.out.first().copied().unwrap_or(9)),
                    true,
                )
            }
        };
        *kinds.entry(kind).or_insert(0usize) += 1;
        match c {
            Inp::Blake { v, .. } => *variants.entry(format!("blake{}", v)).or_insert(0usize) += 1,
            Inp::Jh { v, .. } => *variants.entry(format!("jh{}", v)).or_insert(0usize) += 1,
            Inp::Stream { var, pos, data, .. } => {
                *variants.entry(VARS[*var as usize].name.to_string()).or_insert(0usize) += 1;
                // counter-word boundary crossed by this apply (first..last block)
                let (b0, b1) = (pos / 64, (pos + data.len() as u64 - 1) / 64);
                for sh in [16u32, 31, 32, 48, 57] {
                    if (b0 >> sh) != (b1 >> sh) {
                        *variants.entry(format!("stream_crosses_block_2^{}", sh)).or_insert(0usize) += 1;
                    }
                }
            }
            _ => {}
        }
        if nontrivial {
            distinct.insert((kind, input.clone()));
        }
        coq.push(term);
        js.push(format!(
            "{{\"index\":{},\"kind\":\"{}\",\"input\":{},\"res\":\"{}\",\"out\":{},\"aux\":{}}}",
            i, kind, input, ["ok", "err", "panic", "fault"][r.res as usize], jstr(&hex(&r.out)),
            if *kind == *"selection" || r.res == 3 { jstr(&String::from_utf8_lossy(&r.aux)) } else { jstr(&hex(&r.aux)) }
        ));
    }
    write_shards(&out, shards, "From Coq Require Import NArith ZArith List.\nFrom CC Require Import Run.Runner Run.Dispatch.", "dcase", "run_c03", &coq);
    std::fs::write(format!("{}/cases.json", out), format!("[{}]", js.join(",\n"))).unwrap();
    let kd: Vec<String> = kinds.iter().map(|(k, v)| format!("\"{}\":{}", k, v)).collect();
    // a fault or panic on a valid input is reported directly (the battery has only valid inputs)
    let direct: Vec<String> = res
        .iter()
        .enumerate()
        .filter(|(_, r)| r.res >= 2)
        .take(5)
        .map(|(i, r)| format!("{{\"what\":\"{} on a valid input\",\"case\":{}}}", if r.res == 2 { "panic" } else { "fault" }, js[i]))
        .collect();
    let vd: Vec<String> = variants.iter().map(|(k, v)| format!("\"{}\":{}", k, v)).collect();
    println!(
        "{{\"evaluations\":{},\"distinct_nontrivial\":{},\"battery\":\"{}\",\"mini_prefix_cases\":{},\"classes\":{{{}}},\"kinds\":{{{}}},\"outcomes\":{{\"ok\":{},\"err\":{},\"panic\":{},\"fault\":{}}},\"build\":{{\"std\":{},\"no_simd\":{},\"target_feature_mask\":{},\"target_feature_level\":{}}},\"forced_level\":{},\"host_feature_mask\":{},\"selected\":{{{}}},\"child_deaths\":[{}],\"direct_failures\":[{}],\"samples\":[{}]}}",
        cases.len(), distinct.len(), vol.name(), nmini, vd.join(","), kd.join(","), outcomes[0], outcomes[1], outcomes[2], outcomes[3],
        STD, NO_SIMD, tf_mask(), tf_level(), level, host, selected.join(","),
        faults.iter().map(|f| jstr(f)).collect::<Vec<_>>().join(","), direct.join(","),
        js.iter().skip(3).take(2).cloned().collect::<Vec<_>>().join(",")
    );
}

fn main() {
    let argv: Vec<String> = std::env::args().collect();
    let sub = argv.get(1).map(|s| s.as_str()).unwrap_or("");
    let args = Args::parse(&argv[2.min(argv.len())..]);
    match sub {
        "battery" => run_battery(&args),
        "child" => run_child(&args),
        _ => {
            eprintln!("usage: h_dispatch battery|child --bseed B --level L ...");
            std::process::exit(2);
        }
    }
}
