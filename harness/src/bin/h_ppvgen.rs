#![allow(dead_code, non_camel_case_types, clippy::all)]
//! C12 / C13, portable back end of ppv-lite86 (cargo feature `no_simd`):
//! every trait method of every vector type of `GenericMachine`, called through
//! functions generic over `M: Machine` (what the Machine trait bounds expose),
//! plus the methods the concrete portable types implement beyond those bounds
//! ("extras", called on `<GenericMachine as Machine>::…` directly).
//!
//! A vector value is written as its byte image: words in lane order, each
//! word little-endian. Operands are built with `Machine::vec`/`from_lanes`
//! from scalar words and results are read back with `to_lanes`.
//!
//! sub-commands: `c12` (word-wise operations), `c13` (data movement), `repro`.
#[path = "../util.rs"]
mod util;
use util::*;

#[cfg(not(feature = "no_simd"))]
compile_error!("h_ppvgen must be built with the harness feature `no_simd`");

use ppv_lite86::generic::GenericMachine;
use ppv_lite86::*;
use std::collections::HashSet;
use std::panic::{catch_unwind, AssertUnwindSafe};

type GM = GenericMachine;

// ---------------------------------------------------------------------------
// cases
// ---------------------------------------------------------------------------
struct Case {
    ty: u32,
    op: u32,
    k: u32,
    a: Vec<u8>,
    b: Vec<u8>,
    x: Vec<u8>,
    ok: bool,
    r: Vec<u8>,
}

impl Case {
    fn coq(&self) -> String {
        format!(
            "PG {} {} {} {} {} {} {} {} {} {} {}",
            if cfg!(debug_assertions) { "Debug" } else { "Release" },
            self.ty,
            self.op,
            self.k,
            self.a.len(),
            nlit(&self.a),
            nlit(&self.b),
            nlit(&self.x),
            if self.ok { "true" } else { "false" },
            self.r.len(),
            nlit(&self.r)
        )
    }
    fn json(&self) -> String {
        format!(
            "{{\"type\":{},\"op\":{},\"k\":{},\"a\":{},\"b\":{},\"x\":{},\"outcome\":{},\"result\":{}}}",
            jstr(ty_name(self.ty)),
            jstr(&op_name(self.op, self.k)),
            self.k,
            jstr(&hex(&self.a)),
            jstr(&hex(&self.b)),
            jstr(&hex(&self.x)),
            jstr(if self.ok { "ok" } else { "panic" }),
            jstr(&hex(&self.r))
        )
    }
}

fn ty_name(t: u32) -> &'static str {
    [
        "u32x4", "u64x2", "u128x1", "u32x4x2", "u64x2x2", "u64x4", "u128x2", "u32x4x4", "u64x2x4", "u128x4",
        "vec128_storage", "vec256_storage", "vec512_storage",
    ][t as usize]
}
fn op_name(op: u32, k: u32) -> String {
    match op {
        1 => "add".into(),
        2 => "add_assign".into(),
        3 => "bitxor".into(),
        4 => "bitand".into(),
        5 => "bitor".into(),
        6 => "not".into(),
        7 => "andnot".into(),
        8 => "bitxor_assign".into(),
        9 => "bitand_assign".into(),
        10 => "bitor_assign".into(),
        20 => format!("rotate_each_word_right{}", k),
        21 => format!("swap{}", k),
        22 => "bswap".into(),
        23 => format!("shuffle{}", k),
        24 => format!("shuffle_lane_words{}", k),
        30 => "from_lanes/to_lanes".into(),
        31 => format!("extract({})", k),
        32 => format!("insert(x,{})", k),
        33 => format!("unpack(storage built via view {})", k),
        34 => format!("into storage, read via view {}", k),
        35 => format!("storage reinterpretation {}", k),
        36 => "storage default".into(),
        37 => "storage eq".into(),
        47 => "unsafe_from(lanes), to_lanes".into(),
        38 => format!("extract lane ({}) [Vec2 of u64x4]", k),
        39 => format!("insert lane (x,{}) [Vec2 of u64x4]", k),
        40 => "read_le".into(),
        41 => "read_be".into(),
        42 => format!("write_le(out len {})", k),
        43 => format!("write_be(out len {})", k),
        50 => "transpose4".into(),
        51 => "to_scalars".into(),
        _ => format!("op{}", op),
    }
}

struct Cx {
    cases: Vec<Case>,
    distinct: HashSet<(u32, u32, u32, Vec<u8>, Vec<u8>, Vec<u8>)>,
    per_type: [usize; 13],
    panics: usize,
}
impl Cx {
    fn new() -> Self {
        Cx { cases: Vec::new(), distinct: HashSet::new(), per_type: [0; 13], panics: 0 }
    }
    fn push(&mut self, ty: u32, op: u32, k: u32, a: &[u8], b: &[u8], x: &[u8], r: Option<Vec<u8>>) {
        let nontrivial = a.iter().chain(b.iter()).chain(x.iter()).any(|&v| v != 0);
        if nontrivial {
            self.distinct.insert((ty, op, k, a.to_vec(), b.to_vec(), x.to_vec()));
        }
        self.per_type[ty as usize] += 1;
        if r.is_none() {
            self.panics += 1;
        }
        self.cases.push(Case {
            ty,
            op,
            k,
            a: a.to_vec(),
            b: b.to_vec(),
            x: x.to_vec(),
            ok: r.is_some(),
            r: r.unwrap_or_default(),
        });
    }
}

fn guard<F: FnOnce() -> Vec<u8>>(f: F) -> Option<Vec<u8>> {
    catch_unwind(AssertUnwindSafe(f)).ok()
}

// ---------------------------------------------------------------------------
// building / reading vectors through the public API (Machine::vec, to_lanes)
// ---------------------------------------------------------------------------
fn w32(b: &[u8]) -> u32 {
    u32::from_le_bytes([b[0], b[1], b[2], b[3]])
}
fn w64(b: &[u8]) -> u64 {
    let mut t = [0u8; 8];
    t.copy_from_slice(&b[..8]);
    u64::from_le_bytes(t)
}
fn w128(b: &[u8]) -> u128 {
    let mut t = [0u8; 16];
    t.copy_from_slice(&b[..16]);
    u128::from_le_bytes(t)
}
fn d4(b: &[u8]) -> [u32; 4] {
    [w32(&b[0..]), w32(&b[4..]), w32(&b[8..]), w32(&b[12..])]
}
fn q2(b: &[u8]) -> [u64; 2] {
    [w64(&b[0..]), w64(&b[8..])]
}
fn q4(b: &[u8]) -> [u64; 4] {
    [w64(&b[0..]), w64(&b[8..]), w64(&b[16..]), w64(&b[24..])]
}
fn bytes32(ws: &[u32]) -> Vec<u8> {
    ws.iter().flat_map(|w| w.to_le_bytes()).collect()
}
fn bytes64(ws: &[u64]) -> Vec<u8> {
    ws.iter().flat_map(|w| w.to_le_bytes()).collect()
}
fn bytes128(ws: &[u128]) -> Vec<u8> {
    ws.iter().flat_map(|w| w.to_le_bytes()).collect()
}

fn mk_u32x4<M: Machine>(m: M, b: &[u8]) -> M::u32x4 {
    m.vec(d4(b))
}
fn rd_u32x4<M: Machine>(v: M::u32x4) -> Vec<u8> {
    let l: [u32; 4] = v.to_lanes();
    bytes32(&l)
}
fn mk_u64x2<M: Machine>(m: M, b: &[u8]) -> M::u64x2 {
    m.vec(q2(b))
}
fn rd_u64x2<M: Machine>(v: M::u64x2) -> Vec<u8> {
    let l: [u64; 2] = v.to_lanes();
    bytes64(&l)
}
fn mk_u128x1<M: Machine>(m: M, b: &[u8]) -> M::u128x1 {
    m.vec([w128(b)])
}
fn rd_u128x1<M: Machine>(v: M::u128x1) -> Vec<u8> {
    let l: [u128; 1] = v.to_lanes();
    bytes128(&l)
}
fn mk_u32x4x2<M: Machine>(m: M, b: &[u8]) -> M::u32x4x2 {
    m.vec([mk_u32x4(m, &b[0..16]), mk_u32x4(m, &b[16..32])])
}
fn rd_u32x4x2<M: Machine>(v: M::u32x4x2) -> Vec<u8> {
    let l: [M::u32x4; 2] = v.to_lanes();
    [rd_u32x4::<M>(l[0]), rd_u32x4::<M>(l[1])].concat()
}
fn mk_u64x2x2<M: Machine>(m: M, b: &[u8]) -> M::u64x2x2 {
    m.vec([mk_u64x2(m, &b[0..16]), mk_u64x2(m, &b[16..32])])
}
fn rd_u64x2x2<M: Machine>(v: M::u64x2x2) -> Vec<u8> {
    let l: [M::u64x2; 2] = v.to_lanes();
    [rd_u64x2::<M>(l[0]), rd_u64x2::<M>(l[1])].concat()
}
fn mk_u64x4<M: Machine>(m: M, b: &[u8]) -> M::u64x4 {
    m.vec(q4(b))
}
fn rd_u64x4<M: Machine>(v: M::u64x4) -> Vec<u8> {
    let l: [u64; 4] = v.to_lanes();
    bytes64(&l)
}
fn mk_u128x2<M: Machine>(m: M, b: &[u8]) -> M::u128x2 {
    m.vec([mk_u128x1(m, &b[0..16]), mk_u128x1(m, &b[16..32])])
}
fn rd_u128x2<M: Machine>(v: M::u128x2) -> Vec<u8> {
    let l: [M::u128x1; 2] = v.to_lanes();
    [rd_u128x1::<M>(l[0]), rd_u128x1::<M>(l[1])].concat()
}
fn mk_u32x4x4<M: Machine>(m: M, b: &[u8]) -> M::u32x4x4 {
    m.vec([mk_u32x4(m, &b[0..16]), mk_u32x4(m, &b[16..32]), mk_u32x4(m, &b[32..48]), mk_u32x4(m, &b[48..64])])
}
fn rd_u32x4x4<M: Machine>(v: M::u32x4x4) -> Vec<u8> {
    let l: [M::u32x4; 4] = v.to_lanes();
    l.iter().flat_map(|x| rd_u32x4::<M>(*x)).collect()
}
fn mk_u64x2x4<M: Machine>(m: M, b: &[u8]) -> M::u64x2x4 {
    m.vec([mk_u64x2(m, &b[0..16]), mk_u64x2(m, &b[16..32]), mk_u64x2(m, &b[32..48]), mk_u64x2(m, &b[48..64])])
}
fn rd_u64x2x4<M: Machine>(v: M::u64x2x4) -> Vec<u8> {
    let l: [M::u64x2; 4] = v.to_lanes();
    l.iter().flat_map(|x| rd_u64x2::<M>(*x)).collect()
}
fn mk_u128x4<M: Machine>(m: M, b: &[u8]) -> M::u128x4 {
    m.vec([mk_u128x1(m, &b[0..16]), mk_u128x1(m, &b[16..32]), mk_u128x1(m, &b[32..48]), mk_u128x1(m, &b[48..64])])
}
fn rd_u128x4<M: Machine>(v: M::u128x4) -> Vec<u8> {
    let l: [M::u128x1; 4] = v.to_lanes();
    l.iter().flat_map(|x| rd_u128x1::<M>(*x)).collect()
}

// ---------------------------------------------------------------------------
// operand streams
// ---------------------------------------------------------------------------
struct Gen {
    rng: Rng,
    quick: bool,
    /// `--light 1` (quick tier, second build profile): thinner walking-one streams; the operand
    /// classes are the same, the profile only decides whether the constant-amount shifts are checked
    light: bool,
    nrand: usize,
}
impl Gen {
    /// walking-one positions: every bit (exhaustive basis) for 128-bit types and in the
    /// thorough tier; every 7th bit (7 is coprime to 8: all bit-in-byte positions) otherwise
    fn walk_bits(&self, n: usize) -> Vec<usize> {
        let stride = if self.light {
            if n > 16 { 13 } else { 3 }
        } else if self.quick && n > 16 {
            7
        } else {
            1
        };
        (0..8 * n).filter(|j| j % stride == 0).collect()
    }
    /// sparser walk for operations that are not linear in the walked operand (binary operations,
    /// element access): quick tier every 5th / 11th bit (coprime to 8), thorough tier every bit
    fn walk_bits_sparse(&self, n: usize) -> Vec<usize> {
        let stride = if self.light {
            if n > 16 { 23 } else { 11 }
        } else if !self.quick {
            1
        } else if n > 16 {
            11
        } else {
            5
        };
        (0..8 * n).filter(|j| j % stride == 0).collect()
    }
    fn unary(&mut self, n: usize) -> Vec<Vec<u8>> {
        let mut v: Vec<Vec<u8>> = Vec::new();
        v.push(vec![0u8; n]);
        v.push(vec![0xffu8; n]);
        v.push((0..n).map(|i| i as u8).collect());
        v.push((0..n).map(|i| 0x80 | (i as u8)).collect());
        v.push((0..n).map(|i| if i % 4 == 3 { 0x7f } else { 0xff }).collect());
        v.push((0..n).map(|i| if i % 8 == 7 { 0x80 } else { 0x00 }).collect());
        for _ in 0..self.nrand {
            let mut b = vec![0u8; n];
            self.rng.fill(&mut b);
            v.push(b);
        }
        for j in self.walk_bits(n) {
            let mut b = vec![0u8; n];
            b[j / 8] = 1 << (j % 8);
            v.push(b);
        }
        v
    }
    fn binary(&mut self, n: usize) -> Vec<(Vec<u8>, Vec<u8>)> {
        let mut v: Vec<(Vec<u8>, Vec<u8>)> = Vec::new();
        let zero = vec![0u8; n];
        let ones = vec![0xffu8; n];
        let idx: Vec<u8> = (0..n).map(|i| i as u8).collect();
        let mut r1 = vec![0u8; n];
        self.rng.fill(&mut r1);
        let one32: Vec<u8> = (0..n).map(|i| if i % 4 == 0 { 1 } else { 0 }).collect();
        let one64: Vec<u8> = (0..n).map(|i| if i % 8 == 0 { 1 } else { 0 }).collect();
        let one128: Vec<u8> = (0..n).map(|i| if i % 16 == 0 { 1 } else { 0 }).collect();
        let hi32: Vec<u8> = (0..n).map(|i| if i % 4 == 3 { 0x80 } else { 0 }).collect();
        for p in [
            (&zero, &zero),
            (&ones, &ones),
            (&ones, &zero),
            (&zero, &ones),
            (&ones, &one32),
            (&ones, &one64),
            (&ones, &one128),
            (&one128, &ones),
            (&hi32, &hi32),
            (&idx, &ones),
            (&idx, &r1),
            (&r1, &idx),
            (&r1, &r1),
            // rhs lanes all different and the result IS the rhs (& with all-ones; |, ^, + with zero; and
            // their assign forms): a lane of a wide type taken from the wrong rhs lane shows on one case
            (&ones, &idx),
            (&zero, &idx),
        ] {
            v.push((p.0.clone(), p.1.clone()));
        }
        // carry chains: low part all ones up to bit j, plus one
        for j in [7usize, 8, 15, 16, 31, 32, 33, 63, 64, 65, 95, 96, 127] {
            let mut a = vec![0u8; n];
            for c in a.chunks_mut(16) {
                for t in 0..j {
                    c[t / 8] |= 1 << (t % 8);
                }
            }
            v.push((a.clone(), one128.clone()));
            v.push((one128.clone(), a));
        }
        for _ in 0..self.nrand {
            let mut a = vec![0u8; n];
            let mut b = vec![0u8; n];
            self.rng.fill(&mut a);
            self.rng.fill(&mut b);
            v.push((a, b));
        }
        for j in self.walk_bits_sparse(n) {
            let mut b = vec![0u8; n];
            b[j / 8] = 1 << (j % 8);
            v.push((b.clone(), r1.clone()));
            v.push((ones.clone(), b));
        }
        v
    }
    /// a few operands for index-style operations
    fn few(&mut self, n: usize) -> Vec<Vec<u8>> {
        let mut v: Vec<Vec<u8>> = Vec::new();
        v.push((0..n).map(|i| i as u8).collect());
        v.push(vec![0xffu8; n]);
        v.push(vec![0u8; n]);
        let c = if self.quick { 3 } else { 12 };
        for _ in 0..c {
            let mut b = vec![0u8; n];
            self.rng.fill(&mut b);
            v.push(b);
        }
        v
    }
}

// ---------------------------------------------------------------------------
// operation groups (each generic over the vector type and its trait bound)
// ---------------------------------------------------------------------------
macro_rules! un_op {
    ($cx:expr, $g:expr, $ty:expr, $n:expr, $mk:expr, $rd:expr, $op:expr, $k:expr, $f:expr) => {{
        for a in $g.unary($n) {
            let r = guard(|| $rd($f($mk(&a))));
            $cx.push($ty, $op, $k, &a, &[], &[], r);
        }
    }};
}
macro_rules! bin_op {
    ($cx:expr, $g:expr, $ty:expr, $n:expr, $mk:expr, $rd:expr, $op:expr, $f:expr) => {{
        for (a, b) in $g.binary($n) {
            let r = guard(|| $rd($f($mk(&a), $mk(&b))));
            $cx.push($ty, $op, 0, &a, &b, &[], r);
        }
    }};
}

fn g_bitops0<V: BitOps0>(cx: &mut Cx, g: &mut Gen, ty: u32, n: usize, mk: &dyn Fn(&[u8]) -> V, rd: &dyn Fn(V) -> Vec<u8>) {
    bin_op!(cx, g, ty, n, mk, rd, 3, |a: V, b: V| a ^ b);
    bin_op!(cx, g, ty, n, mk, rd, 4, |a: V, b: V| a & b);
    bin_op!(cx, g, ty, n, mk, rd, 5, |a: V, b: V| a | b);
    un_op!(cx, g, ty, n, mk, rd, 6, 0, |a: V| !a);
    bin_op!(cx, g, ty, n, mk, rd, 7, |a: V, b: V| a.andnot(b));
    bin_op!(cx, g, ty, n, mk, rd, 8, |a: V, b: V| {
        let mut a = a;
        a ^= b;
        a
    });
}
fn g_assign_extra<V: Copy + core::ops::BitAndAssign + core::ops::BitOrAssign>(
    cx: &mut Cx, g: &mut Gen, ty: u32, n: usize, mk: &dyn Fn(&[u8]) -> V, rd: &dyn Fn(V) -> Vec<u8>,
) {
    bin_op!(cx, g, ty, n, mk, rd, 9, |a: V, b: V| {
        let mut a = a;
        a &= b;
        a
    });
    bin_op!(cx, g, ty, n, mk, rd, 10, |a: V, b: V| {
        let mut a = a;
        a |= b;
        a
    });
}
fn g_rot32<V: RotateEachWord32 + Copy>(cx: &mut Cx, g: &mut Gen, ty: u32, n: usize, mk: &dyn Fn(&[u8]) -> V, rd: &dyn Fn(V) -> Vec<u8>) {
    un_op!(cx, g, ty, n, mk, rd, 20, 7, |a: V| a.rotate_each_word_right7());
    un_op!(cx, g, ty, n, mk, rd, 20, 8, |a: V| a.rotate_each_word_right8());
    un_op!(cx, g, ty, n, mk, rd, 20, 11, |a: V| a.rotate_each_word_right11());
    un_op!(cx, g, ty, n, mk, rd, 20, 12, |a: V| a.rotate_each_word_right12());
    un_op!(cx, g, ty, n, mk, rd, 20, 16, |a: V| a.rotate_each_word_right16());
    un_op!(cx, g, ty, n, mk, rd, 20, 20, |a: V| a.rotate_each_word_right20());
    un_op!(cx, g, ty, n, mk, rd, 20, 24, |a: V| a.rotate_each_word_right24());
    un_op!(cx, g, ty, n, mk, rd, 20, 25, |a: V| a.rotate_each_word_right25());
}
fn g_rot64<V: RotateEachWord64 + Copy>(cx: &mut Cx, g: &mut Gen, ty: u32, n: usize, mk: &dyn Fn(&[u8]) -> V, rd: &dyn Fn(V) -> Vec<u8>) {
    un_op!(cx, g, ty, n, mk, rd, 20, 32, |a: V| a.rotate_each_word_right32());
}
fn g_arith<V: ArithOps>(cx: &mut Cx, g: &mut Gen, ty: u32, n: usize, mk: &dyn Fn(&[u8]) -> V, rd: &dyn Fn(V) -> Vec<u8>) {
    bin_op!(cx, g, ty, n, mk, rd, 1, |a: V, b: V| a + b);
    bin_op!(cx, g, ty, n, mk, rd, 2, |a: V, b: V| {
        let mut a = a;
        a += b;
        a
    });
    un_op!(cx, g, ty, n, mk, rd, 22, 0, |a: V| a.bswap());
}
fn g_swap64<V: Swap64 + Copy>(cx: &mut Cx, g: &mut Gen, ty: u32, n: usize, mk: &dyn Fn(&[u8]) -> V, rd: &dyn Fn(V) -> Vec<u8>) {
    un_op!(cx, g, ty, n, mk, rd, 21, 1, |a: V| a.swap1());
    un_op!(cx, g, ty, n, mk, rd, 21, 2, |a: V| a.swap2());
    un_op!(cx, g, ty, n, mk, rd, 21, 4, |a: V| a.swap4());
    un_op!(cx, g, ty, n, mk, rd, 21, 8, |a: V| a.swap8());
    un_op!(cx, g, ty, n, mk, rd, 21, 16, |a: V| a.swap16());
    un_op!(cx, g, ty, n, mk, rd, 21, 32, |a: V| a.swap32());
    un_op!(cx, g, ty, n, mk, rd, 21, 64, |a: V| a.swap64());
}
fn g_words4<V: Words4 + Copy>(cx: &mut Cx, g: &mut Gen, ty: u32, n: usize, mk: &dyn Fn(&[u8]) -> V, rd: &dyn Fn(V) -> Vec<u8>) {
    un_op!(cx, g, ty, n, mk, rd, 23, 1230, |a: V| a.shuffle1230());
    un_op!(cx, g, ty, n, mk, rd, 23, 2301, |a: V| a.shuffle2301());
    un_op!(cx, g, ty, n, mk, rd, 23, 3012, |a: V| a.shuffle3012());
}
fn g_lanewords4<V: LaneWords4 + Copy>(cx: &mut Cx, g: &mut Gen, ty: u32, n: usize, mk: &dyn Fn(&[u8]) -> V, rd: &dyn Fn(V) -> Vec<u8>) {
    un_op!(cx, g, ty, n, mk, rd, 24, 1230, |a: V| a.shuffle_lane_words1230());
    un_op!(cx, g, ty, n, mk, rd, 24, 2301, |a: V| a.shuffle_lane_words2301());
    un_op!(cx, g, ty, n, mk, rd, 24, 3012, |a: V| a.shuffle_lane_words3012());
}

// ---- C13 groups ----
fn g_roundtrip<V: Copy>(cx: &mut Cx, g: &mut Gen, ty: u32, n: usize, mk: &dyn Fn(&[u8]) -> V, rd: &dyn Fn(V) -> Vec<u8>) {
    un_op!(cx, g, ty, n, mk, rd, 30, 0, |a: V| a);
}
/// the element whose only set bit is its top bit: 0x80000000, 0x8000000000000000, 1 << 127 (little-endian bytes)
fn top_bit(es: usize) -> Vec<u8> {
    let mut x = vec![0u8; es];
    x[es - 1] = 0x80;
    x
}
/// all-ones, top bit only, all but the top bit, zero; for 16-byte lane elements also 0x80000000 / 0xffffffff in one word only
fn boundary_elems(es: usize) -> Vec<Vec<u8>> {
    let mut v = vec![vec![0xffu8; es], top_bit(es), vec![0u8; es]];
    let mut low = vec![0xffu8; es];
    low[es - 1] = 0x7f;
    v.push(low);
    if es > 8 {
        for w in 0..es / 4 {
            let mut x = vec![0u8; es];
            x[4 * w + 3] = 0x80;
            v.push(x);
            let mut y = vec![0u8; es];
            y[4 * w..4 * w + 4].copy_from_slice(&[0xff; 4]);
            v.push(y);
        }
    }
    v
}
/// extract / insert of element type E (a word or a lane), `cnt` valid indices, `es` bytes per element
fn g_vec_elems<V: Copy, E: Copy>(
    cx: &mut Cx, g: &mut Gen, ty: u32, n: usize, ops: (u32, u32), cnt: u32, es: usize,
    mk: &dyn Fn(&[u8]) -> V, rd: &dyn Fn(V) -> Vec<u8>, mke: &dyn Fn(&[u8]) -> E, rde: &dyn Fn(E) -> Vec<u8>,
    ext: &dyn Fn(V, u32) -> E, ins: &dyn Fn(V, E, u32) -> V,
) {
    let idxs: Vec<u32> = (0..cnt + 2).chain([7u32, 8, 0x8000_0000, 0xffff_fffe, 0xffff_ffff]).collect();
    for a in g.few(n) {
        for &i in &idxs {
            let r = guard(|| rde(ext(mk(&a), i)));
            cx.push(ty, ops.0, i, &a, &[], &[], r);
            // all-ones and top-bit-only elements (0xffffffff / 0x80000000 and their 64- and 128-bit analogues) were added after
            // the mutation campaign (M52: an `insert` that mishandles 0xffffffff was invisible here); 0 was already there
            for x in [vec![0xa5u8; es], (0..es).map(|t| 0xf0 ^ (t as u8)).collect::<Vec<u8>>(), vec![0u8; es], vec![0xffu8; es], top_bit(es)] {
                let r = guard(|| rd(ins(mk(&a), mke(&x), i)));
                cx.push(ty, ops.1, i, &a, &[], &x, r);
            }
        }
    }
    // the boundary element values at every valid index: inserted into the counting / all-ones / zero vector, and extracted
    // from vectors that hold the value in element i only (neighbours 0, then neighbours all-ones) and in every element
    for i in 0..cnt {
        let k = i as usize * es;
        let counting: Vec<u8> = (0..n).map(|t| t as u8).collect();
        for sv in boundary_elems(es) {
            for v in [counting.clone(), vec![0xffu8; n], vec![0u8; n]] {
                let r = guard(|| rd(ins(mk(&v), mke(&sv), i)));
                cx.push(ty, ops.1, i, &v, &[], &sv, r);
            }
            let mut alone = vec![0u8; n];
            alone[k..k + es].copy_from_slice(&sv);
            let mut among_ones = vec![0xffu8; n];
            among_ones[k..k + es].copy_from_slice(&sv);
            let everywhere: Vec<u8> = (0..n).map(|t| sv[t % es]).collect();
            for v in [alone, among_ones, everywhere] {
                let r = guard(|| rde(ext(mk(&v), i)));
                cx.push(ty, ops.0, i, &v, &[], &[], r);
            }
        }
    }
    // walking one through the inserted element and through the vector, valid indices
    for i in 0..cnt {
        let base: Vec<u8> = (0..n).map(|t| t as u8).collect();
        for j in g.walk_bits_sparse(es) {
            let mut x = vec![0u8; es];
            x[j / 8] = 1 << (j % 8);
            let r = guard(|| rd(ins(mk(&base), mke(&x), i)));
            cx.push(ty, ops.1, i, &base, &[], &x, r);
        }
        for j in g.walk_bits_sparse(n) {
            let mut a = vec![0u8; n];
            a[j / 8] = 1 << (j % 8);
            let r = guard(|| rde(ext(mk(&a), i)));
            cx.push(ty, ops.0, i, &a, &[], &[], r);
            let x = vec![0u8; es];
            let r = guard(|| rd(ins(mk(&a), mke(&x), i)));
            cx.push(ty, ops.1, i, &a, &[], &x, r);
        }
    }
}

fn s128_from(view: u32, b: &[u8]) -> vec128_storage {
    if view == 0 {
        d4(b).into()
    } else {
        q2(b).into()
    }
}
fn s128_read(view: u32, s: vec128_storage) -> Vec<u8> {
    if view == 0 {
        let d: [u32; 4] = s.into();
        bytes32(&d)
    } else {
        let q: [u64; 2] = s.into();
        bytes64(&q)
    }
}
fn s256_from(view: u32, b: &[u8]) -> vec256_storage {
    if view == 2 {
        q4(b).into()
    } else {
        vec256_storage::new128([s128_from(view, &b[0..16]), s128_from(view, &b[16..32])])
    }
}
fn s256_read(view: u32, s: vec256_storage) -> Vec<u8> {
    if view == 2 {
        let q: [u64; 4] = s.into();
        bytes64(&q)
    } else {
        let p = s.split128();
        [s128_read(view, p[0]), s128_read(view, p[1])].concat()
    }
}
fn s512_from(view: u32, b: &[u8]) -> vec512_storage {
    vec512_storage::new128([
        s128_from(view, &b[0..16]),
        s128_from(view, &b[16..32]),
        s128_from(view, &b[32..48]),
        s128_from(view, &b[48..64]),
    ])
}
fn s512_read(view: u32, s: vec512_storage) -> Vec<u8> {
    let p = s.split128();
    p.iter().flat_map(|x| s128_read(view, *x)).collect()
}

/// Store::unpack (through Machine::unpack) and Into<storage>
fn g_store<M: Machine, S: Copy, V: Copy + Store<S> + Into<S>>(
    cx: &mut Cx, g: &mut Gen, m: M, ty: u32, n: usize, views: &[u32],
    mk: &dyn Fn(&[u8]) -> V, rd: &dyn Fn(V) -> Vec<u8>, sfrom: &dyn Fn(u32, &[u8]) -> S, sread: &dyn Fn(u32, S) -> Vec<u8>,
) {
    for &view in views {
        for a in g.unary(n) {
            let r = guard(|| rd(m.unpack::<S, V>(sfrom(view, &a))));
            cx.push(ty, 33, view, &a, &[], &[], r);
            let r = guard(|| sread(view, mk(&a).into()));
            cx.push(ty, 34, view, &a, &[], &[], r);
        }
    }
}

/// n bytes (rounded up) starting at an 8-byte boundary, filled with 0xee
struct AlignedBuf(Vec<u64>, usize);
impl AlignedBuf {
    fn new(n: usize) -> Self {
        AlignedBuf(vec![0xeeee_eeee_eeee_eeeeu64; (n + 7) / 8], n)
    }
    fn bytes(&mut self) -> &mut [u8] {
        unsafe { core::slice::from_raw_parts_mut(self.0.as_mut_ptr() as *mut u8, self.1) }
    }
}

fn g_storebytes<M: Machine, V: Copy + StoreBytes>(
    cx: &mut Cx, g: &mut Gen, m: M, ty: u32, n: usize, mk: &dyn Fn(&[u8]) -> V, rd: &dyn Fn(V) -> Vec<u8>,
) {
    // The byte slices are placed at every offset 0..7 from an 8-byte boundary in turn (a memory operation is a function of
    // the BYTES, not of their address: seed C03-7 made the portable read_le panic on a slice that is not 4-byte aligned).
    // The case itself (operand bytes, result bytes) is the same whatever the offset.
    for (i, a) in g.unary(n).into_iter().enumerate() {
        let off = i % 8;
        let mut src = AlignedBuf::new(n + 8);
        src.bytes()[off..off + n].copy_from_slice(&a);
        let sb: &[u8] = src.bytes();
        let r = guard(|| rd(m.read_le::<V>(&sb[off..off + n])));
        cx.push(ty, 40, 0, &a, &[], &[], r);
        let r = guard(|| rd(m.read_be::<V>(&sb[off..off + n])));
        cx.push(ty, 41, 0, &a, &[], &[], r);
        let r = guard(|| {
            let mut out = AlignedBuf::new(n + 8);
            mk(&a).write_le(&mut out.bytes()[off..off + n]);
            out.bytes()[off..off + n].to_vec()
        });
        cx.push(ty, 42, n as u32, &a, &[], &[], r);
        let r = guard(|| {
            let mut out = AlignedBuf::new(n + 8);
            mk(&a).write_be(&mut out.bytes()[off..off + n]);
            out.bytes()[off..off + n].to_vec()
        });
        cx.push(ty, 43, n as u32, &a, &[], &[], r);
    }
    // wrong sizes: the portable back end reports them by panicking (unwrap of the size check)
    let idx: Vec<u8> = (0..2 * n + 8).map(|t| t as u8).collect();
    for len in [0usize, 1, n / 2, n - 4, n - 1, n + 1, n + 3, n + 4, 2 * n] {
        let inp = &idx[..len];
        let r = guard(|| rd(m.read_le::<V>(inp)));
        cx.push(ty, 40, 0, inp, &[], &[], r);
        let r = guard(|| rd(m.read_be::<V>(inp)));
        cx.push(ty, 41, 0, inp, &[], &[], r);
        let a = &idx[8..8 + n];
        let r = guard(|| {
            let mut out = vec![0xeeu8; len];
            mk(a).write_le(&mut out);
            out
        });
        cx.push(ty, 42, len as u32, a, &[], &[], r);
        let r = guard(|| {
            let mut out = vec![0xeeu8; len];
            mk(a).write_be(&mut out);
            out
        });
        cx.push(ty, 43, len as u32, a, &[], &[], r);
    }
}

fn g_storage(cx: &mut Cx, g: &mut Gen) {
    // vec128_storage: k = 2*from_view + to_view
    for a in g.unary(16) {
        for k in 0..4u32 {
            let r = guard(|| s128_read(k % 2, s128_from(k / 2, &a)));
            cx.push(10, 35, k, &a, &[], &[], r);
        }
    }
    // vec256_storage: k = 3*from_view + to_view, views 0 (u32 halves), 1 (u64 halves), 2 ([u64;4])
    for a in g.unary(32) {
        for k in 0..9u32 {
            let r = guard(|| s256_read(k % 3, s256_from(k / 3, &a)));
            cx.push(11, 35, k, &a, &[], &[], r);
        }
    }
    for a in g.unary(64) {
        for k in 0..4u32 {
            let r = guard(|| s512_read(k % 2, s512_from(k / 2, &a)));
            cx.push(12, 35, k, &a, &[], &[], r);
        }
    }
    let r = guard(|| s128_read(0, vec128_storage::default()));
    cx.push(10, 36, 0, &[], &[], &[], r);
    let r = guard(|| s256_read(0, vec256_storage::default()));
    cx.push(11, 36, 0, &[], &[], &[], r);
    let r = guard(|| s512_read(0, vec512_storage::default()));
    cx.push(12, 36, 0, &[], &[], &[], r);
    for (a, b) in g.binary(16) {
        let r = guard(|| vec![(s128_from(0, &a) == s128_from(1, &b)) as u8]);
        cx.push(10, 37, 0, &a, &b, &[], r);
    }
    for a in g.few(16) {
        let r = guard(|| vec![(s128_from(0, &a) == s128_from(1, &a)) as u8]);
        cx.push(10, 37, 0, &a, &a, &[], r);
    }
    // vec256_storage / vec512_storage (derived PartialEq over the arrays of vec128_storage): equal pairs,
    // pairs from the binary stream, pairs differing in exactly one walked bit (a comparison that skips part
    // of the value accepts one of them); the two sides are built through different word views
    for (ty, n) in [(11u32, 32usize), (12, 64)] {
        let mut pairs: Vec<(Vec<u8>, Vec<u8>)> = g.binary(n).into_iter().take(13).collect();
        for a in g.few(n) {
            pairs.push((a.clone(), a.clone()));
            for j in g.walk_bits_sparse(n) {
                let mut b = a.clone();
                b[j / 8] ^= 1 << (j % 8);
                pairs.push((a.clone(), b));
            }
        }
        for (a, b) in pairs {
            let r = if ty == 11 {
                guard(|| vec![(s256_from(0, &a) == s256_from(2, &b)) as u8])
            } else {
                guard(|| vec![(s512_from(0, &a) == s512_from(1, &b)) as u8])
            };
            cx.push(ty, 37, 0, &a, &b, &[], r);
        }
    }
}

// ---------------------------------------------------------------------------
// what the Machine trait bounds expose, for any machine
// ---------------------------------------------------------------------------
fn c12_machine<M: Machine>(m: M, cx: &mut Cx, g: &mut Gen) {
    {
        let (mk, rd) = (|b: &[u8]| mk_u32x4(m, b), |v| rd_u32x4::<M>(v));
        g_bitops0::<M::u32x4>(cx, g, 0, 16, &mk, &rd);
        g_rot32::<M::u32x4>(cx, g, 0, 16, &mk, &rd);
        g_arith::<M::u32x4>(cx, g, 0, 16, &mk, &rd);
        g_words4::<M::u32x4>(cx, g, 0, 16, &mk, &rd);
        g_lanewords4::<M::u32x4>(cx, g, 0, 16, &mk, &rd);
    }
    {
        let (mk, rd) = (|b: &[u8]| mk_u64x2(m, b), |v| rd_u64x2::<M>(v));
        g_bitops0::<M::u64x2>(cx, g, 1, 16, &mk, &rd);
        g_rot32::<M::u64x2>(cx, g, 1, 16, &mk, &rd);
        g_rot64::<M::u64x2>(cx, g, 1, 16, &mk, &rd);
        g_arith::<M::u64x2>(cx, g, 1, 16, &mk, &rd);
    }
    {
        let (mk, rd) = (|b: &[u8]| mk_u128x1(m, b), |v| rd_u128x1::<M>(v));
        g_bitops0::<M::u128x1>(cx, g, 2, 16, &mk, &rd);
        g_rot32::<M::u128x1>(cx, g, 2, 16, &mk, &rd);
        g_rot64::<M::u128x1>(cx, g, 2, 16, &mk, &rd);
        g_swap64::<M::u128x1>(cx, g, 2, 16, &mk, &rd);
    }
    {
        let (mk, rd) = (|b: &[u8]| mk_u32x4x2(m, b), |v| rd_u32x4x2::<M>(v));
        g_bitops0::<M::u32x4x2>(cx, g, 3, 32, &mk, &rd);
        g_rot32::<M::u32x4x2>(cx, g, 3, 32, &mk, &rd);
        g_arith::<M::u32x4x2>(cx, g, 3, 32, &mk, &rd);
    }
    {
        let (mk, rd) = (|b: &[u8]| mk_u64x2x2(m, b), |v| rd_u64x2x2::<M>(v));
        g_bitops0::<M::u64x2x2>(cx, g, 4, 32, &mk, &rd);
        g_rot32::<M::u64x2x2>(cx, g, 4, 32, &mk, &rd);
        g_rot64::<M::u64x2x2>(cx, g, 4, 32, &mk, &rd);
        g_arith::<M::u64x2x2>(cx, g, 4, 32, &mk, &rd);
    }
    {
        let (mk, rd) = (|b: &[u8]| mk_u64x4(m, b), |v| rd_u64x4::<M>(v));
        g_bitops0::<M::u64x4>(cx, g, 5, 32, &mk, &rd);
        g_rot32::<M::u64x4>(cx, g, 5, 32, &mk, &rd);
        g_rot64::<M::u64x4>(cx, g, 5, 32, &mk, &rd);
        g_arith::<M::u64x4>(cx, g, 5, 32, &mk, &rd);
        g_words4::<M::u64x4>(cx, g, 5, 32, &mk, &rd);
    }
    {
        let (mk, rd) = (|b: &[u8]| mk_u128x2(m, b), |v| rd_u128x2::<M>(v));
        g_bitops0::<M::u128x2>(cx, g, 6, 32, &mk, &rd);
        g_rot32::<M::u128x2>(cx, g, 6, 32, &mk, &rd);
        g_rot64::<M::u128x2>(cx, g, 6, 32, &mk, &rd);
        g_swap64::<M::u128x2>(cx, g, 6, 32, &mk, &rd);
    }
    {
        let (mk, rd) = (|b: &[u8]| mk_u32x4x4(m, b), |v| rd_u32x4x4::<M>(v));
        g_bitops0::<M::u32x4x4>(cx, g, 7, 64, &mk, &rd);
        g_rot32::<M::u32x4x4>(cx, g, 7, 64, &mk, &rd);
        g_arith::<M::u32x4x4>(cx, g, 7, 64, &mk, &rd);
        g_lanewords4::<M::u32x4x4>(cx, g, 7, 64, &mk, &rd);
    }
    {
        let (mk, rd) = (|b: &[u8]| mk_u64x2x4(m, b), |v| rd_u64x2x4::<M>(v));
        g_bitops0::<M::u64x2x4>(cx, g, 8, 64, &mk, &rd);
        g_rot32::<M::u64x2x4>(cx, g, 8, 64, &mk, &rd);
        g_rot64::<M::u64x2x4>(cx, g, 8, 64, &mk, &rd);
        g_arith::<M::u64x2x4>(cx, g, 8, 64, &mk, &rd);
    }
    {
        let (mk, rd) = (|b: &[u8]| mk_u128x4(m, b), |v| rd_u128x4::<M>(v));
        g_bitops0::<M::u128x4>(cx, g, 9, 64, &mk, &rd);
        g_rot32::<M::u128x4>(cx, g, 9, 64, &mk, &rd);
        g_rot64::<M::u128x4>(cx, g, 9, 64, &mk, &rd);
        g_swap64::<M::u128x4>(cx, g, 9, 64, &mk, &rd);
    }
}

/// methods the concrete portable types implement beyond the Machine bounds
fn c12_extras(cx: &mut Cx, g: &mut Gen) {
    let m = unsafe { GM::instance() };
    type U32x4 = <GM as Machine>::u32x4;
    type U64x2 = <GM as Machine>::u64x2;
    type U128x1 = <GM as Machine>::u128x1;
    type U32x4x2 = <GM as Machine>::u32x4x2;
    type U64x2x2 = <GM as Machine>::u64x2x2;
    type U64x4 = <GM as Machine>::u64x4;
    type U128x2 = <GM as Machine>::u128x2;
    type U32x4x4 = <GM as Machine>::u32x4x4;
    type U64x2x4 = <GM as Machine>::u64x2x4;
    type U128x4 = <GM as Machine>::u128x4;
    {
        let (mk, rd) = (|b: &[u8]| mk_u32x4(m, b), |v| rd_u32x4::<GM>(v));
        g_swap64::<U32x4>(cx, g, 0, 16, &mk, &rd);
        g_assign_extra::<U32x4>(cx, g, 0, 16, &mk, &rd);
    }
    {
        let (mk, rd) = (|b: &[u8]| mk_u64x2(m, b), |v| rd_u64x2::<GM>(v));
        g_swap64::<U64x2>(cx, g, 1, 16, &mk, &rd);
        g_assign_extra::<U64x2>(cx, g, 1, 16, &mk, &rd);
    }
    {
        let (mk, rd) = (|b: &[u8]| mk_u128x1(m, b), |v| rd_u128x1::<GM>(v));
        g_arith::<U128x1>(cx, g, 2, 16, &mk, &rd);
        g_assign_extra::<U128x1>(cx, g, 2, 16, &mk, &rd);
    }
    {
        let (mk, rd) = (|b: &[u8]| mk_u32x4x2(m, b), |v| rd_u32x4x2::<GM>(v));
        g_swap64::<U32x4x2>(cx, g, 3, 32, &mk, &rd);
        g_lanewords4::<U32x4x2>(cx, g, 3, 32, &mk, &rd);
        g_assign_extra::<U32x4x2>(cx, g, 3, 32, &mk, &rd);
    }
    {
        let (mk, rd) = (|b: &[u8]| mk_u64x2x2(m, b), |v| rd_u64x2x2::<GM>(v));
        g_swap64::<U64x2x2>(cx, g, 4, 32, &mk, &rd);
        g_assign_extra::<U64x2x2>(cx, g, 4, 32, &mk, &rd);
    }
    {
        let (mk, rd) = (|b: &[u8]| mk_u64x4(m, b), |v| rd_u64x4::<GM>(v));
        g_swap64::<U64x4>(cx, g, 5, 32, &mk, &rd);
        g_assign_extra::<U64x4>(cx, g, 5, 32, &mk, &rd);
    }
    {
        let (mk, rd) = (|b: &[u8]| mk_u128x2(m, b), |v| rd_u128x2::<GM>(v));
        g_arith::<U128x2>(cx, g, 6, 32, &mk, &rd);
        g_assign_extra::<U128x2>(cx, g, 6, 32, &mk, &rd);
    }
    {
        let (mk, rd) = (|b: &[u8]| mk_u32x4x4(m, b), |v| rd_u32x4x4::<GM>(v));
        g_swap64::<U32x4x4>(cx, g, 7, 64, &mk, &rd);
        g_assign_extra::<U32x4x4>(cx, g, 7, 64, &mk, &rd);
    }
    {
        let (mk, rd) = (|b: &[u8]| mk_u64x2x4(m, b), |v| rd_u64x2x4::<GM>(v));
        g_swap64::<U64x2x4>(cx, g, 8, 64, &mk, &rd);
        g_assign_extra::<U64x2x4>(cx, g, 8, 64, &mk, &rd);
    }
    {
        let (mk, rd) = (|b: &[u8]| mk_u128x4(m, b), |v| rd_u128x4::<GM>(v));
        g_arith::<U128x4>(cx, g, 9, 64, &mk, &rd);
        g_assign_extra::<U128x4>(cx, g, 9, 64, &mk, &rd);
    }
}

fn c13_machine<M: Machine>(m: M, cx: &mut Cx, g: &mut Gen) {
    let s128f = |v: u32, b: &[u8]| s128_from(v, b);
    let s128r = |v: u32, s: vec128_storage| s128_read(v, s);
    let s256f = |v: u32, b: &[u8]| s256_from(v, b);
    let s256r = |v: u32, s: vec256_storage| s256_read(v, s);
    let s512f = |v: u32, b: &[u8]| s512_from(v, b);
    let s512r = |v: u32, s: vec512_storage| s512_read(v, s);
    let mk32 = |b: &[u8]| w32(b);
    let rd32 = |x: u32| x.to_le_bytes().to_vec();
    let mk64 = |b: &[u8]| w64(b);
    let rd64 = |x: u64| x.to_le_bytes().to_vec();
    {
        let (mk, rd) = (|b: &[u8]| mk_u32x4(m, b), |v| rd_u32x4::<M>(v));
        g_roundtrip::<M::u32x4>(cx, g, 0, 16, &mk, &rd);
        g_vec_elems::<M::u32x4, u32>(cx, g, 0, 16, (31, 32), 4, 4, &mk, &rd, &mk32, &rd32, &|v, i| v.extract(i), &|v, e, i| v.insert(e, i));
        g_store::<M, vec128_storage, M::u32x4>(cx, g, m, 0, 16, &[0, 1], &mk, &rd, &s128f, &s128r);
        g_storebytes::<M, M::u32x4>(cx, g, m, 0, 16, &mk, &rd);
    }
    {
        let (mk, rd) = (|b: &[u8]| mk_u64x2(m, b), |v| rd_u64x2::<M>(v));
        g_roundtrip::<M::u64x2>(cx, g, 1, 16, &mk, &rd);
        g_vec_elems::<M::u64x2, u64>(cx, g, 1, 16, (31, 32), 2, 8, &mk, &rd, &mk64, &rd64, &|v, i| v.extract(i), &|v, e, i| v.insert(e, i));
        g_store::<M, vec128_storage, M::u64x2>(cx, g, m, 1, 16, &[0, 1], &mk, &rd, &s128f, &s128r);
    }
    {
        let (mk, rd) = (|b: &[u8]| mk_u128x1(m, b), |v| rd_u128x1::<M>(v));
        g_roundtrip::<M::u128x1>(cx, g, 2, 16, &mk, &rd);
        g_store::<M, vec128_storage, M::u128x1>(cx, g, m, 2, 16, &[0, 1], &mk, &rd, &s128f, &s128r);
    }
    {
        let (mk, rd) = (|b: &[u8]| mk_u32x4x2(m, b), |v| rd_u32x4x2::<M>(v));
        let (mke, rde) = (|b: &[u8]| mk_u32x4(m, b), |v| rd_u32x4::<M>(v));
        g_roundtrip::<M::u32x4x2>(cx, g, 3, 32, &mk, &rd);
        g_vec_elems::<M::u32x4x2, M::u32x4>(cx, g, 3, 32, (31, 32), 2, 16, &mk, &rd, &mke, &rde, &|v, i| v.extract(i), &|v, e, i| v.insert(e, i));
        g_store::<M, vec256_storage, M::u32x4x2>(cx, g, m, 3, 32, &[0, 1, 2], &mk, &rd, &s256f, &s256r);
        g_storebytes::<M, M::u32x4x2>(cx, g, m, 3, 32, &mk, &rd);
    }
    {
        let (mk, rd) = (|b: &[u8]| mk_u64x2x2(m, b), |v| rd_u64x2x2::<M>(v));
        let (mke, rde) = (|b: &[u8]| mk_u64x2(m, b), |v| rd_u64x2::<M>(v));
        g_roundtrip::<M::u64x2x2>(cx, g, 4, 32, &mk, &rd);
        g_vec_elems::<M::u64x2x2, M::u64x2>(cx, g, 4, 32, (31, 32), 2, 16, &mk, &rd, &mke, &rde, &|v, i| v.extract(i), &|v, e, i| v.insert(e, i));
        g_store::<M, vec256_storage, M::u64x2x2>(cx, g, m, 4, 32, &[0, 1, 2], &mk, &rd, &s256f, &s256r);
        g_storebytes::<M, M::u64x2x2>(cx, g, m, 4, 32, &mk, &rd);
    }
    {
        let (mk, rd) = (|b: &[u8]| mk_u64x4(m, b), |v| rd_u64x4::<M>(v));
        g_roundtrip::<M::u64x4>(cx, g, 5, 32, &mk, &rd);
        g_vec_elems::<M::u64x4, u64>(cx, g, 5, 32, (31, 32), 4, 8, &mk, &rd, &mk64, &rd64, &|v, i| v.extract(i), &|v, e, i| v.insert(e, i));
        g_store::<M, vec256_storage, M::u64x4>(cx, g, m, 5, 32, &[0, 1, 2], &mk, &rd, &s256f, &s256r);
        g_storebytes::<M, M::u64x4>(cx, g, m, 5, 32, &mk, &rd);
    }
    {
        let (mk, rd) = (|b: &[u8]| mk_u128x2(m, b), |v| rd_u128x2::<M>(v));
        let (mke, rde) = (|b: &[u8]| mk_u128x1(m, b), |v| rd_u128x1::<M>(v));
        g_roundtrip::<M::u128x2>(cx, g, 6, 32, &mk, &rd);
        g_vec_elems::<M::u128x2, M::u128x1>(cx, g, 6, 32, (31, 32), 2, 16, &mk, &rd, &mke, &rde, &|v, i| v.extract(i), &|v, e, i| v.insert(e, i));
        g_store::<M, vec256_storage, M::u128x2>(cx, g, m, 6, 32, &[0, 1, 2], &mk, &rd, &s256f, &s256r);
    }
    {
        let (mk, rd) = (|b: &[u8]| mk_u32x4x4(m, b), |v| rd_u32x4x4::<M>(v));
        let (mke, rde) = (|b: &[u8]| mk_u32x4(m, b), |v| rd_u32x4::<M>(v));
        g_roundtrip::<M::u32x4x4>(cx, g, 7, 64, &mk, &rd);
        g_vec_elems::<M::u32x4x4, M::u32x4>(cx, g, 7, 64, (31, 32), 4, 16, &mk, &rd, &mke, &rde, &|v, i| v.extract(i), &|v, e, i| v.insert(e, i));
        g_store::<M, vec512_storage, M::u32x4x4>(cx, g, m, 7, 64, &[0, 1], &mk, &rd, &s512f, &s512r);
        g_storebytes::<M, M::u32x4x4>(cx, g, m, 7, 64, &mk, &rd);
        // to_scalars
        for a in g.unary(64) {
            let r = guard(|| {
                let s: [u32; 16] = mk(&a).to_scalars();
                bytes32(&s)
            });
            cx.push(7, 51, 0, &a, &[], &[], r);
        }
        // transpose4: a = the four operands concatenated, result = the four results concatenated
        let mut quads: Vec<Vec<u8>> = Vec::new();
        quads.push((0..256usize).map(|t| t as u8).collect());
        quads.push(vec![0xffu8; 256]);
        for _ in 0..g.nrand {
            let mut b = vec![0u8; 256];
            g.rng.fill(&mut b);
            quads.push(b);
        }
        let stride = if g.quick { 5 } else { 1 };
        for j in (0..2048usize).filter(|j| j % stride == 0) {
            let mut b = vec![0u8; 256];
            b[j / 8] = 1 << (j % 8);
            quads.push(b);
        }
        for a in quads {
            let r = guard(|| {
                let (p, q, s, t) = <M::u32x4x4 as Vec4Ext<M::u32x4>>::transpose4(
                    mk(&a[0..64]),
                    mk(&a[64..128]),
                    mk(&a[128..192]),
                    mk(&a[192..256]),
                );
                [rd(p), rd(q), rd(s), rd(t)].concat()
            });
            cx.push(7, 50, 0, &a, &[], &[], r);
        }
    }
    {
        let (mk, rd) = (|b: &[u8]| mk_u64x2x4(m, b), |v| rd_u64x2x4::<M>(v));
        let (mke, rde) = (|b: &[u8]| mk_u64x2(m, b), |v| rd_u64x2::<M>(v));
        g_roundtrip::<M::u64x2x4>(cx, g, 8, 64, &mk, &rd);
        g_vec_elems::<M::u64x2x4, M::u64x2>(cx, g, 8, 64, (31, 32), 4, 16, &mk, &rd, &mke, &rde, &|v, i| v.extract(i), &|v, e, i| v.insert(e, i));
        g_store::<M, vec512_storage, M::u64x2x4>(cx, g, m, 8, 64, &[0, 1], &mk, &rd, &s512f, &s512r);
    }
    {
        let (mk, rd) = (|b: &[u8]| mk_u128x4(m, b), |v| rd_u128x4::<M>(v));
        let (mke, rde) = (|b: &[u8]| mk_u128x1(m, b), |v| rd_u128x1::<M>(v));
        g_roundtrip::<M::u128x4>(cx, g, 9, 64, &mk, &rd);
        g_vec_elems::<M::u128x4, M::u128x1>(cx, g, 9, 64, (31, 32), 4, 16, &mk, &rd, &mke, &rde, &|v, i| v.extract(i), &|v, e, i| v.insert(e, i));
        g_store::<M, vec512_storage, M::u128x4>(cx, g, m, 9, 64, &[0, 1], &mk, &rd, &s512f, &s512r);
    }
}

fn c13_extras(cx: &mut Cx, g: &mut Gen) {
    let m = unsafe { GM::instance() };
    type U64x2 = <GM as Machine>::u64x2;
    type U64x4 = <GM as Machine>::u64x4;
    type U64x2x4 = <GM as Machine>::u64x2x4;
    {
        // StoreBytes of u64x2 is reachable through x2/x4 forwarding only; call it directly as well
        let (mk, rd) = (|b: &[u8]| mk_u64x2(m, b), |v| rd_u64x2::<GM>(v));
        g_storebytes::<GM, U64x2>(cx, g, m, 1, 16, &mk, &rd);
    }
    {
        let (mk, rd) = (|b: &[u8]| mk_u64x2x4(m, b), |v| rd_u64x2x4::<GM>(v));
        g_storebytes::<GM, U64x2x4>(cx, g, m, 8, 64, &mk, &rd);
    }
    {
        // u64x4_generic is x2<u64x2_generic, G1>: it is also a Vec2 / MultiLane of u64x2 lanes
        let (mk, rd) = (|b: &[u8]| mk_u64x4(m, b), |v| rd_u64x4::<GM>(v));
        let (mke, rde) = (|b: &[u8]| mk_u64x2(m, b), |v| rd_u64x2::<GM>(v));
        g_vec_elems::<U64x4, U64x2>(cx, g, 5, 32, (38, 39), 2, 16, &mk, &rd, &mke, &rde,
            &|v, i| Vec2::<U64x2>::extract(v, i), &|v, e, i| Vec2::<U64x2>::insert(v, e, i));
    }
    // op 47: UnsafeFrom::unsafe_from of the soft.rs wrappers (x2::new / x4) on lanes built with from_lanes
    type U32x4 = <GM as Machine>::u32x4;
    type U128x1 = <GM as Machine>::u128x1;
    let l32 = |b: &[u8]| -> U32x4 { mk_u32x4(m, b) };
    let l64 = |b: &[u8]| -> U64x2 { mk_u64x2(m, b) };
    let l128 = |b: &[u8]| -> U128x1 { mk_u128x1(m, b) };
    for a in g.unary(32) {
        let r = guard(|| rd_u32x4x2::<GM>(unsafe { UnsafeFrom::unsafe_from([l32(&a[0..16]), l32(&a[16..32])]) }));
        cx.push(3, 47, 0, &a, &[], &[], r);
        let r = guard(|| rd_u64x2x2::<GM>(unsafe { UnsafeFrom::unsafe_from([l64(&a[0..16]), l64(&a[16..32])]) }));
        cx.push(4, 47, 0, &a, &[], &[], r);
        let r = guard(|| rd_u64x4::<GM>(unsafe { UnsafeFrom::unsafe_from([l64(&a[0..16]), l64(&a[16..32])]) }));
        cx.push(5, 47, 0, &a, &[], &[], r);
        let r = guard(|| rd_u128x2::<GM>(unsafe { UnsafeFrom::unsafe_from([l128(&a[0..16]), l128(&a[16..32])]) }));
        cx.push(6, 47, 0, &a, &[], &[], r);
    }
    for a in g.unary(64) {
        let r = guard(|| rd_u32x4x4::<GM>(unsafe { UnsafeFrom::unsafe_from([l32(&a[0..16]), l32(&a[16..32]), l32(&a[32..48]), l32(&a[48..64])]) }));
        cx.push(7, 47, 0, &a, &[], &[], r);
        let r = guard(|| rd_u64x2x4::<GM>(unsafe { UnsafeFrom::unsafe_from([l64(&a[0..16]), l64(&a[16..32]), l64(&a[32..48]), l64(&a[48..64])]) }));
        cx.push(8, 47, 0, &a, &[], &[], r);
        let r = guard(|| rd_u128x4::<GM>(unsafe { UnsafeFrom::unsafe_from([l128(&a[0..16]), l128(&a[16..32]), l128(&a[32..48]), l128(&a[48..64])]) }));
        cx.push(9, 47, 0, &a, &[], &[], r);
    }
    g_storage(cx, g);
}

// ---------------------------------------------------------------------------
fn finish(cx: Cx, out: &str, shards: usize, runner: &str, sub: &str, quick: bool, light: bool) {
    let coq: Vec<String> = cx.cases.iter().map(|c| c.coq()).collect();
    write_shards(
        out,
        shards,
        "From Coq Require Import NArith List.\nFrom CC Require Import Model.PpvSoft Run.Runner Run.PpvGen.",
        "pgcase",
        runner,
        &coq,
    );
    let all: Vec<String> = cx.cases.iter().map(|c| c.json()).collect();
    std::fs::write(format!("{}/cases.json", out), format!("[{}]", all.join(",\n"))).unwrap();
    let n = cx.cases.len();
    let mut samples: Vec<String> = Vec::new();
    for i in [n / 7, n / 3, n / 2, n - 1] {
        if i < n {
            samples.push(cx.cases[i].json());
        }
    }
    let mut ops: std::collections::BTreeMap<String, usize> = Default::default();
    for c in &cx.cases {
        let name = match c.op {
            20 | 21 | 23 | 24 => op_name(c.op, c.k),
            31 | 32 | 33 | 34 | 35 | 38 | 39 | 42 | 43 => op_name(c.op, 0).replace("0", "*"),
            _ => op_name(c.op, c.k),
        };
        *ops.entry(name).or_default() += 1;
    }
    let opmix: Vec<String> = ops.iter().map(|(k, v)| format!("{}:{}", jstr(k), v)).collect();
    let pt: Vec<String> = (0..13).filter(|&t| cx.per_type[t] > 0).map(|t| format!("{}:{}", jstr(ty_name(t as u32)), cx.per_type[t])).collect();
    println!(
        "{{\"evaluations\":{},\"distinct_nontrivial\":{},\"direct_failures\":[],\"samples\":[{}],\"sub\":{},\"backend\":\"GenericMachine (no_simd)\",\"profile\":{},\"tier_quick\":{},\"light\":{},\"outcome_panic\":{},\"per_type\":{{{}}},\"op_mix\":{{{}}}}}",
        n,
        cx.distinct.len(),
        samples.join(","),
        jstr(sub),
        jstr(if cfg!(debug_assertions) { "debug" } else { "release" }),
        quick,
        light,
        cx.panics,
        pt.join(","),
        opmix.join(",")
    );
}

fn repro() {
    // P6 / P7 reproduction on the real code (portable back end)
    let m = unsafe { GM::instance() };
    let a: Vec<u8> = (0..32).map(|t| t as u8).collect();
    let r = guard(|| rd_u64x4::<GM>(Vec4::<u64>::insert(mk_u64x4(m, &a), 0xdead_beef_0bad_f00d, 2)));
    println!("u64x4::insert(0xdeadbeef0badf00d, 2) on 00..1f -> {:?}", r.map(|v| hex(&v)));
    let r = guard(|| rd_u64x4::<GM>(mk_u64x4(m, &a).shuffle1230()));
    println!("u64x4::shuffle1230 -> {:?}", r.map(|v| hex(&v)));
    let r = guard(|| rd_u64x4::<GM>(mk_u64x4(m, &a).shuffle3012()));
    println!("u64x4::shuffle3012 -> {:?}", r.map(|v| hex(&v)));
    let r = guard(|| rd_u64x4::<GM>(mk_u64x4(m, &a).shuffle2301()));
    println!("u64x4::shuffle2301 -> {:?}", r.map(|v| hex(&v)));
}

fn main() {
    let argv: Vec<String> = std::env::args().collect();
    if argv.len() < 2 {
        eprintln!("usage: h_ppvgen c12|c13|repro [--seed n --shards n --out dir --tier quick|thorough]");
        std::process::exit(2);
    }
    std::panic::set_hook(Box::new(|_| {}));
    let a = Args::parse(&argv[2..]);
    let seed = a.u64("seed", 1);
    let shards = a.u64("shards", 16) as usize;
    let out = a.str("out", "/verif/_build/work/ppvgen_manual");
    let quick = a.str("tier", "quick") == "quick";
    let light = a.u64("light", 0) != 0;
    let mut g = Gen { rng: Rng::new(seed ^ 0x9e4), quick, light, nrand: a.u64("nrand", if quick { 4 } else { 24 }) as usize };
    let mut cx = Cx::new();
    let m = unsafe { GM::instance() };
    match argv[1].as_str() {
        "c12" => {
            c12_machine(m, &mut cx, &mut g);
            c12_extras(&mut cx, &mut g);
            finish(cx, &out, shards, "run_pg", "c12", quick, light);
        }
        "c13" => {
            c13_machine(m, &mut cx, &mut g);
            c13_extras(&mut cx, &mut g);
            finish(cx, &out, shards, "run_pg", "c13", quick, light);
        }
        "repro" => repro(),
        other => {
            eprintln!("unknown subcommand {}", other);
            std::process::exit(2);
        }
    }
}
