#![allow(dead_code)]
//! C07 (+ Groestl part of C17): digests of Groestl224/256/384/512 over a length
//! sweep (two `update` calls per message), digests from states entered through
//! hook H2 (arbitrary chaining value, `block_counter` next to 2^8, 2^16, 2^32,
//! 2^40, 2^56 and 2^64), and the raw intrinsics compressor.rs issues, executed on
//! this host's CPU, for comparison with the intrinsic models.
#[path = "../util.rs"]
mod util;
use util::*;

use core::arch::x86_64::*;
use groestl_aesni::{Digest, Groestl224, Groestl256, Groestl384, Groestl512};
use std::panic::{catch_unwind, AssertUnwindSafe};

const VARIANTS: [u32; 4] = [224, 256, 384, 512];
/// digest bytes each variant must return: the Coq runner cuts the digest literal to this size, so the
/// length actually returned is checked here (a wrong length is a direct failure)
fn out_len(v: u32) -> usize {
    match v {
        224 => 28,
        256 => 32,
        384 => 48,
        _ => 64,
    }
}
fn block_size(v: u32) -> usize {
    if v <= 256 {
        64
    } else {
        128
    }
}

fn digest2(v: u32, msg: &[u8], split: usize) -> Vec<u8> {
    macro_rules! go {
        ($t:ident) => {{
            let mut h = $t::default();
            // half of the cases reuse an object that has already produced a digest in place
            // (FixedOutput::finalize_fixed_reset) or absorbed data and was reset
            match (msg.len() + split) % 4 {
                2 => {
                    digest::Update::update(&mut h, &msg[..if (msg.len() / 4) % 2 == 0 { 0 } else { msg.len().min(5) }]);
                    let _ = digest::FixedOutput::finalize_fixed_reset(&mut h);
                }
                3 => {
                    digest::Update::update(&mut h, &[0x5au8; 70][..]);
                    // block counter far into a message before the reset
                    let (cv, _, _, _) = h.verif_get_state();
                    h.verif_set_state(cv, 0x0001_0000_0203, &[0x11u8; 3][..]);
                    digest::Reset::reset(&mut h);
                }
                _ => {}
            }
            h.update(&msg[..split]);
            h.update(&msg[split..]);
            if (msg.len() + split) % 4 == 1 {
                // the digest of a clone taken after the data was absorbed
                let c = h.clone();
                h.update(b"x");
                c.finalize().to_vec()
            } else {
                h.finalize().to_vec()
            }
        }};
    }
    match v {
        224 => go!(Groestl224),
        256 => go!(Groestl256),
        384 => go!(Groestl384),
        _ => go!(Groestl512),
    }
}

/// (state; update tail; finalize); None = panicked
fn digest_from(v: u32, cv: &[u8], count: u64, buffered: &[u8], tail: &[u8]) -> Option<Vec<u8>> {
    macro_rules! go {
        ($t:ident, $n:expr) => {{
            let mut c = [0u8; $n];
            c.copy_from_slice(cv);
            catch_unwind(AssertUnwindSafe(|| {
                let mut h = $t::default();
                h.verif_set_state(c, count, buffered);
                h.update(tail);
                h.finalize().to_vec()
            }))
            .ok()
        }};
    }
    match v {
        224 => go!(Groestl224, 64),
        256 => go!(Groestl256, 64),
        384 => go!(Groestl384, 128),
        _ => go!(Groestl512, 128),
    }
}

/// hash `pre` for real and read the state back: (cv, block_counter, buffered bytes)
fn real_state(v: u32, pre: &[u8]) -> (Vec<u8>, u64, Vec<u8>) {
    macro_rules! go {
        ($t:ident) => {{
            let mut h = $t::default();
            h.update(pre);
            let (cv, cnt, content, pos) = h.verif_get_state();
            (cv.to_vec(), cnt, content[..pos].to_vec())
        }};
    }
    match v {
        224 => go!(Groestl224),
        256 => go!(Groestl256),
        384 => go!(Groestl384),
        _ => go!(Groestl512),
    }
}

/// really stream `n` patterned bytes (update calls of varying sizes), read the state back, then continue
/// the SAME object with `tail` and finalise it: (cv, block_counter, buffered, digest of the same object)
fn real_stream(v: u32, n: u64, tail: &[u8]) -> (Vec<u8>, u64, Vec<u8>, Vec<u8>) {
    macro_rules! go {
        ($t:ident) => {{
            let mut h = $t::default();
            let chunk: Vec<u8> = (0..(1usize << 20)).map(|i| (i as u32).wrapping_mul(2654435761).to_le_bytes()[3] ^ (i as u8)).collect();
            let sizes = [1usize << 20, 65537, 4096, 63, 1, 64, 129, 1 << 20, 127, 128, 256];
            let (mut done, mut k) = (0u64, 0usize);
            while done < n {
                let m = (sizes[k % sizes.len()] as u64).min(n - done) as usize;
                h.update(&chunk[..m]);
                done += m as u64;
                k += 1;
            }
            let (cv, cnt, content, pos) = h.verif_get_state();
            h.update(tail);
            (cv.to_vec(), cnt, content[..pos].to_vec(), h.finalize().to_vec())
        }};
    }
    match v {
        224 => go!(Groestl224),
        256 => go!(Groestl256),
        384 => go!(Groestl384),
        _ => go!(Groestl512),
    }
}

// ---------------------------------------------------------------------------
// raw intrinsics (op codes as in Run/Groestl.v `intrinsic`)
// ---------------------------------------------------------------------------

fn to_m(b: &[u8; 16]) -> __m128i {
    unsafe { _mm_loadu_si128(b.as_ptr() as *const __m128i) }
}
fn from_m(x: __m128i) -> [u8; 16] {
    let mut o = [0u8; 16];
    unsafe { _mm_storeu_si128(o.as_mut_ptr() as *mut __m128i, x) };
    o
}

/// the body of `compressor.rs::mul2` (a private function), copied
#[target_feature(enable = "sse2")]
unsafe fn mul2_copy(i: __m128i) -> __m128i {
    let all_1b = _mm_set1_epi64x(0x1b1b_1b1b_1b1b_1b1b);
    let j = _mm_and_si128(_mm_cmpgt_epi8(_mm_cvtsi64_si128(0), i), all_1b);
    let i = _mm_add_epi8(i, i);
    _mm_xor_si128(i, j)
}

const IMMS: [u8; 8] = [0xd8, 0x00, 0x1b, 0xe4, 0x4e, 0xb1, 0xff, 0x93];

#[target_feature(enable = "sse2,ssse3,aes")]
unsafe fn intrinsic(op: u32, imm: u8, a: &[u8; 16], b: &[u8; 16]) -> [u8; 16] {
    let (x, y) = (to_m(a), to_m(b));
    let a64 = u64::from_le_bytes(a[..8].try_into().unwrap()) as i64;
    let b64 = u64::from_le_bytes(b[..8].try_into().unwrap()) as i64;
    let r = match op {
        0 => _mm_xor_si128(x, y),
        1 => _mm_and_si128(x, y),
        2 => _mm_add_epi8(x, y),
        3 => _mm_cmpgt_epi8(x, y),
        4 => _mm_shuffle_epi8(x, y),
        5 => _mm_unpacklo_epi8(x, y),
        6 => _mm_unpacklo_epi16(x, y),
        7 => _mm_unpacklo_epi32(x, y),
        8 => _mm_unpacklo_epi64(x, y),
        9 => _mm_unpackhi_epi8(x, y),
        10 => _mm_unpackhi_epi16(x, y),
        11 => _mm_unpackhi_epi32(x, y),
        12 => _mm_unpackhi_epi64(x, y),
        13 => match imm {
            0xd8 => _mm_shuffle_epi32(x, 0xd8),
            0x00 => _mm_shuffle_epi32(x, 0x00),
            0x1b => _mm_shuffle_epi32(x, 0x1b),
            0xe4 => _mm_shuffle_epi32(x, 0xe4),
            0x4e => _mm_shuffle_epi32(x, 0x4e),
            0xb1 => _mm_shuffle_epi32(x, 0xb1),
            0xff => _mm_shuffle_epi32(x, 0xff),
            0x93 => _mm_shuffle_epi32(x, 0x93),
            _ => panic!("immediate not instantiated"),
        },
        14 => _mm_set_epi64x(a64, b64),
        15 => _mm_cvtsi64_si128(a64),
        16 => _mm_aesenclast_si128(x, y),
        17 => _mm_set1_epi64x(a64),
        18 => mul2_copy(x),
        _ => panic!("unknown op"),
    };
    from_m(r)
}

/// ops whose operands are 64-bit integers (held in the low halves, high halves zero)
fn is_int_op(op: u32) -> bool {
    op == 14 || op == 15 || op == 17
}

/// masks and constants that appear in compressor.rs (as the registers `_mm_set_epi64x(hi, lo)` builds)
fn code_masks() -> Vec<[u8; 16]> {
    let pairs: [(u64, u64); 17] = [
        (0x0f07_0b03_0e06_0a02, 0x0d05_0901_0c04_0800),
        (0x0306_0a0d_0802_0509, 0x0c0f_0104_070b_0e00),
        (0x0407_0c0f_0a03_060b, 0x0e09_0205_000d_0801),
        (0x0500_0e09_0c04_070d, 0x080b_0306_010f_0a02),
        (0x0601_080b_0e05_000f, 0x0a0d_0407_0209_0c03),
        (0x0702_090c_0f06_0108, 0x0b0e_0500_030a_0d04),
        (0x0003_0b0e_0907_020a, 0x0d08_0601_040c_0f05),
        (0x0104_0d08_0b00_030c, 0x0f0a_0702_050e_0906),
        (0x0205_0f0a_0d01_040e, 0x090c_0003_0608_0b07),
        (0x0306_090c_0f02_0508, 0x0b0e_0104_070a_0d00),
        (0x0407_0a0d_0003_0609, 0x0c0f_0205_080b_0e01),
        (0x0508_0b0e_0104_070a, 0x0d00_0306_090c_0f02),
        (0x0609_0c0f_0205_080b, 0x0e01_0407_0a0d_0003),
        (0x070a_0d00_0306_090c, 0x0f02_0508_0b0e_0104),
        (0x080b_0e01_0407_0a0d, 0x0003_0609_0c0f_0205),
        (0x090c_0f02_0508_0b0e, 0x0104_070a_0d00_0306),
        (0x0e01_0407_0a0d_0003, 0x0609_0c0f_0205_080b),
    ];
    pairs
        .iter()
        .map(|&(hi, lo)| {
            let mut r = [0u8; 16];
            r[..8].copy_from_slice(&lo.to_le_bytes());
            r[8..].copy_from_slice(&hi.to_le_bytes());
            r
        })
        .collect()
}

fn reg_pattern(rng: &mut Rng, k: usize) -> [u8; 16] {
    let mut r = [0u8; 16];
    match k % 9 {
        0 => (0..16).for_each(|i| r[i] = i as u8),
        1 => (0..16).for_each(|i| r[i] = 0x10 + i as u8),
        2 => r = [0xff; 16],
        3 => {
            let bit = rng.below(128) as usize;
            r[bit / 8] = 1 << (bit % 8);
        }
        4 => (0..16).for_each(|i| r[i] = *rng.pick(&[0x00u8, 0x01, 0x7f, 0x80, 0x81, 0xfe, 0xff])),
        5 => (0..16).for_each(|i| r[i] = 0xf0 - 0x10 * i as u8 + (rng.below(16) as u8)),
        6 => {}
        _ => rng.fill(&mut r),
    }
    r
}

struct ICase {
    op: u32,
    imm: u8,
    a: [u8; 16],
    b: [u8; 16],
}

fn gen_intrinsics(rng: &mut Rng, thorough: bool) -> Vec<ICase> {
    let mut v = Vec::new();
    let masks = code_masks();
    let idx: [u8; 16] = core::array::from_fn(|i| i as u8);
    let reps = if thorough { 24 } else { 4 };
    // two-operand register ops: pattern x pattern, then random
    for &op in &[0u32, 1, 2, 3, 5, 6, 7, 8, 9, 10, 11, 12] {
        v.push(ICase { op, imm: 0, a: idx, b: core::array::from_fn(|i| 0x10 + i as u8) });
        for k in 0..reps * 3 {
            let a = reg_pattern(rng, k + op as usize);
            let b = reg_pattern(rng, k / 2 + 3 * op as usize);
            v.push(ICase { op, imm: 0, a, b });
        }
    }
    // byte addition: every carry out of bit 7 (x + x for every x, as mul2 uses it)
    for base in (0..256).step_by(16) {
        let a: [u8; 16] = core::array::from_fn(|i| (base + i) as u8);
        v.push(ICase { op: 2, imm: 0, a, b: a });
        v.push(ICase { op: 18, imm: 0, a, b: [0; 16] });
        // signed comparison against zero and against a random register, every byte value
        v.push(ICase { op: 3, imm: 0, a: [0; 16], b: a });
        v.push(ICase { op: 3, imm: 0, a, b: reg_pattern(rng, 4) });
    }
    // pshufb: the masks of the code on the index pattern (makes any mask error visible),
    // index bytes with bit 7 set, index bytes using bits 4..6
    for m in masks.iter() {
        v.push(ICase { op: 4, imm: 0, a: idx, b: *m });
        v.push(ICase { op: 4, imm: 0, a: reg_pattern(rng, 7), b: *m });
    }
    for k in 0..reps * 4 {
        let a = if k % 2 == 0 { core::array::from_fn(|i| 0xa0 + i as u8) } else { reg_pattern(rng, 7) };
        let mut m = [0u8; 16];
        for i in 0..16 {
            m[i] = match (k + i) % 4 {
                0 => rng.below(16) as u8,
                1 => 0x80 | rng.below(128) as u8,
                2 => 0x10 * (1 + rng.below(7) as u8) + rng.below(16) as u8,
                _ => rng.below(256) as u8,
            };
        }
        v.push(ICase { op: 4, imm: 0, a, b: m });
    }
    // pshufd
    for &imm in IMMS.iter() {
        v.push(ICase { op: 13, imm, a: idx, b: [0; 16] });
        v.push(ICase { op: 13, imm, a: reg_pattern(rng, 7), b: [0; 16] });
    }
    // integer constructors
    for &op in &[14u32, 15, 17] {
        for k in 0..reps * 2 {
            let x = if k == 0 { 0x0706_0504_0302_0100 } else { rng.word64() };
            let y = if k == 0 { 0x0f0e_0d0c_0b0a_0908 } else { rng.word64() };
            let mut a = [0u8; 16];
            let mut b = [0u8; 16];
            a[..8].copy_from_slice(&x.to_le_bytes());
            b[..8].copy_from_slice(&y.to_le_bytes());
            if op != 14 {
                b = [0; 16];
            }
            v.push(ICase { op, imm: 0, a, b });
        }
    }
    // aesenclast: every byte value splatted (fixes SubBytes), every byte value once in
    // 16 registers (zero key: fixes SubBytes o ShiftRows given SubBytes), random with keys
    let step = if thorough { 1 } else { 4 };
    for x in (0..256).step_by(step) {
        v.push(ICase { op: 16, imm: 0, a: [x as u8; 16], b: [0; 16] });
    }
    for base in (0..256).step_by(16) {
        let a: [u8; 16] = core::array::from_fn(|i| (base + i) as u8);
        v.push(ICase { op: 16, imm: 0, a, b: [0; 16] });
    }
    for k in 0..reps * 4 {
        v.push(ICase { op: 16, imm: 0, a: reg_pattern(rng, 7), b: reg_pattern(rng, k) });
    }
    // mul2 on patterns
    for k in 0..reps * 2 {
        v.push(ICase { op: 18, imm: 0, a: reg_pattern(rng, k), b: [0; 16] });
    }
    v
}

// ---------------------------------------------------------------------------
// digest cases
// ---------------------------------------------------------------------------

fn content(rng: &mut Rng, kind: usize, n: usize) -> Vec<u8> {
    match kind % 5 {
        0 => {
            let mut v = vec![0u8; n];
            rng.fill(&mut v);
            v
        }
        1 => vec![0u8; n],
        2 => vec![0xffu8; n],
        3 => (0..n).map(|i| i as u8).collect(),
        _ => rng.bytes(n),
    }
}

fn split_for(rng: &mut Rng, len: usize, bs: usize) -> usize {
    let c = [0, len, bs, bs.wrapping_sub(1), bs + 1, 2 * bs, len.saturating_sub(1), len / 2, bs - 8, bs - 9];
    let s = if rng.chance(1, 3) { rng.below(len as u64 + 1) as usize } else { *rng.pick(&c) };
    s.min(len)
}

/// Definitions prepended to the generated case files (nothing in /verif/coq changes): `LP len seed` is the
/// number whose little-endian encoding is the `len` bytes "high byte of x_i", x_0 = seed, x_{i+1} = 5 x_i + 12345
/// mod 2^16. coqc needs ~80 us per byte of a literal; this term costs a few ms.
const LP_HEADER: &str = "From CC Require Import Lib.Bytes.\nFixpoint lp_bytes (n : nat) (x : N) : list N := match n with O => nil | S k => cons (N.shiftr x 8%N) (lp_bytes k (N.land (x * 5 + 12345)%N 65535%N)) end.\nDefinition LP (n seed : N) : N := le_join (lp_bytes (N.to_nat n) (N.land seed 65535%N)).";
fn lp_fill(n: usize, seed: u16) -> Vec<u8> {
    let mut x = seed as u32;
    (0..n)
        .map(|_| {
            let b = (x >> 8) as u8;
            x = (x * 5 + 12345) & 0xffff;
            b
        })
        .collect()
}
/// the seed if `msg` (4 KiB or more) is such a sequence
fn lp_seed(msg: &[u8]) -> Option<u16> {
    if msg.len() < 4096 {
        return None;
    }
    (0..256u16).map(|lo| (msg[0] as u16) << 8 | lo).find(|s| lp_fill(16, *s)[..] == msg[..16] && lp_fill(msg.len(), *s)[..] == msg[..])
}

struct DCase {
    v: u32,
    msg: Vec<u8>,
    split: usize,
    stream: &'static str,
}

fn gen_digests(rng: &mut Rng, thorough: bool, reduced: bool) -> Vec<DCase> {
    let mut out = Vec::new();
    // A: every length 0 ..= 2*block+1 for every variant (reduced: the boundary lengths
    //    and every 5th)
    for len in 0..=(2 * 128 + 1) {
        for (vi, &v) in VARIANTS.iter().enumerate() {
            let bs = block_size(v);
            if len > 2 * bs + 1 {
                continue;
            }
            let r = len % bs;
            let boundary = r >= bs - 10 && r <= bs - 6 || r <= 1 || r == bs - 1;
            // quick tier: every length for Groestl-256 and, up to one block + 1, for
            // Groestl-512; the truncated variants (same compression, other IV and
            // truncation) and the second block of Groestl-512 get the boundary lengths
            // and a rotating part of the others
            let keep = if thorough {
                true
            } else if reduced {
                boundary || (len + vi) % 8 == 0
            } else {
                match v {
                    256 => true,
                    512 => len <= bs + 1 || boundary || len % 2 == 0,
                    _ => boundary || (len + vi) % 4 == 0,
                }
            };
            if !keep {
                continue;
            }
            let reps = if thorough { 3 } else { 1 };
            for rep in 0..reps {
                let msg = content(rng, len + vi + rep, len);
                let split = split_for(rng, len, bs);
                out.push(DCase { v, msg, split, stream: "residues" });
            }
        }
    }
    // B: sparse longer messages: 3, 4, 5 blocks and the boundaries inside them
    let mut lens: Vec<(u32, usize)> = Vec::new();
    for &v in VARIANTS.iter() {
        let bs = block_size(v);
        for &l in &[3 * bs - 9, 3 * bs - 8, 3 * bs - 7, 3 * bs, 4 * bs + bs / 2, 5 * bs - 1] {
            lens.push((v, l));
        }
        if !reduced {
            lens.push((v, 1000));
            lens.push((v, 7 * bs + 55));
        }
        if thorough {
            // block count 256/257 reached for real (needs a second count byte)
            lens.push((v, 255 * bs - 9));
            lens.push((v, 255 * bs - 8));
            lens.push((v, 256 * bs + 1));
            for _ in 0..40 {
                lens.push((v, rng.below(40 * bs as u64) as usize));
            }
        }
    }
    for (k, (v, len)) in lens.into_iter().enumerate() {
        let bs = block_size(v);
        let msg = content(rng, k, len);
        let split = split_for(rng, len, bs);
        out.push(DCase { v, msg, split, stream: "long" });
    }
    // C: ONE update call with a long message (split = 0: an empty update, then everything in one call): 8 KiB and
    //    16 KiB + 1 per 512-bit-state variant; the plain streams otherwise stop at 1 KiB in quick (32 KiB in thorough). Only in
    //    the full stream (C07 runs it once; ~10-30 ms per block in coqc). Contents: the sequence LP.
    //    Measured under load: 16 KiB + 1 costs a shard +11 s (224/256) resp. +19 s (384/512: 1024-bit permutations), so
    //    the wide variants get 8 KiB, and Groestl-512 12 KiB + 1 as its second length (384 differs from 512 in IV and
    //    truncation only).
    if !reduced {
        for &v in VARIANTS.iter() {
            let lens: &[usize] = match v { 384 => &[8192], 512 => &[8192, 12289], _ => &[8192, 16385] };
            for &len in lens {
                out.push(DCase { v, msg: lp_fill(len, rng.below(1 << 16) as u16), split: 0, stream: "one_long_update" });
            }
        }
    }
    out
}

struct SCase {
    v: u32,
    cv: Vec<u8>,
    count: u64,
    buffered: Vec<u8>,
    tail: Vec<u8>,
    stream: &'static str,
    /// Some(r): the outcome was already obtained (by the object that reached the state by hashing: r = its
    /// digest, None = it panicked); None: enter the state into a fresh object
    pre: Option<Option<Vec<u8>>>,
}

fn gen_states(rng: &mut Rng, thorough: bool, seed: u64) -> Vec<SCase> {
    let mut out = Vec::new();
    // C: real states read back through the hook (ties the stored layout of the chaining
    //    value and the meaning of block_counter to genuine states)
    for (k, &v) in VARIANTS.iter().cycle().take(if thorough { 64 } else { 16 }).enumerate() {
        let bs = block_size(v);
        let pre_len = [0, 1, bs, bs + 7, 2 * bs - 1, 3 * bs, bs - 8, 2 * bs - 9][k / 4 % 8] + (k / 32) * bs;
        let pre = content(rng, k, pre_len);
        // (a panic while absorbing a plain message is reported by the digest cases; here the state is skipped)
        let (cv, count, buffered) = match catch_unwind(AssertUnwindSafe(|| real_state(v, &pre))) {
            Ok(x) => x,
            Err(_) => continue,
        };
        let tail = content(rng, k + 1, [0, 1, bs - 8, bs, 9][k % 5]);
        out.push(SCase { v, cv, count, buffered, tail, stream: "hook_real_state", pre: None });
    }
    // D: arbitrary chaining value, block_counter next to a carry boundary, buffered/tail
    //    lengths so that the final count lands on either side of it
    let mut counts: Vec<u64> = Vec::new();
    for &p in &[8u32, 16, 32, 24, 40, 48, 56] {
        let b = 1u64 << p;
        let key = p == 8 || p == 16 || p == 32;
        for d in 1..=(if thorough { 4u64 } else if key { 3 } else { 1 }) {
            counts.push(b - d);
        }
        counts.push(b);
    }
    for d in 1..=(if thorough { 5u64 } else { 3 }) {
        counts.push(0u64.wrapping_sub(d)); // next to 2^64
    }
    counts.extend_from_slice(&[0, 0x0102_0304_0506_0708, 0x8000_0000_0000_0000]);
    if thorough {
        counts.extend_from_slice(&[1, 0x00ff_ffff_ffff_ffff]);
    }
    let mut k = 0usize;
    for &count in counts.iter() {
        for &v in VARIANTS.iter() {
            let bs = block_size(v);
            // (buffered, tail) pairs: no block emitted and one / two final blocks; one block
            // emitted; two emitted and the <= 8-bytes-left boundary
            let shapes: [(usize, usize); 8] = [
                (0, 0),
                (bs - 9, 0),
                (bs - 8, 0),
                (1, bs - 1),
                (bs - 1, 1 + bs - 8),
                (0, 2 * bs + 1),
                (7, bs - 7 - 9),
                (bs / 2, bs / 2 + bs - 1),
            ];
            for (si, &(nb, nt)) in shapes.iter().enumerate() {
                k += 1;
                // quick tier: a quarter of the shapes (an eighth for the truncated variants), rotating with
                // the boundary, the variant AND the seed, so that every (shape, count, variant) is met at
                // some seed
                let ci = counts.iter().position(|&c| c == count).unwrap();
                let vi = VARIANTS.iter().position(|&x| x == v).unwrap();
                let m = if v == 224 || v == 384 { 8 } else { 4 };
                if !thorough && (si + ci + 3 * vi + seed as usize) % m != 0 {
                    continue;
                }
                let cv = if k % 7 == 0 { (0..bs).map(|i| i as u8).collect() } else { content(rng, k % 4 * 4, bs) };
                let buffered = content(rng, k, nb);
                let tail = content(rng, k + si, nt);
                out.push(SCase { v, cv, count, buffered, tail, stream: "hook_counter_boundary", pre: None });
            }
        }
    }
    out
}

/// hash `pre`, read the state back, enter it into a fresh hasher, continue both
fn hook_roundtrip(v: u32, pre: &[u8], tail: &[u8]) -> Option<String> {
    let bs = block_size(v);
    let (cv, count, buffered) = real_state(v, pre);
    let via_hook = digest_from(v, &cv, count, &buffered, tail);
    let direct = digest2(v, &[pre, tail].concat(), pre.len());
    let ok = via_hook.as_deref() == Some(&direct[..])
        && count == (pre.len() / bs) as u64
        && buffered[..] == pre[pre.len() - pre.len() % bs..];
    if ok {
        None
    } else {
        Some(format!(
            "{{\"kind\":\"hook-roundtrip\",\"variant\":{},\"pre_len\":{},\"tail_len\":{},\"block_counter\":{},\"buffered\":{}}}",
            v,
            pre.len(),
            tail.len(),
            count,
            buffered.len()
        ))
    }
}

fn main() {
    let argv: Vec<String> = std::env::args().collect();
    if argv.len() < 2 || argv[1] != "groestl" {
        eprintln!("usage: h_groestl groestl [--seed N --shards N --out DIR --tier quick|thorough --streams all|reduced|hook --real N --runner run_c07]");
        std::process::exit(2);
    }
    let a = Args::parse(&argv[2..]);
    let seed = a.u64("seed", 1);
    let shards = a.u64("shards", 16) as usize;
    let out = a.str("out", "/verif/_build/work/groestl-manual");
    let thorough = a.str("tier", "quick") == "thorough";
    let hook_only = a.str("streams", "all") == "hook";
    let reduced = a.str("streams", "all") == "reduced" || hook_only;
    let real = a.u64("real", 0);
    let runner = a.str("runner", "run_c07");
    let debug = cfg!(debug_assertions);
    let profile = if debug { "debug" } else { "release" };
    std::panic::set_hook(Box::new(|_| {}));
    if !(is_x86_feature_detected!("aes") && is_x86_feature_detected!("ssse3")) {
        eprintln!("host lacks aes/ssse3");
        std::process::exit(3);
    }

    let mut rng = Rng::new(seed ^ 0x6705_7e51);
    let dcases = if hook_only { Vec::new() } else { gen_digests(&mut rng, thorough, reduced) };
    let mut scases = gen_states(&mut rng, thorough, seed);
    // C17: block counts 2^8, 2^16 (and 2^24 from the fourth case on) reached by really streaming
    // data; the counter read back must be the number of blocks streamed, the tail then crosses it
    let mut real_direct: Vec<String> = Vec::new();
    let mut real_bytes = 0u64;
    for k in 0..real {
        let v = VARIANTS[(k as usize + 1) % 4];
        let bs = block_size(v) as u64;
        let p = [8u32, 16, 16, 24, 8, 24][k as usize % 6];
        let below = [1u64, 2 * bs + 5, bs - 8, bs + 1, 3 * bs, 9][k as usize % 6]; // bytes short of 2^p blocks
        let n = (bs << p) - below;
        let tail = content(&mut rng, k as usize, below as usize + [0usize, 1, 7, bs as usize - 8, bs as usize][k as usize % 5]);
        let (cv, count, buffered, same) = match catch_unwind(AssertUnwindSafe(|| real_stream(v, n, &tail))) {
            Ok(x) => x,
            Err(_) => {
                real_direct.push(format!("{{\"kind\":\"panic while really streaming\",\"variant\":{},\"streamed\":{}}}", v, n));
                continue;
            }
        };
        real_bytes += n;
        if count != n / bs || buffered.len() as u64 != n % bs {
            real_direct.push(format!(
                "{{\"kind\":\"block_counter after really streaming\",\"variant\":{},\"streamed\":{},\"block_counter\":{},\"pos\":{}}}",
                v, n, count, buffered.len()
            ));
        }
        // the tail crosses the boundary twice: in a fresh object the read-back state is entered into, and in the
        // streamed object itself (a private field the hook does not expose would make the two differ)
        let fresh = digest_from(v, &cv, count, &buffered, &tail);
        if fresh.as_deref() != Some(&same[..]) {
            real_direct.push(format!(
                "{{\"kind\":\"the streamed object continued with the tail and a fresh object entered with its read-back state return different digests\",\"variant\":{},\"streamed\":{},\"tail\":{},\"same_object\":{},\"fresh_object_from_state\":{}}}",
                v, n, jstr(&hex(&tail)), jstr(&hex(&same)), jstr(&hex(fresh.as_deref().unwrap_or(&[])))
            ));
        }
        scases.push(SCase { v, cv: cv.clone(), count, buffered: buffered.clone(), tail: tail.clone(), stream: "real_stream", pre: None });
        scases.push(SCase { v, cv, count, buffered, tail, stream: "real_stream_same_object", pre: Some(Some(same)) });
    }
    let icases = if reduced { Vec::new() } else { gen_intrinsics(&mut rng, thorough) };

    // direct sanity of the hook itself
    let mut direct: Vec<String> = real_direct;
    for (k, &v) in VARIANTS.iter().cycle().take(24).enumerate() {
        let bs = block_size(v);
        let pre = content(&mut rng, k, [0, 1, bs - 1, bs, 2 * bs + 3, 5 * bs][k / 4]);
        let tail = content(&mut rng, k + 2, [0, 9, bs][k % 3]);
        match catch_unwind(AssertUnwindSafe(|| hook_roundtrip(v, &pre, &tail))) {
            Ok(Some(f)) => direct.push(f),
            Ok(None) => {}
            Err(_) => direct.push(format!("{{\"kind\":\"hook-roundtrip\",\"outcome\":\"panic\",\"variant\":{},\"pre\":{},\"tail\":{}}}", v, jstr(&hex(&pre)), jstr(&hex(&tail)))),
        }
    }

    // interleave the three kinds so that the shards carry equal load
    let mut coq: Vec<String> = Vec::new();
    let mut js: Vec<String> = Vec::new();
    let mut samples: Vec<String> = Vec::new();
    let mut distinct = std::collections::HashSet::new();
    let mut by_stream: std::collections::BTreeMap<&str, usize> = Default::default();
    let mut by_variant = [0usize; 4];
    let mut panics = 0usize;
    let mut max_len = 0usize;
    let mut blocks_total = 0usize;
    let mut trivial = 0usize;

    let (mut len_checked, mut bad_len, mut beyond_domain) = (0usize, 0usize, 0usize);
    for c in dcases.iter() {
        let r = catch_unwind(AssertUnwindSafe(|| digest2(c.v, &c.msg, c.split))).ok();
        panics += r.is_none() as usize;
        let outcome = if r.is_some() { "ok" } else { "panic" };
        let d = r.unwrap_or_default();
        len_checked += 1;
        if d.len() != out_len(c.v) {
            bad_len += (outcome == "ok") as usize;
            if direct.len() < 12 {
                direct.push(format!(
                    "{{\"kind\":{},\"case\":{{\"kind\":\"digest\",\"variant\":{},\"msg\":{},\"split\":{},\"outcome\":\"{}\",\"digest_len\":{},\"expected_digest_len\":{},\"digest\":{}}}}}",
                    jstr(if outcome == "ok" { "the digest returned does not have the variant's length" } else { "the implementation panicked on a plain message" }),
                    c.v, jstr(&hex(&c.msg)), c.split, outcome, d.len(), out_len(c.v), jstr(&hex(&d))
                ));
            }
        }
        *by_stream.entry(c.stream).or_insert(0) += 1;
        by_variant[VARIANTS.iter().position(|&x| x == c.v).unwrap()] += 1;
        max_len = max_len.max(c.msg.len());
        blocks_total += (c.msg.len() + 9 + block_size(c.v) - 1) / block_size(c.v);
        let lp = if c.stream == "one_long_update" { lp_seed(&c.msg) } else { None };
        let mlit = match lp {
            Some(sd) => format!("(LP {} {})", c.msg.len(), sd),
            None => nlit(&c.msg),
        };
        let term = format!("GD {} {} {} {} {}", c.v, c.msg.len(), mlit, c.split, nlit(&d));
        distinct.insert(term.clone());
        coq.push(term);
        let j = format!(
            "{{\"kind\":\"digest\",\"variant\":{},\"profile\":{},\"stream\":{},\"msg_len\":{},\"msg\":{},\"split\":{},\"outcome\":\"{}\",\"digest_len\":{},\"expected_digest_len\":{},\"digest\":{}}}",
            c.v,
            jstr(profile),
            jstr(c.stream),
            c.msg.len(),
            match lp {
                Some(sd) => jstr(&format!("byte i = x_i >> 8, x_0 = {}, x_(i+1) = (5 x_i + 12345) mod 65536; first bytes {}", sd, hex(&c.msg[..16]))),
                None => jstr(&hex(&c.msg)),
            },
            c.split,
            outcome,
            d.len(),
            out_len(c.v),
            jstr(&hex(&d))
        );
        if c.msg.len() == 56 && samples.len() < 2 {
            samples.push(j.clone());
        }
        js.push(j);
    }
    for c in scases.iter() {
        let r = match &c.pre {
            Some(r) => r.clone(),
            None => digest_from(c.v, &c.cv, c.count, &c.buffered, &c.tail),
        };
        let panicked = r.is_none();
        panics += panicked as usize;
        let d = r.unwrap_or_default();
        // the property speaks about messages of fewer than 2^64 blocks (padding included): states whose total
        // lies beyond are pinned to the behaviour as written (debug panics, release wraps) and tagged, so that
        // a later repair there can be told from a violation
        let padded_blocks = (c.buffered.len() + c.tail.len() + 8) / block_size(c.v) + 1;
        let beyond = (c.count as u128) + (padded_blocks as u128) >= 1u128 << 64;
        beyond_domain += beyond as usize;
        if !panicked {
            len_checked += 1;
            if d.len() != out_len(c.v) {
                bad_len += 1;
                if direct.len() < 12 {
                    direct.push(format!(
                        "{{\"kind\":\"the digest returned does not have the variant's length\",\"case\":{{\"kind\":\"entered_state\",\"variant\":{},\"cv\":{},\"block_counter\":\"0x{:x}\",\"buffered\":{},\"tail\":{},\"digest_len\":{},\"expected_digest_len\":{},\"digest\":{}}}}}",
                        c.v, jstr(&hex(&c.cv)), c.count, jstr(&hex(&c.buffered)), jstr(&hex(&c.tail)), d.len(), out_len(c.v), jstr(&hex(&d))
                    ));
                }
            }
        }
        *by_stream.entry(c.stream).or_insert(0) += 1;
        by_variant[VARIANTS.iter().position(|&x| x == c.v).unwrap()] += 1;
        blocks_total += (c.buffered.len() + c.tail.len() + 9 + block_size(c.v) - 1) / block_size(c.v);
        let term = format!(
            "GS {} {} {} {} {} {} {} {} {} {}",
            c.v,
            debug,
            nlit(&c.cv),
            nlit_u64(c.count),
            c.buffered.len(),
            nlit(&c.buffered),
            c.tail.len(),
            nlit(&c.tail),
            panicked,
            nlit(&d)
        );
        distinct.insert(term.clone());
        coq.push(term);
        let j = format!(
            "{{\"kind\":\"entered_state\",\"variant\":{},\"profile\":{},\"stream\":{},\"domain\":{},\"cv\":{},\"block_counter\":{},\"buffered\":{},\"tail\":{},\"outcome\":{},\"digest_len\":{},\"digest\":{}}}",
            c.v,
            jstr(profile),
            jstr(c.stream),
            jstr(if beyond { "beyond the property's domain: block_counter + padded blocks >= 2^64 (behaviour as written is pinned: overflow checks panic, otherwise the counter wraps)" } else { "within" }),
            jstr(&hex(&c.cv)),
            jstr(&format!("0x{:x}", c.count)),
            jstr(&hex(&c.buffered)),
            jstr(&hex(&c.tail)),
            jstr(if panicked { "panic" } else { "ok" }),
            d.len(),
            jstr(&hex(&d))
        );
        if (c.count == 255 || c.count == u64::MAX) && samples.len() < 5 {
            samples.push(j.clone());
        }
        js.push(j);
    }
    for c in icases.iter() {
        let r = unsafe { intrinsic(c.op, c.imm, &c.a, &c.b) };
        *by_stream.entry("intrinsic").or_insert(0) += 1;
        let (la, lb) = if is_int_op(c.op) { (nlit(&c.a[..8]), nlit(&c.b[..8])) } else { (nlit(&c.a), nlit(&c.b)) };
        let term = format!("GI {} {} {} {} {}", c.op, c.imm, la, lb, nlit(&r));
        // non-triviality rule: an intrinsic case whose operands are all zero shows nothing
        if c.a == [0u8; 16] && c.b == [0u8; 16] {
            trivial += 1;
        } else {
            distinct.insert(term.clone());
        }
        coq.push(term);
        let j = format!(
            "{{\"kind\":\"intrinsic\",\"op\":{},\"imm\":{},\"a\":{},\"b\":{},\"result\":{}}}",
            c.op,
            c.imm,
            jstr(&hex(&c.a)),
            jstr(&hex(&c.b)),
            jstr(&hex(&r))
        );
        if c.op == 16 && samples.len() < 6 {
            samples.push(j.clone());
        }
        js.push(j);
    }
    // deterministic shuffle so that long and short cases spread over the shards
    let n = coq.len();
    let mut order: Vec<usize> = (0..n).collect();
    let mut srng = Rng::new(seed ^ 0x51f1);
    for i in (1..n).rev() {
        let j = srng.below(i as u64 + 1) as usize;
        order.swap(i, j);
    }
    // the long one-update digests (each costs its shard several seconds): positions 0, 1, 2, ... i.e. different shards
    {
        let mut t = 0usize;
        for p in 0..n {
            if coq[order[p]].starts_with("GD ") && coq[order[p]].contains("(LP ") {
                if p != t {
                    order.swap(p, t);
                }
                t += 1;
            }
        }
    }
    let coq: Vec<String> = order.iter().map(|&i| coq[i].clone()).collect();
    let js: Vec<String> = order.iter().map(|&i| js[i].clone()).collect();

    write_shards(
        &out,
        shards,
        &format!("From Coq Require Import NArith List.\nFrom CC Require Import Run.Runner Run.Groestl.\n{}", LP_HEADER),
        "gcase",
        &runner,
        &coq,
    );
    std::fs::write(format!("{}/cases.json", out), format!("[{}]", js.join(",\n"))).unwrap();
    let streams_js: Vec<String> = by_stream.iter().map(|(k, v)| format!("{}:{}", jstr(k), v)).collect();
    println!(
        "{{\"evaluations\":{},\"distinct_nontrivial\":{},\"profile\":{},\"by_variant\":{{\"224\":{},\"256\":{},\"384\":{},\"512\":{}}},\"by_stream\":{{{}}},\"panics\":{},\"trivial_intrinsic_cases\":{},\"max_msg_len\":{},\"message_blocks_total\":{},\"hook_roundtrips\":24,\"really_streamed_bytes\":{},\"digest_lengths_checked\":{},\"digests_of_wrong_length\":{},\"beyond_domain_cases_tagged\":{},\"hook_shape_rotation\":{},\"direct_failures\":[{}],\"samples\":[{}]}}",
        n,
        distinct.len(),
        jstr(profile),
        by_variant[0],
        by_variant[1],
        by_variant[2],
        by_variant[3],
        streams_js.join(","),
        panics,
        trivial,
        max_len,
        blocks_total,
        real_bytes,
        len_checked,
        bad_len,
        beyond_domain,
        seed % 8,
        direct.join(","),
        samples.join(",")
    );
}
