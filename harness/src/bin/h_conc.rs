#![allow(dead_code, deprecated)]
//! C18 — concurrent first use and interleaving of instances.
//!
//! `conc`   orchestrator:
//!          (1) reference = every algorithm run in a process OF ITS OWN (`ref --which cold|hammer --index j`,
//!              single-threaded, nothing else ever ran in that process); two whole-sequence single-threaded
//!              processes (all algorithms one after the other, forwards and backwards) are compared with it:
//!              a result that depends on what ran before in the process/thread differs there without any thread;
//!          (2) `--procs` COLD worker processes (re-exec of this binary), each with T in {2,3,4,8,16,32,64}
//!              threads released by a barrier whose very first calls go into the algorithms (Groestl first),
//!              followed by a hammer phase (short operations, construction-dominated, all threads on the same
//!              families at the same time); every result of every thread is compared with the reference;
//!          (3) random interleavings of update / apply / seek / reset / clone / finalize_reset operations over
//!              several instances in one thread, against the same instances run one at a time in this process
//!              AND one at a time in a separate process (`ref-rounds`: rounds and instances in the opposite
//!              order, unrelated cipher traffic between two instances).
//! What shares what (the trigger conditions an audit found missing): all ChaCha type aliases get the SAME key
//! and nonce prefix (and a `-otherkey` twin: other key, same nonce, same seek positions); every Skein state
//! size is used with several output sizes N in one process (16..128 bytes, colliding in N/32 and in
//! trailing_zeros(N)); streams seek into the middle of shared blocks; hashers are cloned, reset and
//! finalize_reset in the middle of other instances' work.
//! `worker` one cold process. `ref` / `ref-rounds` the references.
#[path = "../util.rs"]
mod util;
use util::*;

use cipher::generic_array::GenericArray;
use cipher::{BlockEncrypt, NewCipher, StreamCipher, StreamCipherSeek};
use digest::generic_array::typenum::{U128, U16, U20, U24, U28, U32, U48, U64};
use digest::{FixedOutput, Reset, Update};
use std::collections::{BTreeMap, HashSet};
use std::sync::{Arc, Barrier};

const VARIANTS: usize = 4;
/// every stream cipher type takes key and nonce from the same message
const FAM_STREAM: usize = 1000;

fn msg(fam: usize, v: usize, seed: u64) -> Vec<u8> {
    let mut r = Rng::new(seed ^ ((fam as u64) << 20) ^ ((v as u64) << 8) ^ 0xc18);
    let mut m = vec![0u8; 150 + 61 * v + 7 * (fam % 64) + if v == 3 { 2100 } else { 0 }];
    r.fill(&mut m);
    m
}

/// results longer than 96 bytes are reported as a 128-bit fingerprint (two FNV-1a lanes; equality is all that is used)
fn fp(b: &[u8]) -> String {
    if b.len() <= 96 {
        return hex(b);
    }
    let (mut a, mut c) = (0xcbf2_9ce4_8422_2325u64, 0x8422_2325_cbf2_9ce4u64 ^ b.len() as u64);
    for &x in b {
        a = (a ^ x as u64).wrapping_mul(0x0000_0100_0000_01b3);
        c = (c ^ x as u64).wrapping_mul(0x0000_0100_0000_01b3).rotate_left(29) ^ a;
    }
    format!("fp{:016x}{:016x}len{}", a, c, b.len())
}

trait Hs: Update + FixedOutput + Reset + Clone + Default {}
impl<T: Update + FixedOutput + Reset + Clone + Default> Hs for T {}

/// digest of m four ways: straight (two updates: block buffer, then whole blocks directly) ended by
/// finalize_reset; the reset object reused on the tail; a clone taken mid-message; a dirty object reset
fn hash_one<H: Hs>(m: &[u8]) -> Vec<u8> {
    let mut h = H::default();
    let cut = m.len() / 3;
    h.update(&m[..cut]);
    let mut c = h.clone();
    h.update(&m[cut..]);
    let mut out = h.finalize_fixed_reset().to_vec();
    h.update(&m[cut..]);
    out.extend_from_slice(&h.finalize_fixed_reset());
    c.update(&m[cut..]);
    out.extend_from_slice(&c.finalize_fixed());
    let mut r = H::default();
    r.update(&m[..m.len().min(71)]);
    Reset::reset(&mut r);
    r.update(m);
    out.extend_from_slice(&r.finalize_fixed());
    out
}

/// construction-dominated: default() + one short block + output
fn hash_short<H: Hs>(m: &[u8]) -> Vec<u8> {
    let mut h = H::default();
    h.update(&m[..24]);
    h.finalize_fixed().to_vec()
}

trait Sc: NewCipher + StreamCipher + StreamCipherSeek {}
impl<T: NewCipher + StreamCipher + StreamCipherSeek> Sc for T {}

fn new_cipher<C: Sc>(m: &[u8], otherkey: bool) -> C {
    let k = <C as NewCipher>::KeySize::to_usize_();
    let n = <C as NewCipher>::NonceSize::to_usize_();
    let mut key = m[..k].to_vec();
    if otherkey {
        for b in key.iter_mut() {
            *b ^= 0xa5;
        }
    }
    // the nonce always starts at the same offset: ChaCha (8) / Ietf (12) / XChaCha (24) share its prefix
    C::new(GenericArray::from_slice(&key), GenericArray::from_slice(&m[32..32 + n]))
}

fn stream_any<C: Sc>(m: &[u8], otherkey: bool) -> Vec<u8> {
    let mut c: C = new_cipher(m, otherkey);
    let mut out = m.to_vec();
    out.extend_from_slice(&[0u8; 300]);
    c.apply_keystream(&mut out[..100]);
    c.apply_keystream(&mut out[100..]);
    // into the middle of a block that every other stream instance of this thread also visits
    c.seek(64u64 * 3 + 17);
    let mut b = [0u8; 90];
    c.apply_keystream(&mut b);
    out.extend_from_slice(&b);
    c.seek(5u64);
    let mut b = [0u8; 70];
    c.apply_keystream(&mut b[..3]);
    c.apply_keystream(&mut b[3..]);
    out.extend_from_slice(&b);
    let p: u64 = c.current_pos();
    out.extend_from_slice(&p.to_le_bytes());
    out
}
fn stream_one<C: Sc>(m: &[u8]) -> Vec<u8> {
    stream_any::<C>(m, false)
}
fn stream_other<C: Sc>(m: &[u8]) -> Vec<u8> {
    stream_any::<C>(m, true)
}
fn stream_short<C: Sc>(m: &[u8]) -> Vec<u8> {
    let mut c: C = new_cipher(m, false);
    let mut b = [0u8; 24];
    c.apply_keystream(&mut b[..10]);
    c.seek(70u64);
    c.apply_keystream(&mut b[10..]);
    b.to_vec()
}

trait ToUsize {
    fn to_usize_() -> usize;
}
impl<T: digest::generic_array::typenum::Unsigned> ToUsize for T {
    fn to_usize_() -> usize {
        T::USIZE
    }
}

type AlgFn = fn(&[u8]) -> Vec<u8>;
struct Alg {
    name: &'static str,
    f: AlgFn,
    /// which message: own index for hashes, FAM_STREAM for every stream cipher
    fam: usize,
}

fn tf512(m: &[u8]) -> Vec<u8> {
    let c = threefish_cipher::Threefish512::with_tweak(GenericArray::from_slice(&m[..64]), 1, 2);
    let mut b = GenericArray::clone_from_slice(&m[64..128]);
    c.encrypt_block(&mut b);
    b.to_vec()
}

macro_rules! skein_list {
    ($m:ident) => {
        $m!(
            ("Skein256-128", Skein256<U16>), ("Skein256-160", Skein256<U20>), ("Skein256-192", Skein256<U24>),
            ("Skein256-224", Skein256<U28>), ("Skein256-256", Skein256<U32>), ("Skein256-384", Skein256<U48>),
            ("Skein256-512", Skein256<U64>),
            ("Skein512-128", Skein512<U16>), ("Skein512-160", Skein512<U20>), ("Skein512-224", Skein512<U28>),
            ("Skein512-256", Skein512<U32>), ("Skein512-384", Skein512<U48>), ("Skein512-512", Skein512<U64>),
            ("Skein1024-128", Skein1024<U16>), ("Skein1024-224", Skein1024<U28>), ("Skein1024-256", Skein1024<U32>),
            ("Skein1024-384", Skein1024<U48>), ("Skein1024-512", Skein1024<U64>), ("Skein1024-1024", Skein1024<U128>)
        )
    };
}

/// Groestl first: its six lazy_static cells are initialised by the first calls
fn algs() -> Vec<Alg> {
    use blake_hash::{Blake224, Blake256, Blake384, Blake512};
    use c2_chacha::{ChaCha12, ChaCha20, ChaCha8, Ietf, XChaCha12, XChaCha20, XChaCha8};
    use groestl_aesni::{Groestl224, Groestl256, Groestl384, Groestl512};
    use jh_x86_64::{Jh224, Jh256, Jh384, Jh512};
    use skein_hash::{Skein1024, Skein256, Skein512};
    let mut v: Vec<(&'static str, AlgFn, bool)> = vec![
        ("Groestl256", hash_one::<Groestl256> as AlgFn, false),
        ("Groestl512", hash_one::<Groestl512>, false),
        ("Groestl224", hash_one::<Groestl224>, false),
        ("Groestl384", hash_one::<Groestl384>, false),
        ("Jh224", hash_one::<Jh224>, false),
        ("Jh256", hash_one::<Jh256>, false),
        ("Jh384", hash_one::<Jh384>, false),
        ("Jh512", hash_one::<Jh512>, false),
        ("Blake224", hash_one::<Blake224>, false),
        ("Blake256", hash_one::<Blake256>, false),
        ("Blake384", hash_one::<Blake384>, false),
        ("Blake512", hash_one::<Blake512>, false),
    ];
    macro_rules! sk {
        ($(($n:expr, $t:ty)),*) => { $( v.push(($n, hash_one::<$t> as AlgFn, false)); )* };
    }
    skein_list!(sk);
    v.extend_from_slice(&[
        ("ChaCha8", stream_one::<ChaCha8> as AlgFn, true),
        ("ChaCha8-otherkey", stream_other::<ChaCha8>, true),
        ("ChaCha12", stream_one::<ChaCha12>, true),
        ("ChaCha12-otherkey", stream_other::<ChaCha12>, true),
        ("ChaCha20", stream_one::<ChaCha20>, true),
        ("ChaCha20-otherkey", stream_other::<ChaCha20>, true),
        ("Ietf", stream_one::<Ietf>, true),
        ("Ietf-otherkey", stream_other::<Ietf>, true),
        ("XChaCha8", stream_one::<XChaCha8>, true),
        ("XChaCha12", stream_one::<XChaCha12>, true),
        ("XChaCha20", stream_one::<XChaCha20>, true),
        ("XChaCha20-otherkey", stream_other::<XChaCha20>, true),
        ("XChaCha8-otherkey", stream_other::<XChaCha8>, true),
        ("Threefish512", tf512, false),
    ]);
    v.into_iter().enumerate().map(|(j, (name, f, stream))| Alg { name, f, fam: if stream { FAM_STREAM } else { j } }).collect()
}

/// the hammer phase: short, construction-dominated operations
fn hammer_algs() -> Vec<Alg> {
    use blake_hash::Blake256;
    use c2_chacha::{ChaCha12, ChaCha20, ChaCha8, Ietf, XChaCha12, XChaCha20, XChaCha8};
    use groestl_aesni::{Groestl256, Groestl512};
    use jh_x86_64::Jh256;
    use skein_hash::{Skein1024, Skein256, Skein512};
    let mut v: Vec<(&'static str, AlgFn, bool)> = Vec::new();
    macro_rules! sk {
        ($(($n:expr, $t:ty)),*) => { $( v.push(($n, hash_short::<$t> as AlgFn, false)); )* };
    }
    skein_list!(sk);
    v.extend_from_slice(&[
        ("Groestl256", hash_short::<Groestl256> as AlgFn, false),
        ("Groestl512", hash_short::<Groestl512>, false),
        ("Jh256", hash_short::<Jh256>, false),
        ("Blake256", hash_short::<Blake256>, false),
        ("XChaCha20", stream_short::<XChaCha20>, true),
        ("XChaCha8", stream_short::<XChaCha8>, true),
        ("XChaCha12", stream_short::<XChaCha12>, true),
        ("ChaCha20", stream_short::<ChaCha20>, true),
        ("ChaCha8", stream_short::<ChaCha8>, true),
        ("ChaCha12", stream_short::<ChaCha12>, true),
        ("Ietf", stream_short::<Ietf>, true),
    ]);
    v.into_iter().enumerate().map(|(j, (name, f, stream))| Alg { name, f, fam: if stream { FAM_STREAM } else { 500 + j } }).collect()
}

#[cfg(feature = "h1")]
fn set_level(l: u8) {
    ppv_lite86::x86_64::verif::set_level(l);
}
#[cfg(not(feature = "h1"))]
fn set_level(_l: u8) {}

/// order in which thread `t` walks through the algorithms.
/// mode 0: every thread starts with algorithm `first` (maximal contention on its first use) and
///         continues cyclically; mode 1: thread t starts with algorithm (first + t) — all
///         algorithms receive their first calls at the same moment; mode 2: like 0 but every
///         second thread walks backwards after the first call.
fn order(mode: usize, first: usize, t: usize, n: usize) -> Vec<usize> {
    match mode {
        0 => (0..n).map(|k| (first + k) % n).collect(),
        1 => (0..n).map(|k| (first + t + k) % n).collect(),
        _ => {
            if t % 2 == 0 {
                (0..n).map(|k| (first + k) % n).collect()
            } else {
                (0..n).map(|k| (first + n - k) % n).collect()
            }
        }
    }
}

/// `ref --which cold|hammer --index j`: ONE algorithm, nothing else in the process.
/// `ref --which seq --dir 0|1`: all of them one after the other (forwards / backwards), one thread.
fn reference(a: &Args) {
    let seed = a.u64("seed", 1);
    set_level(a.u64("level", 0) as u8);
    let which = a.str("which", "seq");
    let mut s = String::new();
    match which.as_str() {
        "cold" | "hammer" => {
            let al = if which == "cold" { algs() } else { hammer_algs() };
            let j = a.u64("index", 0) as usize;
            for v in 0..VARIANTS {
                s.push_str(&format!("{} {} {}\n", j, v, fp(&(al[j].f)(&msg(al[j].fam, v, seed)))));
            }
        }
        _ => {
            let backwards = a.u64("dir", 0) == 1;
            for (tag, al) in [("C", algs()), ("H", hammer_algs())] {
                let idx: Vec<usize> = if backwards { (0..al.len()).rev().collect() } else { (0..al.len()).collect() };
                for v in 0..VARIANTS {
                    for &j in &idx {
                        s.push_str(&format!("{} {} {} {}\n", tag, j, v, fp(&(al[j].f)(&msg(al[j].fam, v, seed)))));
                    }
                }
            }
        }
    }
    print!("{}", s);
}

/// `worker --mode 3` (added after the mutation campaign, M29: a racy per-type cache is hit only by the first two
/// constructions of ONE type in a process): a cold process whose `threads` threads ALL make their very first call
/// into the SAME algorithm `first`, and nothing else. The threads meet at the std barrier (so that all of them exist
/// and have their inputs ready) and then at a spinning rendezvous (a condvar barrier wakes its waiters one after the
/// other; the spin lets them leave within a few cycles of each other). Each thread calls the algorithm twice: the
/// racing first call and one more (a half-initialised shared value that stays behind shows there as well).
/// `--stagger S`: after the rendezvous thread t idles for t*S loop iterations (about a cycle each), so that the first calls
/// start at evenly spread offsets: a check-then-initialise cache is read wrongly only by a thread that arrives while another
/// one is in the middle of publishing, i.e. LATER than it by about one initialisation; threads that leave together all see
/// "not initialised yet". S rotates over 0 / 16 / 64 / 256 / 1024 across the processes.
fn worker_same(a: &Args) {
    let stagger = a.u64("stagger", 0);
    use std::sync::atomic::{AtomicUsize, Ordering};
    let seed = a.u64("seed", 1);
    let threads = a.u64("threads", 2) as usize;
    set_level(a.u64("level", 0) as u8);
    let n = algs().len();
    let first = a.u64("first", 0) as usize % n;
    let bar = Arc::new(Barrier::new(threads));
    let arrived = Arc::new(AtomicUsize::new(0));
    let mut hs = Vec::new();
    for t in 0..threads {
        let (bar, arrived) = (bar.clone(), arrived.clone());
        hs.push(std::thread::spawn(move || {
            let al = algs();
            let f = al[first].f;
            let input = msg(al[first].fam, t % VARIANTS, seed);
            bar.wait();
            arrived.fetch_add(1, Ordering::AcqRel);
            let mut spins = 0u32;
            while arrived.load(Ordering::Acquire) < threads {
                spins += 1;
                if spins > 20_000 {
                    std::thread::yield_now(); // more threads than CPUs: let the late ones run
                } else {
                    std::hint::spin_loop();
                }
            }
            for i in 0..(t as u64) * stagger {
                std::hint::black_box(i);
            }
            let r1 = f(&input);
            let r2 = f(&input);
            (r1, r2)
        }));
    }
    let mut s = String::new();
    for (t, h) in hs.into_iter().enumerate() {
        match h.join() {
            Ok((r1, r2)) => {
                s.push_str(&format!("C {} {} {}\n", t, first, fp(&r1)));
                s.push_str(&format!("C {} {} {}\n", t, first, fp(&r2)));
            }
            Err(_) => s.push_str(&format!("P {} panic\n", t)),
        }
    }
    print!("{}", s);
}

fn worker(a: &Args) {
    let seed = a.u64("seed", 1);
    let threads = a.u64("threads", 2) as usize;
    let mode = a.u64("mode", 0) as usize;
    if mode == 3 {
        return worker_same(a);
    }
    let first = a.u64("first", 0) as usize;
    let hammer = a.u64("hammer", 0) as usize;
    set_level(a.u64("level", 0) as u8);
    // nothing of the crates under test has been called in this process yet
    let n = algs().len();
    let bar = Arc::new(Barrier::new(threads));
    let mut hs = Vec::new();
    for t in 0..threads {
        let bar = bar.clone();
        hs.push(std::thread::spawn(move || {
            let al = algs();
            let ha = hammer_algs();
            let ord = order(mode, first % n, t, n);
            // inputs are prepared before the barrier so that the first thing after it is the call
            let inputs: Vec<Vec<u8>> = ord.iter().map(|&j| msg(al[j].fam, t % VARIANTS, seed)).collect();
            let hinputs: Vec<Vec<u8>> = ha.iter().map(|x| msg(x.fam, t % VARIANTS, seed)).collect();
            bar.wait();
            let mut res = Vec::new();
            for (k, &j) in ord.iter().enumerate() {
                res.push((j, (al[j].f)(&inputs[k])));
            }
            // hammer: all threads go round the short operations at the same time, each from another offset;
            // per algorithm the DISTINCT results are kept (one, unless something went wrong once)
            let iters = if hammer == 0 { 0 } else { (hammer / threads).max(2) };
            let mut distinct: Vec<Vec<Vec<u8>>> = vec![Vec::new(); ha.len()];
            for r in 0..iters {
                for k in 0..ha.len() {
                    let j = (k + 5 * t + r) % ha.len();
                    let o = (ha[j].f)(&hinputs[j]);
                    if !distinct[j].contains(&o) {
                        distinct[j].push(o);
                    }
                }
            }
            (res, distinct)
        }));
    }
    let mut s = String::new();
    for (t, h) in hs.into_iter().enumerate() {
        match h.join() {
            Ok((res, distinct)) => {
                for (j, r) in res {
                    s.push_str(&format!("C {} {} {}\n", t, j, fp(&r)));
                }
                for (j, ds) in distinct.iter().enumerate() {
                    for d in ds {
                        s.push_str(&format!("H {} {} {}\n", t, j, fp(d)));
                    }
                }
            }
            Err(_) => s.push_str(&format!("P {} panic\n", t)),
        }
    }
    print!("{}", s);
}

// ---------------------------------------------------------------------------------------------
// interleaving of instances in one thread
// ---------------------------------------------------------------------------------------------

#[derive(Clone, Debug)]
enum Op {
    Feed(Vec<u8>),
    /// stream: seek(pos). hash: ignored position, acts as Reset
    Seek(u64),
    /// hash: reset(). stream: seek(0)
    Reset,
    /// hash: continue on a clone, the original is finalised into the output. stream: current_pos into the output
    Clone,
    /// hash: finalize_reset into the output, object reused. stream: current_pos into the output
    FinalizeReset,
}
fn op_name(o: &Op) -> String {
    match o {
        Op::Feed(d) => format!("feed{}", d.len()),
        Op::Seek(p) => format!("seek{}", p),
        Op::Reset => "reset".into(),
        Op::Clone => "clone".into(),
        Op::FinalizeReset => "finalize_reset".into(),
    }
}

trait Inst {
    fn op(&mut self, o: &Op);
    fn finish(self: Box<Self>) -> Vec<u8>;
}
struct HashI<H> {
    h: H,
    out: Vec<u8>,
}
impl<H: Hs> Inst for HashI<H> {
    fn op(&mut self, o: &Op) {
        match o {
            Op::Feed(d) => self.h.update(d),
            Op::Seek(_) | Op::Reset => Reset::reset(&mut self.h),
            Op::Clone => {
                let c = self.h.clone();
                let old = std::mem::replace(&mut self.h, c);
                self.out.extend_from_slice(&old.finalize_fixed());
            }
            Op::FinalizeReset => {
                let d = self.h.finalize_fixed_reset();
                self.out.extend_from_slice(&d);
            }
        }
    }
    fn finish(self: Box<Self>) -> Vec<u8> {
        let HashI { h, mut out } = *self;
        out.extend_from_slice(&h.finalize_fixed());
        out
    }
}
struct CipherI<C> {
    c: C,
    out: Vec<u8>,
}
impl<C: Sc> Inst for CipherI<C> {
    fn op(&mut self, o: &Op) {
        match o {
            Op::Feed(d) => {
                let mut b = d.to_vec();
                self.c.apply_keystream(&mut b);
                self.out.extend_from_slice(&b);
            }
            Op::Seek(p) => self.c.seek(*p),
            Op::Reset => self.c.seek(0u64),
            Op::Clone | Op::FinalizeReset => {
                let p: u64 = self.c.current_pos();
                self.out.extend_from_slice(&p.to_le_bytes());
            }
        }
    }
    fn finish(self: Box<Self>) -> Vec<u8> {
        self.out
    }
}

const KIND_NAMES: [&str; 38] = [
    "Groestl224", "Groestl256", "Groestl384", "Groestl512", "Jh224", "Jh256", "Jh384", "Jh512", "Blake224", "Blake256",
    "Blake384", "Blake512", "Skein256-128", "Skein256-160", "Skein256-224", "Skein256-256", "Skein256-384", "Skein256-512",
    "Skein512-128", "Skein512-224", "Skein512-256", "Skein512-384", "Skein512-512", "Skein1024-128", "Skein1024-224",
    "Skein1024-256", "Skein1024-384", "Skein1024-512", "Skein1024-1024", "ChaCha8", "ChaCha12", "ChaCha20", "Ietf", "XChaCha8",
    "XChaCha12", "XChaCha20", "Skein256-192", "Skein512-160",
];
const KINDS: usize = KIND_NAMES.len();
/// families whose members share process-wide or per-thread structure if anything does
const FAMILIES: [&[usize]; 7] = [
    &[12, 13, 14, 15, 16, 17, 36],     // Skein-256 with seven output sizes
    &[18, 19, 20, 21, 22, 37],         // Skein-512
    &[23, 24, 25, 26, 27, 28],         // Skein-1024
    &[33, 34, 35],                     // XChaCha 8/12/20
    &[29, 30, 31, 32],                 // ChaCha 8/12/20, Ietf
    &[29, 30, 31, 32, 33, 34, 35],     // every stream type
    &[0, 1, 2, 3],                     // Groestl
];
fn kind_name(k: usize) -> &'static str {
    KIND_NAMES[k]
}
fn is_stream(k: usize) -> bool {
    (29..=35).contains(&k)
}
fn make(kind: usize, keymat: &[u8]) -> Box<dyn Inst> {
    use blake_hash::{Blake224, Blake256, Blake384, Blake512};
    use c2_chacha::{ChaCha12, ChaCha20, ChaCha8, Ietf, XChaCha12, XChaCha20, XChaCha8};
    use groestl_aesni::{Groestl224, Groestl256, Groestl384, Groestl512};
    use jh_x86_64::{Jh224, Jh256, Jh384, Jh512};
    use skein_hash::{Skein1024, Skein256, Skein512};
    macro_rules! h {
        ($t:ty) => {
            Box::new(HashI { h: <$t>::default(), out: Vec::new() })
        };
    }
    macro_rules! c {
        ($t:ty) => {{
            let n = <$t as NewCipher>::NonceSize::to_usize_();
            Box::new(CipherI {
                c: <$t>::new(GenericArray::from_slice(&keymat[..32]), GenericArray::from_slice(&keymat[32..32 + n])),
                out: Vec::new(),
            })
        }};
    }
    match kind {
        0 => h!(Groestl224),
        1 => h!(Groestl256),
        2 => h!(Groestl384),
        3 => h!(Groestl512),
        4 => h!(Jh224),
        5 => h!(Jh256),
        6 => h!(Jh384),
        7 => h!(Jh512),
        8 => h!(Blake224),
        9 => h!(Blake256),
        10 => h!(Blake384),
        11 => h!(Blake512),
        12 => h!(Skein256<U16>),
        13 => h!(Skein256<U20>),
        14 => h!(Skein256<U28>),
        15 => h!(Skein256<U32>),
        16 => h!(Skein256<U48>),
        17 => h!(Skein256<U64>),
        18 => h!(Skein512<U16>),
        19 => h!(Skein512<U28>),
        20 => h!(Skein512<U32>),
        21 => h!(Skein512<U48>),
        22 => h!(Skein512<U64>),
        23 => h!(Skein1024<U16>),
        24 => h!(Skein1024<U28>),
        25 => h!(Skein1024<U32>),
        26 => h!(Skein1024<U48>),
        27 => h!(Skein1024<U64>),
        28 => h!(Skein1024<U128>),
        29 => c!(ChaCha8),
        30 => c!(ChaCha12),
        31 => c!(ChaCha20),
        32 => c!(Ietf),
        33 => c!(XChaCha8),
        34 => c!(XChaCha12),
        35 => c!(XChaCha20),
        36 => h!(Skein256<U24>),
        _ => h!(Skein512<U20>),
    }
}

struct Round {
    kinds: Vec<usize>,
    /// which of the round's two keys / two nonces the instance uses
    keysel: Vec<(usize, usize)>,
    keymat: Vec<Vec<u8>>,
    ops: Vec<Vec<Op>>,
    sched: Vec<usize>,
    family_round: bool,
}

const SEEKS: [u64; 10] = [17, 63, 65, 64 * 3 + 17, 200, 64 * 7 + 63, 1000, 64, 0, 64 * 3 + 40];

fn gen_round(rng: &mut Rng) -> Round {
    let k = rng.range(2, 6) as usize;
    let family_round = rng.chance(2, 5);
    let mut kinds: Vec<usize> = if family_round {
        let fam = *rng.pick(&FAMILIES);
        (0..k).map(|_| *rng.pick(fam)).collect()
    } else {
        (0..k).map(|_| rng.below(KINDS as u64) as usize).collect()
    };
    // same type twice is an interesting case as well
    if rng.chance(1, 3) {
        kinds[1] = kinds[0];
    }
    // two keys and two nonces per round: same key+nonce under another type alias, other key with the same nonce
    let keys: Vec<Vec<u8>> = (0..2).map(|_| rng.bytes(32)).collect();
    let nonces: Vec<Vec<u8>> = (0..2).map(|_| rng.bytes(32)).collect();
    let keysel: Vec<(usize, usize)> = (0..k).map(|_| (rng.below(2) as usize, if rng.chance(3, 4) { 0 } else { 1 })).collect();
    let keymat: Vec<Vec<u8>> = keysel.iter().map(|&(a, b)| { let mut v = keys[a].clone(); v.extend_from_slice(&nonces[b]); v }).collect();
    // three seek positions per round, shared by its instances
    let seeks: Vec<u64> = (0..3).map(|_| *rng.pick(&SEEKS)).collect();
    let mut ops = Vec::new();
    let mut sched = Vec::new();
    for i in 0..k {
        let n = rng.range(1, 8) as usize;
        let mut os = Vec::new();
        for _ in 0..n {
            let r = rng.below(100);
            let o = if r < 62 {
                let len = *rng.pick(&[0usize, 1, 17, 63, 64, 65, 127, 128, 129, 200, 256, 300, 300, 1024, 2100]) + rng.below(3) as usize;
                Op::Feed(rng.bytes(len))
            } else if r < 76 {
                Op::Seek(*rng.pick(&seeks))
            } else if r < 84 {
                Op::Reset
            } else if r < 92 {
                Op::Clone
            } else {
                Op::FinalizeReset
            };
            os.push(o);
            sched.push(i);
        }
        ops.push(os);
    }
    // random interleaving that keeps each instance's own order
    for i in (1..sched.len()).rev() {
        let j = rng.below(i as u64 + 1) as usize;
        sched.swap(i, j);
    }
    Round { kinds, keysel, keymat, ops, sched, family_round }
}

/// (interleaved, one at a time): instances of the interleaved run are created at their first operation
fn run_round(r: &Round) -> (Vec<Vec<u8>>, Vec<Vec<u8>>) {
    let k = r.kinds.len();
    let mut insts: Vec<Option<Box<dyn Inst>>> = (0..k).map(|_| None).collect();
    let mut next = vec![0usize; k];
    for &i in &r.sched {
        if insts[i].is_none() {
            insts[i] = Some(make(r.kinds[i], &r.keymat[i]));
        }
        insts[i].as_mut().unwrap().op(&r.ops[i][next[i]]);
        next[i] += 1;
    }
    let a: Vec<Vec<u8>> = insts.into_iter().map(|x| x.unwrap().finish()).collect();
    let b = (0..k).map(|i| run_alone(r, i)).collect();
    (a, b)
}

fn run_alone(r: &Round, i: usize) -> Vec<u8> {
    let mut x = make(r.kinds[i], &r.keymat[i]);
    for o in &r.ops[i] {
        x.op(o);
    }
    x.finish()
}

/// unrelated traffic between two reference instances: every stream type with a key and nonce of its own, seeking
/// into the middle of a far block (a one-entry cache of anything a stream instance leaves behind is overwritten)
fn scrub(rng: &mut Rng) {
    let km = rng.bytes(64);
    for kind in 29..=35 {
        let mut x = make(kind, &km);
        x.op(&Op::Seek(64 * 100_000 + 1 + rng.below(60)));
        x.op(&Op::Feed(vec![0u8; 3]));
        x.finish();
    }
}

/// `ref-rounds`: the same rounds (same seed), evaluated LAST ROUND FIRST, instances in reverse order, one at
/// a time, unrelated traffic in between; prints `round instance fingerprint`
fn ref_rounds(a: &Args) {
    let seed = a.u64("seed", 1);
    let rounds = a.u64("rounds", 300) as usize;
    set_level(a.u64("level", 0) as u8);
    let mut rng = Rng::new(seed ^ 0x1c18);
    let all: Vec<Round> = (0..rounds).map(|_| gen_round(&mut rng)).collect();
    let mut srng = Rng::new(seed ^ 0x5c2b);
    let mut s = String::new();
    for (ri, r) in all.iter().enumerate().rev() {
        for i in (0..r.kinds.len()).rev() {
            scrub(&mut srng);
            s.push_str(&format!("{} {} {}\n", ri, i, fp(&run_alone(r, i))));
        }
    }
    print!("{}", s);
}

// ---------------------------------------------------------------------------------------------

fn spawn_self(args: &[String]) -> Result<String, String> {
    let exe = std::env::current_exe().unwrap();
    let out = std::process::Command::new(exe).args(args).output().map_err(|e| e.to_string())?;
    if !out.status.success() {
        use std::os::unix::process::ExitStatusExt;
        return Err(match out.status.signal() {
            Some(s) => format!("killed by signal {}", s),
            None => format!("exit status {:?}", out.status.code()),
        });
    }
    Ok(String::from_utf8_lossy(&out.stdout).to_string())
}

fn sv(xs: &[&str]) -> Vec<String> {
    xs.iter().map(|x| x.to_string()).collect()
}

fn conc(a: &Args) {
    let seed = a.u64("seed", 1);
    let procs = a.u64("procs", 50) as usize;
    let rounds = a.u64("rounds", 300) as usize;
    let level = a.u64("level", 0);
    let par = a.u64("parallel", 4) as usize;
    let hammer = a.u64("hammer", 192);
    let al = algs();
    let ha = hammer_algs();
    let n = al.len();
    let mut direct: Vec<String> = Vec::new();
    let mut nfail = 0usize;
    let (seed_s, level_s) = (seed.to_string(), level.to_string());

    // (1) reference: every algorithm in a process of its own
    let mut refs: BTreeMap<(char, usize, usize), String> = BTreeMap::new();
    let jobs: Vec<(char, usize)> = (0..n).map(|j| ('C', j)).chain((0..ha.len()).map(|j| ('H', j))).collect();
    for batch in jobs.chunks(8) {
        let hs: Vec<_> = batch
            .iter()
            .map(|&(tag, j)| {
                let args = sv(&["ref", "--seed", &seed_s, "--level", &level_s, "--which", if tag == 'C' { "cold" } else { "hammer" }, "--index", &j.to_string()]);
                std::thread::spawn(move || spawn_self(&args))
            })
            .collect();
        for (h, &(tag, j)) in hs.into_iter().zip(batch.iter()) {
            let out = h.join().unwrap().expect("reference process failed");
            for l in out.lines() {
                let p: Vec<&str> = l.split(' ').collect();
                assert_eq!(p[0].parse::<usize>().unwrap(), j);
                refs.insert((tag, j, p[1].parse().unwrap()), p[2].to_string());
            }
        }
    }
    assert_eq!(refs.len(), (n + ha.len()) * VARIANTS);
    // whole sequences in one single-threaded process, forwards and backwards, against the isolated results
    let mut seq_compared = 0usize;
    for dir in 0..2 {
        let r = spawn_self(&sv(&["ref", "--seed", &seed_s, "--level", &level_s, "--which", "seq", "--dir", &dir.to_string()]));
        match r {
            Err(e) => {
                nfail += 1;
                direct.push(format!("{{\"kind\":\"single-threaded sequence of all algorithms\",\"direction\":{},\"seed\":{},\"outcome\":{}}}", dir, seed, jstr(&e)));
            }
            Ok(out) => {
                for l in out.lines() {
                    let p: Vec<&str> = l.split(' ').collect();
                    let tag = p[0].chars().next().unwrap();
                    let (j, v): (usize, usize) = (p[1].parse().unwrap(), p[2].parse().unwrap());
                    seq_compared += 1;
                    let want = &refs[&(tag, j, v)];
                    if want != p[3] {
                        nfail += 1;
                        if direct.len() < 10 {
                            direct.push(format!(
                                "{{\"kind\":\"result depends on what ran before in the same single thread\",\"sequence\":\"all algorithms {}\",\"phase\":{},\"algorithm\":{},\"input_variant\":{},\"seed\":{},\"level\":{},\"in_sequence\":{},\"in_a_process_of_its_own\":{}}}",
                                if dir == 0 { "forwards" } else { "backwards" },
                                jstr(if tag == 'C' { "full" } else { "short" }),
                                jstr(if tag == 'C' { al[j].name } else { ha[j].name }),
                                v, seed, level, jstr(p[3]), jstr(want)
                            ));
                        }
                    }
                }
            }
        }
    }

    // (2) cold multi-threaded processes
    let tcs = [2usize, 3, 4, 8, 16, 32, 64];
    let mut thread_hist: BTreeMap<usize, usize> = BTreeMap::new();
    let mut mode_hist: BTreeMap<usize, usize> = BTreeMap::new();
    let mut first_hist: BTreeMap<&str, usize> = BTreeMap::new();
    let mut compared = 0usize;
    let mut hammer_compared = 0usize;
    let mut configs = HashSet::new();
    let mut samples = Vec::new();
    let mut rng = Rng::new(seed ^ 0xc018);
    let plan: Vec<(usize, usize, usize)> = (0..procs)
        .map(|p| {
            let t = tcs[p % tcs.len()];
            let mode = (p / tcs.len()) % 3;
            // Groestl first: 2 of 3 processes start in one of the four Groestl types
            let first = if p % 3 != 2 { (p / 3) % 4 } else { rng.below(n as u64) as usize };
            (t, mode, first)
        })
        .collect();
    // a few workers at a time (each is itself multi-threaded)
    for batch in plan.chunks(par.max(1)) {
        let hs: Vec<_> = batch
            .iter()
            .map(|&(t, mode, first)| {
                let args = sv(&[
                    "worker", "--seed", &seed_s, "--threads", &t.to_string(), "--mode", &mode.to_string(), "--first", &first.to_string(),
                    "--level", &level_s, "--hammer", &hammer.to_string(),
                ]);
                std::thread::spawn(move || spawn_self(&args))
            })
            .collect();
        for (h, &(t, mode, first)) in hs.into_iter().zip(batch.iter()) {
            *thread_hist.entry(t).or_insert(0) += 1;
            *mode_hist.entry(mode).or_insert(0) += 1;
            *first_hist.entry(al[first].name).or_insert(0) += 1;
            configs.insert((t, mode, first));
            let desc = format!("\"threads\":{},\"mode\":{},\"first_algorithm\":{},\"seed\":{},\"level\":{},\"hammer\":{}", t, mode, jstr(al[first].name), seed, level, hammer);
            match h.join().unwrap() {
                Err(e) => {
                    nfail += 1;
                    if direct.len() < 10 {
                        direct.push(format!("{{{},\"outcome\":{}}}", desc, jstr(&e)));
                    }
                }
                Ok(out) => {
                    let (mut seen, mut hseen) = (0usize, 0usize);
                    for l in out.lines() {
                        let p: Vec<&str> = l.split(' ').collect();
                        if p[0] == "P" {
                            nfail += 1;
                            if direct.len() < 10 {
                                direct.push(format!("{{{},\"thread\":{},\"outcome\":\"panic\"}}", desc, p[1]));
                            }
                            continue;
                        }
                        let tag = p[0].chars().next().unwrap();
                        let (th, j): (usize, usize) = (p[1].parse().unwrap(), p[2].parse().unwrap());
                        if tag == 'C' {
                            seen += 1;
                            compared += 1;
                        } else {
                            hseen += 1;
                            hammer_compared += 1;
                        }
                        let want = &refs[&(tag, j, th % VARIANTS)];
                        if want != p[3] {
                            nfail += 1;
                            if direct.len() < 10 {
                                direct.push(format!(
                                    "{{{},\"thread\":{},\"phase\":{},\"algorithm\":{},\"input_variant\":{},\"got\":{},\"sequential\":{}}}",
                                    desc, th, jstr(if tag == 'C' { "first pass over all algorithms" } else { "hammer (short operations)" }),
                                    jstr(if tag == 'C' { al[j].name } else { ha[j].name }), th % VARIANTS, jstr(p[3]), jstr(want)
                                ));
                            }
                        }
                    }
                    if seen != t * n || (hammer > 0 && hseen < t * ha.len()) {
                        nfail += 1;
                        if direct.len() < 10 {
                            direct.push(format!("{{{},\"outcome\":\"{} of {} results reported ({} of {} in the hammer phase)\"}}", desc, seen, t * n, hseen, t * ha.len()));
                        }
                    }
                    if samples.len() < 2 {
                        samples.push(format!("{{{},\"results_compared\":{},\"outcome\":\"all equal to the sequential reference\"}}", desc, seen + hseen));
                    }
                }
            }
        }
    }

    // (2b) cold processes whose k threads all start on the SAME algorithm (worker mode 3); the algorithm rotates over
    // all of them across the processes (offset by the seed), k over {2, 8, 64}; every one of the 2k results is compared
    // with the reference
    let same_procs = a.u64("samestart", (3 * n) as u64) as usize;
    let ks = [2usize, 8, 64];
    let mut same_thread_hist: BTreeMap<usize, usize> = BTreeMap::new();
    let mut same_first: HashSet<(usize, usize)> = HashSet::new();
    let mut same_compared = 0usize;
    let staggers = [0u64, 64, 1024, 16, 256];
    let mut stagger_hist: BTreeMap<usize, usize> = BTreeMap::new();
    let same_plan: Vec<(usize, usize, u64)> =
        (0..same_procs).map(|p| (ks[p % 3], (p / 3 + p / (3 * n) * 7 + seed as usize) % n, staggers[(p / (3 * n)) % staggers.len()])).collect();
    for batch in same_plan.chunks(par.max(1)) {
        let hs: Vec<_> = batch
            .iter()
            .map(|&(t, first, stagger)| {
                let args = sv(&[
                    "worker", "--seed", &seed_s, "--threads", &t.to_string(), "--mode", "3", "--first", &first.to_string(), "--level", &level_s,
                    "--stagger", &stagger.to_string(),
                ]);
                std::thread::spawn(move || spawn_self(&args))
            })
            .collect();
        for (h, &(t, first, stagger)) in hs.into_iter().zip(batch.iter()) {
            *same_thread_hist.entry(t).or_insert(0) += 1;
            *stagger_hist.entry(stagger as usize).or_insert(0) += 1;
            same_first.insert((t, first));
            configs.insert((t, 3, first));
            let desc = format!(
                "\"threads\":{},\"mode\":\"3 (all threads start on the same algorithm and run nothing else)\",\"first_algorithm\":{},\"stagger_iterations_per_thread_index\":{},\"seed\":{},\"level\":{}",
                t, jstr(al[first].name), stagger, seed, level
            );
            match h.join().unwrap() {
                Err(e) => {
                    nfail += 1;
                    if direct.len() < 10 {
                        direct.push(format!("{{{},\"outcome\":{}}}", desc, jstr(&e)));
                    }
                }
                Ok(out) => {
                    let mut seen = 0usize;
                    let mut call_of_thread: BTreeMap<usize, usize> = BTreeMap::new();
                    for l in out.lines() {
                        let p: Vec<&str> = l.split(' ').collect();
                        if p[0] == "P" {
                            nfail += 1;
                            if direct.len() < 10 {
                                direct.push(format!("{{{},\"thread\":{},\"outcome\":\"panic\"}}", desc, p[1]));
                            }
                            continue;
                        }
                        let (th, j): (usize, usize) = (p[1].parse().unwrap(), p[2].parse().unwrap());
                        let call = call_of_thread.entry(th).or_insert(0);
                        *call += 1;
                        seen += 1;
                        same_compared += 1;
                        let want = &refs[&('C', j, th % VARIANTS)];
                        if j != first || want != p[3] {
                            nfail += 1;
                            if direct.len() < 10 {
                                direct.push(format!(
                                    "{{{},\"thread\":{},\"phase\":{},\"algorithm\":{},\"input_variant\":{},\"got\":{},\"sequential\":{}}}",
                                    desc, th,
                                    jstr(if *call == 1 { "first call of every thread, released together" } else { "second call of the thread" }),
                                    jstr(al[j].name), th % VARIANTS, jstr(p[3]), jstr(want)
                                ));
                            }
                        }
                    }
                    if seen != 2 * t {
                        nfail += 1;
                        if direct.len() < 10 {
                            direct.push(format!("{{{},\"outcome\":\"{} of {} results reported\"}}", desc, seen, 2 * t));
                        }
                    }
                }
            }
        }
    }
    let same_algs_per_k: Vec<String> = ks
        .iter()
        .map(|&k| format!("\"{}\":{}", k, same_first.iter().filter(|x| x.0 == k).count()))
        .collect();

    // (3) interleavings in one thread
    let rr = spawn_self(&sv(&["ref-rounds", "--seed", &seed_s, "--level", &level_s, "--rounds", &rounds.to_string()]));
    let mut ref_round: BTreeMap<(usize, usize), String> = BTreeMap::new();
    match rr {
        Ok(out) => {
            for l in out.lines() {
                let p: Vec<&str> = l.split(' ').collect();
                ref_round.insert((p[0].parse().unwrap(), p[1].parse().unwrap()), p[2].to_string());
            }
        }
        Err(e) => {
            nfail += 1;
            direct.push(format!("{{\"kind\":\"one-at-a-time reference process for the interleaving rounds\",\"seed\":{},\"outcome\":{}}}", seed, jstr(&e)));
        }
    }
    let mut rng = Rng::new(seed ^ 0x1c18);
    let mut inst_hist: BTreeMap<usize, usize> = BTreeMap::new();
    let mut op_hist: BTreeMap<&str, usize> = BTreeMap::new();
    let mut ops = 0usize;
    let (mut same_type_rounds, mut family_rounds, mut shared_key_nonce, mut otherkey_same_nonce, mut two_n_rounds) = (0usize, 0usize, 0usize, 0usize, 0usize);
    let mut distinct_rounds = HashSet::new();
    for round in 0..rounds {
        let r = gen_round(&mut rng);
        *inst_hist.entry(r.kinds.len()).or_insert(0) += 1;
        ops += r.sched.len();
        for os in &r.ops {
            for o in os {
                *op_hist.entry(match o { Op::Feed(_) => "feed", Op::Seek(_) => "seek", Op::Reset => "reset", Op::Clone => "clone", Op::FinalizeReset => "finalize_reset" }).or_insert(0) += 1;
            }
        }
        let mut ks = r.kinds.clone();
        ks.sort();
        ks.dedup();
        if ks.len() < r.kinds.len() {
            same_type_rounds += 1;
        }
        family_rounds += r.family_round as usize;
        let k = r.kinds.len();
        let (mut skn, mut okn, mut twon) = (false, false, false);
        for i in 0..k {
            for j in 0..i {
                if is_stream(r.kinds[i]) && is_stream(r.kinds[j]) && r.kinds[i] != r.kinds[j] && r.keysel[i] == r.keysel[j] {
                    skn = true;
                }
                if is_stream(r.kinds[i]) && is_stream(r.kinds[j]) && r.keysel[i].0 != r.keysel[j].0 && r.keysel[i].1 == r.keysel[j].1 {
                    okn = true;
                }
                for f in &FAMILIES[..3] {
                    if r.kinds[i] != r.kinds[j] && f.contains(&r.kinds[i]) && f.contains(&r.kinds[j]) {
                        twon = true;
                    }
                }
            }
        }
        shared_key_nonce += skn as usize;
        otherkey_same_nonce += okn as usize;
        two_n_rounds += twon as usize;
        distinct_rounds.insert((r.kinds.clone(), r.sched.clone()));
        let (x, y) = run_round(&r);
        let z: Vec<Option<&String>> = (0..k).map(|i| ref_round.get(&(round, i))).collect();
        let bad = (0..k).find(|&i| x[i] != y[i] || (!ref_round.is_empty() && z[i] != Some(&fp(&x[i]))));
        if let Some(bad) = bad {
            nfail += 1;
            if direct.len() < 10 {
                direct.push(format!(
                    "{{\"kind\":\"interleaving\",\"round\":{},\"seed\":{},\"instances\":[{}],\"key_and_nonce_choice\":{:?},\"schedule\":{:?},\"operations\":[{}],\"differs_on_instance\":{},\"interleaved\":{},\"one_at_a_time_same_process\":{},\"one_at_a_time_separate_process\":{}}}",
                    round,
                    seed,
                    r.kinds.iter().map(|&k| jstr(kind_name(k))).collect::<Vec<_>>().join(","),
                    r.keysel.iter().map(|&(a, b)| vec![a, b]).collect::<Vec<_>>(),
                    r.sched,
                    r.ops.iter().map(|c| format!("[{}]", c.iter().map(|x| jstr(&op_name(x))).collect::<Vec<_>>().join(","))).collect::<Vec<_>>().join(","),
                    bad,
                    jstr(&fp(&x[bad])),
                    jstr(&fp(&y[bad])),
                    jstr(z[bad].map(|s| s.as_str()).unwrap_or("missing"))
                ));
            }
        }
        if round == 0 {
            samples.push(format!(
                "{{\"kind\":\"interleaving\",\"instances\":[{}],\"schedule\":{:?},\"outcome\":\"equal to one-at-a-time (same process and separate process)\"}}",
                r.kinds.iter().map(|&k| jstr(kind_name(k))).collect::<Vec<_>>().join(","),
                r.sched
            ));
        }
    }
    let hist = |m: &BTreeMap<usize, usize>| format!("{{{}}}", m.iter().map(|(k, v)| format!("\"{}\":{}", k, v)).collect::<Vec<_>>().join(","));
    println!(
        "{{\"evaluations\":{},\"distinct_nontrivial\":{},\"direct_failures\":[{}],\"failing_results\":{},\"samples\":[{}],\"cold_processes\":{},\"thread_counts\":{},\"start_modes\":{},\"first_algorithm\":{{{}}},\"thread_results_compared\":{},\"hammer_results_compared\":{},\"hammer_iterations_per_process\":{},\"same_start_processes\":{},\"same_start_thread_counts\":{},\"same_start_distinct_first_algorithms_per_thread_count\":{{{}}},\"same_start_results_compared\":{},\"same_start_stagger_iterations\":{},\"algorithms\":[{}],\"hammer_algorithms\":[{}],\"stream_types_share_key_and_nonce\":true,\"reference\":\"each algorithm in a single-threaded process of its own ({} processes); two whole-sequence single-threaded processes (forwards, backwards) compared with it: {} results\",\"sequence_results_compared\":{},\"interleaving_rounds\":{},\"interleaving_instances\":{},\"interleaving_ops\":{},\"interleaving_op_mix\":{{{}}},\"interleaving_rounds_with_two_instances_of_one_type\":{},\"interleaving_rounds_from_one_family\":{},\"interleaving_rounds_same_key_nonce_under_two_stream_types\":{},\"interleaving_rounds_other_key_same_nonce\":{},\"interleaving_rounds_two_output_sizes_of_one_skein_state_size\":{},\"interleaving_reference\":\"same process one at a time + separate process, rounds and instances in reverse order, unrelated stream traffic in between\",\"backend_level\":{},\"profile\":{}}}",
        compared + hammer_compared + same_compared + seq_compared + rounds,
        configs.len() + distinct_rounds.len(),
        direct.join(","),
        nfail,
        samples.join(","),
        procs,
        hist(&thread_hist),
        hist(&mode_hist),
        first_hist.iter().map(|(k, v)| format!("{}:{}", jstr(k), v)).collect::<Vec<_>>().join(","),
        compared,
        hammer_compared,
        hammer,
        same_procs,
        hist(&same_thread_hist),
        same_algs_per_k.join(","),
        same_compared,
        hist(&stagger_hist),
        al.iter().map(|x| jstr(x.name)).collect::<Vec<_>>().join(","),
        ha.iter().map(|x| jstr(x.name)).collect::<Vec<_>>().join(","),
        n + ha.len(),
        seq_compared,
        seq_compared,
        rounds,
        hist(&inst_hist),
        ops,
        op_hist.iter().map(|(k, v)| format!("{}:{}", jstr(k), v)).collect::<Vec<_>>().join(","),
        same_type_rounds,
        family_rounds,
        shared_key_nonce,
        otherkey_same_nonce,
        two_n_rounds,
        level,
        jstr(if cfg!(debug_assertions) { "debug" } else { "release" }),
    );
}

fn main() {
    let argv: Vec<String> = std::env::args().collect();
    if argv.len() < 2 {
        eprintln!("usage: h_conc <conc|worker|ref|ref-rounds> [--key value]...");
        std::process::exit(2);
    }
    let args = Args::parse(&argv[2..]);
    match argv[1].as_str() {
        "conc" => conc(&args),
        "worker" => worker(&args),
        "ref" => reference(&args),
        "ref-rounds" => ref_rounds(&args),
        other => {
            eprintln!("unknown subcommand {}", other);
            std::process::exit(2);
        }
    }
}
