#![allow(dead_code, deprecated)]
//! C18 — concurrent first use and interleaving of instances.
//!
//! `conc`   orchestrator: (1) starts `ref` in a separate single-threaded process to obtain the
//!          sequential one-at-a-time results; (2) starts `--procs` COLD worker processes
//!          (re-exec of this binary), each with T in {2,3,4,8,16,32,64} threads released by a
//!          barrier whose very first calls go into the algorithms (Groestl first), and compares
//!          every thread's every result with the reference; (3) runs random interleavings of
//!          update/apply operations over several instances in one thread against the same
//!          instances run one at a time.
//! `worker` one cold process. `ref` the sequential reference.
#[path = "../util.rs"]
mod util;
use util::*;

use cipher::generic_array::GenericArray;
use cipher::{BlockEncrypt, NewCipher, StreamCipher};
use digest::generic_array::typenum::{U128, U32, U64};
use digest::{FixedOutput, Update};
use std::collections::{BTreeMap, HashSet};
use std::sync::{Arc, Barrier};

const VARIANTS: usize = 4;

fn msg(j: usize, v: usize, seed: u64) -> Vec<u8> {
    let mut r = Rng::new(seed ^ ((j as u64) << 20) ^ ((v as u64) << 8) ^ 0xc18);
    let mut m = vec![0u8; 150 + 61 * v + 7 * j + if v == 3 { 2100 } else { 0 }];
    r.fill(&mut m);
    m
}

fn hash_one<H: Update + FixedOutput + Default>(m: &[u8]) -> Vec<u8> {
    let mut h = H::default();
    // two updates: one goes through the block buffer, one feeds whole blocks directly
    let cut = m.len() / 3;
    h.update(&m[..cut]);
    h.update(&m[cut..]);
    h.finalize_fixed().to_vec()
}

fn stream_one<C: NewCipher + StreamCipher>(m: &[u8]) -> Vec<u8> {
    let k = <C as NewCipher>::KeySize::to_usize_();
    let n = <C as NewCipher>::NonceSize::to_usize_();
    let mut c = C::new(GenericArray::from_slice(&m[..k]), GenericArray::from_slice(&m[k..k + n]));
    let mut out = m.to_vec();
    out.extend_from_slice(&[0u8; 300]);
    c.apply_keystream(&mut out[..100]);
    c.apply_keystream(&mut out[100..]);
    out
}

trait ToUsize {
    fn to_usize_() -> usize;
}
impl<T: digest::generic_array::typenum::Unsigned> ToUsize for T {
    fn to_usize_() -> usize {
        T::USIZE
    }
}

type AlgFn = fn(&[u8]) -> Vec<u8>;

fn tf512(m: &[u8]) -> Vec<u8> {
    let c = threefish_cipher::Threefish512::with_tweak(GenericArray::from_slice(&m[..64]), 1, 2);
    let mut b = GenericArray::clone_from_slice(&m[64..128]);
    c.encrypt_block(&mut b);
    b.to_vec()
}

/// Groestl first: its six lazy_static cells are initialised by the first calls
fn algs() -> Vec<(&'static str, AlgFn)> {
    use blake_hash::{Blake224, Blake256, Blake384, Blake512};
    use c2_chacha::{ChaCha12, ChaCha20, ChaCha8, Ietf, XChaCha12, XChaCha20, XChaCha8};
    use groestl_aesni::{Groestl224, Groestl256, Groestl384, Groestl512};
    use jh_x86_64::{Jh224, Jh256, Jh384, Jh512};
    use skein_hash::{Skein1024, Skein256, Skein512};
    vec![
        ("Groestl256", hash_one::<Groestl256> as AlgFn),
        ("Groestl512", hash_one::<Groestl512>),
        ("Groestl224", hash_one::<Groestl224>),
        ("Groestl384", hash_one::<Groestl384>),
        ("Jh224", hash_one::<Jh224>),
        ("Jh256", hash_one::<Jh256>),
        ("Jh384", hash_one::<Jh384>),
        ("Jh512", hash_one::<Jh512>),
        ("Blake224", hash_one::<Blake224>),
        ("Blake256", hash_one::<Blake256>),
        ("Blake384", hash_one::<Blake384>),
        ("Blake512", hash_one::<Blake512>),
        ("Skein256", hash_one::<Skein256<U32>>),
        ("Skein512", hash_one::<Skein512<U64>>),
        ("Skein1024", hash_one::<Skein1024<U128>>),
        ("ChaCha8", stream_one::<ChaCha8>),
        ("ChaCha12", stream_one::<ChaCha12>),
        ("ChaCha20", stream_one::<ChaCha20>),
        ("Ietf", stream_one::<Ietf>),
        ("XChaCha8", stream_one::<XChaCha8>),
        ("XChaCha12", stream_one::<XChaCha12>),
        ("XChaCha20", stream_one::<XChaCha20>),
        ("Threefish512", tf512),
    ]
}

#[cfg(feature = "h1")]
fn set_level(l: u8) {
    ppv_lite86::x86_64::verif::set_level(l);
}
#[cfg(not(feature = "h1"))]
fn set_level(_l: u8) {}

/// order in which thread `t` walks through the algorithms.
/// mode 0: every thread starts with algorithm `first` (maximal contention on its first use) and
///         continues cyclically; mode 1: thread t starts with algorithm (first + t) — all
///         algorithms receive their first calls at the same moment; mode 2: like 0 but every
///         second thread walks backwards after the first call.
fn order(mode: usize, first: usize, t: usize, n: usize) -> Vec<usize> {
    match mode {
        0 => (0..n).map(|k| (first + k) % n).collect(),
        1 => (0..n).map(|k| (first + t + k) % n).collect(),
        _ => {
            if t % 2 == 0 {
                (0..n).map(|k| (first + k) % n).collect()
            } else {
                (0..n).map(|k| (first + n - k) % n).collect()
            }
        }
    }
}

fn reference(a: &Args) {
    let seed = a.u64("seed", 1);
    set_level(a.u64("level", 0) as u8);
    let al = algs();
    let mut s = String::new();
    for (j, (_, f)) in al.iter().enumerate() {
        for v in 0..VARIANTS {
            s.push_str(&format!("{} {} {}\n", j, v, hex(&f(&msg(j, v, seed)))));
        }
    }
    print!("{}", s);
}

fn worker(a: &Args) {
    let seed = a.u64("seed", 1);
    let threads = a.u64("threads", 2) as usize;
    let mode = a.u64("mode", 0) as usize;
    let first = a.u64("first", 0) as usize;
    set_level(a.u64("level", 0) as u8);
    // nothing of the crates under test has been called in this process yet
    let n = algs().len();
    let bar = Arc::new(Barrier::new(threads));
    let mut hs = Vec::new();
    for t in 0..threads {
        let bar = bar.clone();
        hs.push(std::thread::spawn(move || {
            let al = algs();
            let ord = order(mode, first % n, t, n);
            // inputs are prepared before the barrier so that the first thing after it is the call
            let inputs: Vec<Vec<u8>> = ord.iter().map(|&j| msg(j, t % VARIANTS, seed)).collect();
            bar.wait();
            let mut res = Vec::new();
            for (k, &j) in ord.iter().enumerate() {
                res.push((j, (al[j].1)(&inputs[k])));
            }
            res
        }));
    }
    let mut s = String::new();
    for (t, h) in hs.into_iter().enumerate() {
        match h.join() {
            Ok(res) => {
                for (j, r) in res {
                    s.push_str(&format!("{} {} {}\n", t, j, hex(&r)));
                }
            }
            Err(_) => s.push_str(&format!("{} panic\n", t)),
        }
    }
    print!("{}", s);
}

// ---------------------------------------------------------------------------------------------
// interleaving of instances in one thread
// ---------------------------------------------------------------------------------------------

trait Inst {
    fn feed(&mut self, data: &[u8]);
    fn finish(self: Box<Self>) -> Vec<u8>;
}
struct HashI<H>(H);
impl<H: Update + FixedOutput + Default> Inst for HashI<H> {
    fn feed(&mut self, data: &[u8]) {
        self.0.update(data)
    }
    fn finish(self: Box<Self>) -> Vec<u8> {
        self.0.finalize_fixed().to_vec()
    }
}
struct CipherI<C> {
    c: C,
    out: Vec<u8>,
}
impl<C: StreamCipher> Inst for CipherI<C> {
    fn feed(&mut self, data: &[u8]) {
        let mut b = data.to_vec();
        self.c.apply_keystream(&mut b);
        self.out.extend_from_slice(&b);
    }
    fn finish(self: Box<Self>) -> Vec<u8> {
        self.out
    }
}

const KINDS: usize = 22;
fn kind_name(k: usize) -> &'static str {
    [
        "Groestl224", "Groestl256", "Groestl384", "Groestl512", "Jh224", "Jh256", "Jh384", "Jh512", "Blake224",
        "Blake256", "Blake384", "Blake512", "Skein256", "Skein512", "Skein1024", "ChaCha8", "ChaCha12", "ChaCha20",
        "Ietf", "XChaCha8", "XChaCha12", "XChaCha20",
    ][k]
}
fn make(kind: usize, keymat: &[u8]) -> Box<dyn Inst> {
    use blake_hash::{Blake224, Blake256, Blake384, Blake512};
    use c2_chacha::{ChaCha12, ChaCha20, ChaCha8, Ietf, XChaCha12, XChaCha20, XChaCha8};
    use groestl_aesni::{Groestl224, Groestl256, Groestl384, Groestl512};
    use jh_x86_64::{Jh224, Jh256, Jh384, Jh512};
    use skein_hash::{Skein1024, Skein256, Skein512};
    macro_rules! h {
        ($t:ty) => {
            Box::new(HashI(<$t>::default()))
        };
    }
    macro_rules! c {
        ($t:ty) => {{
            let n = <$t as NewCipher>::NonceSize::to_usize_();
            Box::new(CipherI {
                c: <$t>::new(GenericArray::from_slice(&keymat[..32]), GenericArray::from_slice(&keymat[32..32 + n])),
                out: Vec::new(),
            })
        }};
    }
    match kind {
        0 => h!(Groestl224),
        1 => h!(Groestl256),
        2 => h!(Groestl384),
        3 => h!(Groestl512),
        4 => h!(Jh224),
        5 => h!(Jh256),
        6 => h!(Jh384),
        7 => h!(Jh512),
        8 => h!(Blake224),
        9 => h!(Blake256),
        10 => h!(Blake384),
        11 => h!(Blake512),
        12 => h!(Skein256<U32>),
        13 => h!(Skein512<U64>),
        14 => h!(Skein1024<U128>),
        15 => c!(ChaCha8),
        16 => c!(ChaCha12),
        17 => c!(ChaCha20),
        18 => c!(Ietf),
        19 => c!(XChaCha8),
        20 => c!(XChaCha12),
        _ => c!(XChaCha20),
    }
}

struct Round {
    kinds: Vec<usize>,
    keymat: Vec<Vec<u8>>,
    chunks: Vec<Vec<Vec<u8>>>,
    sched: Vec<usize>,
}

fn gen_round(rng: &mut Rng) -> Round {
    let k = rng.range(2, 6) as usize;
    // same type twice is the interesting case: bias towards it
    let mut kinds: Vec<usize> = (0..k).map(|_| rng.below(KINDS as u64) as usize).collect();
    if rng.chance(1, 2) {
        kinds[1] = kinds[0];
    }
    let keymat: Vec<Vec<u8>> = (0..k).map(|_| { let mut v = vec![0u8; 64]; rng.fill(&mut v); v }).collect();
    let mut chunks = Vec::new();
    let mut sched = Vec::new();
    for i in 0..k {
        let n = rng.range(1, 8) as usize;
        let mut cs = Vec::new();
        for _ in 0..n {
            let len = *rng.pick(&[0usize, 1, 17, 63, 64, 65, 127, 128, 129, 200, 256, 300, 300, 1024, 2100]) + rng.below(3) as usize;
            let mut c = vec![0u8; len];
            rng.fill(&mut c);
            cs.push(c);
            sched.push(i);
        }
        chunks.push(cs);
    }
    // random interleaving that keeps each instance's own order
    for i in (1..sched.len()).rev() {
        let j = rng.below(i as u64 + 1) as usize;
        sched.swap(i, j);
    }
    Round { kinds, keymat, chunks, sched }
}

fn run_round(r: &Round) -> (Vec<Vec<u8>>, Vec<Vec<u8>>) {
    let k = r.kinds.len();
    // interleaved
    let mut insts: Vec<Box<dyn Inst>> = (0..k).map(|i| make(r.kinds[i], &r.keymat[i])).collect();
    let mut next = vec![0usize; k];
    for &i in &r.sched {
        insts[i].feed(&r.chunks[i][next[i]]);
        next[i] += 1;
    }
    let a: Vec<Vec<u8>> = insts.into_iter().map(|x| x.finish()).collect();
    // one at a time
    let mut b = Vec::new();
    for i in 0..k {
        let mut x = make(r.kinds[i], &r.keymat[i]);
        for c in &r.chunks[i] {
            x.feed(c);
        }
        b.push(x.finish());
    }
    (a, b)
}

// ---------------------------------------------------------------------------------------------

fn spawn_self(args: &[String]) -> Result<String, String> {
    let exe = std::env::current_exe().unwrap();
    let out = std::process::Command::new(exe).args(args).output().map_err(|e| e.to_string())?;
    if !out.status.success() {
        use std::os::unix::process::ExitStatusExt;
        return Err(match out.status.signal() {
            Some(s) => format!("killed by signal {}", s),
            None => format!("exit status {:?}", out.status.code()),
        });
    }
    Ok(String::from_utf8_lossy(&out.stdout).to_string())
}

fn conc(a: &Args) {
    let seed = a.u64("seed", 1);
    let procs = a.u64("procs", 50) as usize;
    let rounds = a.u64("rounds", 300) as usize;
    let level = a.u64("level", 0);
    let par = a.u64("parallel", 4) as usize;
    let al = algs();
    let n = al.len();
    let mut direct: Vec<String> = Vec::new();
    let mut nfail = 0usize;

    // (1) sequential reference from a separate single-threaded process
    let r = spawn_self(&["ref".into(), "--seed".into(), seed.to_string(), "--level".into(), level.to_string()])
        .expect("reference process failed");
    let mut refs: BTreeMap<(usize, usize), String> = BTreeMap::new();
    for l in r.lines() {
        let p: Vec<&str> = l.split(' ').collect();
        refs.insert((p[0].parse().unwrap(), p[1].parse().unwrap()), p[2].to_string());
    }
    assert_eq!(refs.len(), n * VARIANTS);
    // the reference must itself be reproducible (second cold process)
    let r2 = spawn_self(&["ref".into(), "--seed".into(), seed.to_string(), "--level".into(), level.to_string()]).unwrap();
    if r2 != r {
        nfail += 1;
        direct.push(format!("{{\"kind\":\"sequential reference not reproducible across processes\",\"seed\":{}}}", seed));
    }

    // (2) cold multi-threaded processes
    let tcs = [2usize, 3, 4, 8, 16, 32, 64];
    let mut thread_hist: BTreeMap<usize, usize> = BTreeMap::new();
    let mut mode_hist: BTreeMap<usize, usize> = BTreeMap::new();
    let mut first_hist: BTreeMap<&str, usize> = BTreeMap::new();
    let mut compared = 0usize;
    let mut configs = HashSet::new();
    let mut samples = Vec::new();
    let mut rng = Rng::new(seed ^ 0xc018);
    let plan: Vec<(usize, usize, usize)> = (0..procs)
        .map(|p| {
            let t = tcs[p % tcs.len()];
            let mode = (p / tcs.len()) % 3;
            // Groestl first: 2 of 3 processes start in one of the four Groestl types
            let first = if p % 3 != 2 { (p / 3) % 4 } else { rng.below(n as u64) as usize };
            (t, mode, first)
        })
        .collect();
    // a few workers at a time (each is itself multi-threaded)
    for batch in plan.chunks(par.max(1)) {
        let hs: Vec<_> = batch
            .iter()
            .map(|&(t, mode, first)| {
                std::thread::spawn(move || {
                    spawn_self(&[
                        "worker".into(), "--seed".into(), seed.to_string(), "--threads".into(), t.to_string(),
                        "--mode".into(), mode.to_string(), "--first".into(), first.to_string(),
                        "--level".into(), level.to_string(),
                    ])
                })
            })
            .collect();
        for (h, &(t, mode, first)) in hs.into_iter().zip(batch.iter()) {
            *thread_hist.entry(t).or_insert(0) += 1;
            *mode_hist.entry(mode).or_insert(0) += 1;
            *first_hist.entry(al[first].0).or_insert(0) += 1;
            configs.insert((t, mode, first));
            let desc = format!("\"threads\":{},\"mode\":{},\"first_algorithm\":{},\"seed\":{},\"level\":{}", t, mode, jstr(al[first].0), seed, level);
            match h.join().unwrap() {
                Err(e) => {
                    nfail += 1;
                    if direct.len() < 10 {
                        direct.push(format!("{{{},\"outcome\":{}}}", desc, jstr(&e)));
                    }
                }
                Ok(out) => {
                    let mut seen = 0usize;
                    for l in out.lines() {
                        let p: Vec<&str> = l.split(' ').collect();
                        if p.len() == 2 {
                            nfail += 1;
                            if direct.len() < 10 {
                                direct.push(format!("{{{},\"thread\":{},\"outcome\":\"panic\"}}", desc, p[0]));
                            }
                            continue;
                        }
                        let (th, j): (usize, usize) = (p[0].parse().unwrap(), p[1].parse().unwrap());
                        seen += 1;
                        compared += 1;
                        let want = &refs[&(j, th % VARIANTS)];
                        if want != p[2] {
                            nfail += 1;
                            if direct.len() < 10 {
                                direct.push(format!(
                                    "{{{},\"thread\":{},\"algorithm\":{},\"input_variant\":{},\"got\":{},\"sequential\":{}}}",
                                    desc, th, jstr(al[j].0), th % VARIANTS, jstr(p[2]), jstr(want)
                                ));
                            }
                        }
                    }
                    if seen != t * n {
                        nfail += 1;
                        if direct.len() < 10 {
                            direct.push(format!("{{{},\"outcome\":\"{} of {} results reported\"}}", desc, seen, t * n));
                        }
                    }
                    if samples.len() < 2 {
                        samples.push(format!("{{{},\"results_compared\":{},\"outcome\":\"all equal to the sequential reference\"}}", desc, seen));
                    }
                }
            }
        }
    }

    // (3) interleavings in one thread
    let mut rng = Rng::new(seed ^ 0x1c18);
    let mut inst_hist: BTreeMap<usize, usize> = BTreeMap::new();
    let mut ops = 0usize;
    let mut same_type_rounds = 0usize;
    let mut distinct_rounds = HashSet::new();
    for round in 0..rounds {
        let r = gen_round(&mut rng);
        *inst_hist.entry(r.kinds.len()).or_insert(0) += 1;
        ops += r.sched.len();
        let mut ks = r.kinds.clone();
        ks.sort();
        ks.dedup();
        if ks.len() < r.kinds.len() {
            same_type_rounds += 1;
        }
        distinct_rounds.insert((r.kinds.clone(), r.sched.clone()));
        let (x, y) = run_round(&r);
        if x != y {
            nfail += 1;
            if direct.len() < 10 {
                let bad = (0..x.len()).find(|&i| x[i] != y[i]).unwrap();
                direct.push(format!(
                    "{{\"kind\":\"interleaving\",\"round\":{},\"seed\":{},\"instances\":[{}],\"schedule\":{:?},\"chunk_lengths\":{:?},\"differs_on_instance\":{},\"interleaved\":{},\"one_at_a_time\":{}}}",
                    round,
                    seed,
                    r.kinds.iter().map(|&k| jstr(kind_name(k))).collect::<Vec<_>>().join(","),
                    r.sched,
                    r.chunks.iter().map(|c| c.iter().map(|x| x.len()).collect::<Vec<_>>()).collect::<Vec<_>>(),
                    bad,
                    jstr(&hex(&x[bad])),
                    jstr(&hex(&y[bad]))
                ));
            }
        }
        if round == 0 {
            samples.push(format!(
                "{{\"kind\":\"interleaving\",\"instances\":[{}],\"schedule\":{:?},\"outcome\":\"equal to one-at-a-time\"}}",
                r.kinds.iter().map(|&k| jstr(kind_name(k))).collect::<Vec<_>>().join(","),
                r.sched
            ));
        }
    }
    let hist = |m: &BTreeMap<usize, usize>| format!("{{{}}}", m.iter().map(|(k, v)| format!("\"{}\":{}", k, v)).collect::<Vec<_>>().join(","));
    println!(
        "{{\"evaluations\":{},\"distinct_nontrivial\":{},\"direct_failures\":[{}],\"failing_results\":{},\"samples\":[{}],\"cold_processes\":{},\"thread_counts\":{},\"start_modes\":{},\"first_algorithm\":{{{}}},\"thread_results_compared\":{},\"algorithms\":[{}],\"reference\":\"separate single-threaded process, reproduced twice\",\"interleaving_rounds\":{},\"interleaving_instances\":{},\"interleaving_ops\":{},\"interleaving_rounds_with_two_instances_of_one_type\":{},\"backend_level\":{},\"profile\":{}}}",
        compared + rounds,
        configs.len() + distinct_rounds.len(),
        direct.join(","),
        nfail,
        samples.join(","),
        procs,
        hist(&thread_hist),
        hist(&mode_hist),
        first_hist.iter().map(|(k, v)| format!("{}:{}", jstr(k), v)).collect::<Vec<_>>().join(","),
        compared,
        al.iter().map(|x| jstr(x.0)).collect::<Vec<_>>().join(","),
        rounds,
        hist(&inst_hist),
        ops,
        same_type_rounds,
        level,
        jstr(if cfg!(debug_assertions) { "debug" } else { "release" }),
    );
}

fn main() {
    let argv: Vec<String> = std::env::args().collect();
    if argv.len() < 2 {
        eprintln!("usage: h_conc <conc|worker|ref> [--key value]...");
        std::process::exit(2);
    }
    let args = Args::parse(&argv[2..]);
    match argv[1].as_str() {
        "conc" => conc(&args),
        "worker" => worker(&args),
        "ref" => reference(&args),
        other => {
            eprintln!("unknown subcommand {}", other);
            std::process::exit(2);
        }
    }
}
