#![allow(dead_code, deprecated)]
//! Skein (C05, Skein part of C17): digests of Skein256/512/1024<N> for 18 output
//! sizes, fed in two update calls, optionally from a state entered through the
//! verification hook (arbitrary chaining value, tweak position near 2^32 / 2^64).
#[path = "../util.rs"]
mod util;
use util::*;

use digest::generic_array::typenum::*;
use digest::generic_array::{ArrayLength, GenericArray};
use digest::Digest;
use skein_hash::{Skein1024, Skein256, Skein512};
use std::panic::{catch_unwind, AssertUnwindSafe};

const NOUTS: [usize; 18] = [1, 7, 8, 20, 31, 32, 33, 48, 63, 64, 65, 100, 127, 128, 129, 200, 256, 300];
const SIZES: [usize; 3] = [256, 512, 1024];
const T1_MSG: u64 = 48 << 56;
const T1_FIRST: u64 = 1 << 62;

/// state entered through `verif_set_state`
#[derive(Clone, PartialEq, Eq, Hash)]
struct Hook {
    x: Vec<u8>,
    t0: u64,
    t1: u64,
    buffered: Vec<u8>,
}

#[derive(Clone)]
struct Input {
    size: usize,
    nout: usize,
    hook: Option<Hook>,
    msg: Vec<u8>,
    split: usize,
    stream: &'static str,
}

struct Outcome {
    panicked: bool,
    at0: u64,
    at1: u64,
    apos: usize,
    digest: Vec<u8>,
}

/// uniform access to the per-type inherent hook functions
trait Hk: Digest + Default + Clone + digest::FixedOutput + digest::Reset + digest::Update {
    fn set(&mut self, x: &[u8], t: (u64, u64), buffered: &[u8]);
    fn get(&self) -> (Vec<u8>, (u64, u64), Vec<u8>, usize);
}
macro_rules! impl_hk {
    ($t:ident) => {
        impl<N> Hk for $t<N>
        where
            N: Unsigned + ArrayLength<u8> + NonZero + Default,
        {
            fn set(&mut self, x: &[u8], t: (u64, u64), buffered: &[u8]) {
                self.verif_set_state(GenericArray::from_slice(x), t, buffered)
            }
            fn get(&self) -> (Vec<u8>, (u64, u64), Vec<u8>, usize) {
                let (x, t, b, p) = self.verif_get_state();
                (x.to_vec(), t, b.to_vec(), p)
            }
        }
    };
}
impl_hk!(Skein256);
impl_hk!(Skein512);
impl_hk!(Skein1024);

fn run_typed<H: Hk>(inp: &Input) -> Outcome {
    let r = catch_unwind(AssertUnwindSafe(|| {
        let mut h = H::default();
        // half of the un-hooked cases reuse an object that has already produced a digest in place
        // (FixedOutput::finalize_fixed_reset) or absorbed data and was reset
        if inp.hook.is_none() {
            match (inp.msg.len() + inp.split) % 4 {
                2 => {
                    digest::Update::update(&mut h, &inp.msg[..inp.msg.len().min(5)]);
                    let _ = digest::FixedOutput::finalize_fixed_reset(&mut h);
                }
                3 => {
                    digest::Update::update(&mut h, &[0x5au8; 200][..]);
                    // tweak position far into a message before the reset
                    let (x, t, _, _) = h.get();
                    h.set(&x, ((1u64 << 40) + 96, t.1), &[0x11u8; 3][..]);
                    digest::Reset::reset(&mut h);
                }
                _ => {}
            }
        }
        if let Some(hk) = &inp.hook {
            h.set(&hk.x, (hk.t0, hk.t1), &hk.buffered);
        }
        Digest::update(&mut h, &inp.msg[..inp.split]);
        Digest::update(&mut h, &inp.msg[inp.split..]);
        let (_, t, _, pos) = h.get();
        // a third of the cases: the digest of a clone taken after the data was absorbed
        let d = if (inp.msg.len() + inp.split) % 3 == 1 {
            let c = h.clone();
            Digest::update(&mut h, b"x");
            c.finalize()
        } else {
            h.finalize()
        };
        (t, pos, d.to_vec())
    }));
    match r {
        Ok((t, pos, d)) => Outcome { panicked: false, at0: t.0, at1: t.1, apos: pos, digest: d },
        Err(_) => Outcome { panicked: true, at0: 0, at1: 0, apos: 0, digest: Vec::new() },
    }
}

/// really stream `n` patterned bytes into a fresh hasher, read the state back through the hook
fn real_stream<H: Hk>(n: u64) -> Hook {
    let mut h = H::default();
    let chunk: Vec<u8> = (0..(1usize << 20)).map(|i| (i as u32).wrapping_mul(2654435761).to_le_bytes()[3] ^ (i as u8)).collect();
    let sizes = [1usize << 20, 65537, 4096, 63, 1, 64, 129, 1 << 20, 31, 32, 33, 128];
    let (mut done, mut k) = (0u64, 0usize);
    while done < n {
        let m = (sizes[k % sizes.len()] as u64).min(n - done) as usize;
        Digest::update(&mut h, &chunk[..m]);
        done += m as u64;
        k += 1;
    }
    let (x, t, b, p) = h.get();
    Hook { x, t0: t.0, t1: t.1, buffered: b[..p].to_vec() }
}

macro_rules! by_nout {
    ($ty:ident, $inp:expr) => {
        match $inp.nout {
            1 => run_typed::<$ty<U1>>($inp),
            7 => run_typed::<$ty<U7>>($inp),
            8 => run_typed::<$ty<U8>>($inp),
            20 => run_typed::<$ty<U20>>($inp),
            31 => run_typed::<$ty<U31>>($inp),
            32 => run_typed::<$ty<U32>>($inp),
            33 => run_typed::<$ty<U33>>($inp),
            48 => run_typed::<$ty<U48>>($inp),
            63 => run_typed::<$ty<U63>>($inp),
            64 => run_typed::<$ty<U64>>($inp),
            65 => run_typed::<$ty<U65>>($inp),
            100 => run_typed::<$ty<U100>>($inp),
            127 => run_typed::<$ty<U127>>($inp),
            128 => run_typed::<$ty<U128>>($inp),
            129 => run_typed::<$ty<U129>>($inp),
            200 => run_typed::<$ty<U200>>($inp),
            256 => run_typed::<$ty<U256>>($inp),
            300 => run_typed::<$ty<U300>>($inp),
            // more than 256 output blocks: the output counter must carry beyond its low byte
            8256 => run_typed::<$ty<Sum<U8192, U64>>>($inp),
            16448 => run_typed::<$ty<Sum<U16384, U64>>>($inp),
            32896 => run_typed::<$ty<Sum<U32768, U128>>>($inp),
            n => panic!("output size {} not instantiated", n),
        }
    };
}

fn run_input(inp: &Input) -> Outcome {
    match inp.size {
        256 => by_nout!(Skein256, inp),
        512 => by_nout!(Skein512, inp),
        _ => by_nout!(Skein1024, inp),
    }
}

/// Coq literal for a long byte string: coqc overflows its stack on a single numeral of more
/// than ~3000 bytes, so long strings are written as a sum of shifted 2048-byte numerals
fn nlit_long(b: &[u8]) -> String {
    const CH: usize = 2048;
    if b.len() <= CH {
        return nlit(b);
    }
    let parts: Vec<String> = b
        .chunks(CH)
        .enumerate()
        .map(|(k, c)| if k == 0 { nlit(c) } else { format!("N.shiftl {} {}", nlit(c), 8 * CH * k) })
        .collect();
    format!("({})", parts.join(" + "))
}

/// message contents: random / zero / ones / counting (and the structured kinds of util::Rng::bytes)
fn content(rng: &mut Rng, kind: usize, n: usize) -> Vec<u8> {
    match kind % 5 {
        0 => {
            let mut v = vec![0u8; n];
            rng.fill(&mut v);
            v
        }
        1 => vec![0u8; n],
        2 => vec![0xffu8; n],
        3 => (0..n).map(|i| i as u8).collect(),
        _ => rng.bytes(n),
    }
}

/// split points aimed at the buffer boundaries
fn split_for(rng: &mut Rng, len: usize, nb: usize) -> usize {
    let c = [0, len, nb, nb.wrapping_sub(1), nb + 1, 2 * nb, len.saturating_sub(1), len / 2];
    let s = if rng.chance(1, 3) { rng.below(len as u64 + 1) as usize } else { *rng.pick(&c) };
    s.min(len)
}

fn gen_inputs(rng: &mut Rng, thorough: bool, streams: &str) -> Vec<Input> {
    let mut v = Vec::new();
    let all = streams == "all";
    if all {
        // A: every residue of the block size, up to three blocks + 1 (ascending, sizes interleaved)
        for len in 0..=(3 * 128 + 1) {
            for (si, &size) in SIZES.iter().enumerate() {
                let nb = size / 8;
                if len > 3 * nb + 1 {
                    continue;
                }
                // quick tier: every length up to one block + 1, then the block boundaries and
                // every fourth length (rotating with the state size) up to three blocks + 1
                if !thorough && len > nb + 1 && !(len % nb <= 1 || len % nb == nb - 1 || len % 4 == si) {
                    continue;
                }
                let reps = if thorough { 3 } else { 1 };
                for r in 0..reps {
                    let nout = NOUTS[(len * 5 + si * 7 + r * 11) % 18];
                    let msg = content(rng, len + si + r, len);
                    let split = split_for(rng, len, nb);
                    v.push(Input { size, nout, hook: None, msg, split, stream: "residues" });
                }
            }
        }
        // B: every (size, N): empty, exact multiples and neighbours, one random length
        for &nout in NOUTS.iter() {
            for &size in SIZES.iter() {
                let nb = size / 8;
                let mut lens = vec![0, nb, nb + 1, rng.below(3 * nb as u64 + 2) as usize];
                if thorough {
                    lens.extend_from_slice(&[1, nb - 1, 2 * nb - 1, 2 * nb, 2 * nb + 1, 3 * nb]);
                    for _ in 0..6 {
                        lens.push(rng.below(6 * nb as u64) as usize);
                    }
                }
                for (k, &len) in lens.iter().enumerate() {
                    let msg = content(rng, k + nout, len);
                    let split = split_for(rng, len, nb);
                    v.push(Input { size, nout, hook: None, msg, split, stream: "per_output_size" });
                }
            }
        }
        // C: sparse longer messages
        for (k, &size) in SIZES.iter().cycle().take(if thorough { 90 } else { 18 }).enumerate() {
            let nb = size / 8;
            let base = [4 * nb, 5 * nb - 1, 8 * nb + 3, 16 * nb, 1000, 2048 + 17];
            let len = if k < 18 {
                base[k / 3]
            } else if k < 24 {
                [8192, 16384 - 1][k % 2] + (k % 3)
            } else {
                nb * (4 + rng.below(28) as usize) + [0usize, 0, 1, nb - 1][k % 4] * (k % 2)
                    + rng.below(2) as usize * rng.below(nb as u64) as usize
            };
            let nout = NOUTS[(k * 7 + 3) % 18];
            let msg = content(rng, k, len);
            let split = split_for(rng, len, nb);
            v.push(Input { size, nout, hook: None, msg, split, stream: "long" });
        }
    }
    if all {
        // F: output longer than 256 output blocks (counter-mode output with a counter above 255)
        let big: &[(usize, usize)] = if thorough { &[(256, 8256), (512, 16448), (1024, 32896), (256, 16448)] } else { &[(256, 8256), (512, 16448)] };
        for (k, &(size, nout)) in big.iter().enumerate() {
            let nb = size / 8;
            let len = [3usize, nb + 1, 0, 2 * nb][k % 4];
            let msg = content(rng, k, len);
            let split = split_for(rng, len, nb);
            v.push(Input { size, nout, hook: None, msg, split, stream: "big_output" });
        }
    }
    if !all {
        // E: a few complete runs (Default, two updates, finalize) so that configurations which
        //    otherwise only see entered states also exercise the configuration block, a second
        //    message block, an exact multiple and more than one output block
        for (si, &size) in SIZES.iter().enumerate() {
            let nb = size / 8;
            for (k, &len) in [0usize, 17, nb, nb + 1, 2 * nb, 3 * nb + 5].iter().enumerate() {
                let nout = [33usize, 129, 300, 7, 64, 200][(k + si) % 6];
                let msg = content(rng, k + si, len);
                let split = split_for(rng, len, nb);
                v.push(Input { size, nout, hook: None, msg, split, stream: "smoke" });
            }
        }
    }
    // D: states entered through the hook: arbitrary chaining value, tweak position
    //    0 (FIRST set), just below 2^32, 2^40, just below 2^64 (overflow of t.0)
    let mut k = 0usize;
    for &size in SIZES.iter() {
        let nb = size / 8;
        let nbu = nb as u64;
        let mut t0s: Vec<(u64, u64)> = vec![(0, T1_MSG | T1_FIRST), (0, T1_MSG)];
        for j in 1..=3u64 {
            t0s.push(((1u64 << 32) - j * nbu, T1_MSG));
            t0s.push((0u64.wrapping_sub(j * nbu), T1_MSG));
        }
        t0s.push((1u64 << 32, T1_MSG));
        t0s.push(((1u64 << 40) - nbu, T1_MSG));
        t0s.push(((1u64 << 63) - nbu, T1_MSG));
        t0s.push((0u64.wrapping_sub(4 * nbu), T1_MSG));
        t0s.push((u64::MAX - 2 * nbu, T1_MSG)); // not a multiple of the block size
        for &(t0, t1) in t0s.iter() {
            for &nbuf in [0usize, 1, nb - 1, nb].iter() {
                let tails = [0usize, 1, nb - nbuf, nb, nb + 1, 2 * nb + 1, 3 * nb];
                for (ti, &tail) in tails.iter().enumerate() {
                    k += 1;
                    // quick tier: a third of the product, rotating
                    if !thorough && (k % 3 != 0) {
                        continue;
                    }
                    // streams = smoke: a ninth of the product
                    if streams == "smoke" && (k % 9 != 0) {
                        continue;
                    }
                    let nout = if k % 4 == 0 { NOUTS[k % 18] } else { [8usize, 32, 33, 64][k % 4] };
                    let hook = Hook { x: rng.bytes(nb), t0, t1, buffered: content(rng, k, nbuf) };
                    let msg = content(rng, k + ti, tail);
                    let split = split_for(rng, tail, nb);
                    v.push(Input { size, nout, hook: Some(hook), msg, split, stream: "hook" });
                }
            }
        }
    }
    v
}

fn main() {
    let argv: Vec<String> = std::env::args().collect();
    if argv.len() < 2 || argv[1] != "skein" {
        eprintln!("usage: h_skein skein [--seed N --shards N --out DIR --tier quick|thorough --streams all|hook|smoke --real N --runner run_c05]");
        std::process::exit(2);
    }
    let a = Args::parse(&argv[2..]);
    let seed = a.u64("seed", 1);
    let shards = a.u64("shards", 16) as usize;
    let out = a.str("out", "/verif/_build/work/skein-manual");
    let thorough = a.str("tier", "quick") == "thorough";
    let streams = a.str("streams", "all");
    let runner = a.str("runner", "run_c05");
    let debug = cfg!(debug_assertions);
    let nu = cfg!(feature = "no_unroll");
    std::panic::set_hook(Box::new(|_| {}));

    let mut rng = Rng::new(seed ^ 0x5ce1_4a5b);
    let mut inputs = gen_inputs(&mut rng, thorough, &streams);
    // C17: the byte position really driven to just below 2^32 bytes (4 GiB streamed), the tail
    // then crosses it; the position read back must be the bytes compressed so far
    let real = a.u64("real", 0);
    let mut direct: Vec<String> = Vec::new();
    let mut real_bytes = 0u64;
    for k in 0..real {
        let size = SIZES[(k as usize + 1) % 3];
        let nb = (size / 8) as u64;
        let below = [1u64, nb, 2 * nb + 5, nb - 1][k as usize % 4];
        let n = (1u64 << 32) - below;
        let hook = match size {
            256 => real_stream::<Skein256<U32>>(n),
            512 => real_stream::<Skein512<U64>>(n),
            _ => real_stream::<Skein1024<U128>>(n),
        };
        real_bytes += n;
        let want_t0 = ((n + nb - 1) / nb - 1) * nb; // lazy buffering: the last block stays pending
        if hook.t0 != want_t0 || hook.buffered.len() as u64 != n - want_t0 || hook.t1 != T1_MSG {
            direct.push(format!(
                "{{\"what\":\"position after really streaming\",\"size\":{},\"streamed\":{},\"t0\":{},\"t1\":\"{:x}\",\"pos\":{}}}",
                size, n, hook.t0, hook.t1, hook.buffered.len()
            ));
        }
        let tail = below as usize + [0usize, 1, nb as usize, 5][k as usize % 4];
        let msg = content(&mut rng, k as usize, tail);
        let split = split_for(&mut rng, tail, nb as usize);
        inputs.push(Input { size, nout: [32usize, 64, 128][(k as usize + 1) % 3], hook: Some(hook), msg, split, stream: "real_stream" });
    }
    let mut coq = Vec::new();
    let mut js = Vec::new();
    let mut samples: Vec<String> = Vec::new();
    let mut distinct = std::collections::HashSet::new();
    let mut by_stream: std::collections::BTreeMap<&str, usize> = Default::default();
    let mut by_size = [0usize; 3];
    let mut panics = 0usize;
    let mut max_len = 0usize;
    let mut blocks_total = 0usize;
    for (i, inp) in inputs.iter().enumerate() {
        let o = run_input(inp);
        *by_stream.entry(inp.stream).or_insert(0) += 1;
        by_size[SIZES.iter().position(|&s| s == inp.size).unwrap()] += 1;
        panics += o.panicked as usize;
        max_len = max_len.max(inp.msg.len());
        blocks_total += inp.msg.len() / (inp.size / 8) + 1;
        // every case runs the configuration, message and output stages; a case is
        // non-trivial unless it is an exact duplicate of an earlier one
        distinct.insert((inp.size, inp.nout, inp.hook.clone(), inp.msg.clone(), inp.split));
        let empty = Hook { x: Vec::new(), t0: 0, t1: 0, buffered: Vec::new() };
        let hk = inp.hook.as_ref().unwrap_or(&empty);
        coq.push(format!(
            "SK {} {} {} {} {} {} {} {} {} {} {} {} {} {} {} {} {} {}",
            inp.size,
            inp.nout,
            debug,
            nu,
            inp.hook.is_some(),
            nlit(&hk.x),
            nlit_u64(hk.t0),
            nlit_u64(hk.t1),
            hk.buffered.len(),
            nlit(&hk.buffered),
            inp.msg.len(),
            nlit_long(&inp.msg),
            inp.split,
            o.panicked,
            nlit_u64(o.at0),
            nlit_u64(o.at1),
            o.apos,
            nlit(&o.digest)
        ));
        let j = format!(
            "{{\"size\":{},\"nout\":{},\"profile\":{},\"no_unroll\":{},\"stream\":{},\"hook\":{},\"msg_len\":{},\"msg\":{},\"split\":{},\"outcome\":{},\"after_updates\":{{\"t0\":{},\"t1\":{},\"pos\":{}}},\"digest\":{}}}",
            inp.size,
            inp.nout,
            jstr(if debug { "debug" } else { "release" }),
            nu,
            jstr(inp.stream),
            match &inp.hook {
                None => "null".to_string(),
                Some(h) => format!(
                    "{{\"x\":{},\"t0\":{},\"t1\":{},\"buffered\":{}}}",
                    jstr(&hex(&h.x)),
                    jstr(&format!("0x{:x}", h.t0)),
                    jstr(&format!("0x{:x}", h.t1)),
                    jstr(&hex(&h.buffered))
                ),
            },
            inp.msg.len(),
            jstr(&hex(&inp.msg)),
            inp.split,
            jstr(if o.panicked { "panic" } else { "ok" }),
            jstr(&format!("0x{:x}", o.at0)),
            jstr(&format!("0x{:x}", o.at1)),
            o.apos,
            jstr(&hex(&o.digest))
        );
        if (inp.msg.len() == 17 && samples.len() < 2) || (inp.hook.is_some() && samples.len() < 4) || i + 1 == inputs.len() {
            if inp.msg.len() <= 200 {
                samples.push(j.clone());
            }
        }
        js.push(j);
    }
    write_shards(
        &out,
        shards,
        "From Coq Require Import NArith List.\nFrom CC Require Import Run.Runner Run.Skein.",
        "skcase",
        &runner,
        &coq,
    );
    std::fs::write(format!("{}/cases.json", out), format!("[{}]", js.join(",\n"))).unwrap();
    let streams_js: Vec<String> = by_stream.iter().map(|(k, v)| format!("{}:{}", jstr(k), v)).collect();
    println!(
        "{{\"evaluations\":{},\"distinct_nontrivial\":{},\"profile\":{},\"no_unroll\":{},\"by_size\":{{\"256\":{},\"512\":{},\"1024\":{}}},\"by_stream\":{{{}}},\"output_sizes\":{:?},\"panics\":{},\"max_msg_len\":{},\"message_blocks_total\":{},\"really_streamed_bytes\":{},\"direct_failures\":[{}],\"samples\":[{}]}}",
        inputs.len(),
        distinct.len(),
        jstr(if debug { "debug" } else { "release" }),
        nu,
        by_size[0],
        by_size[1],
        by_size[2],
        streams_js.join(","),
        NOUTS,
        panics,
        max_len,
        blocks_total,
        real_bytes,
        direct.join(","),
        samples.join(",")
    );
}
