#![allow(dead_code, deprecated)]
//! Skein (C05, Skein part of C17): digests of Skein256/512/1024<N> for 18 output
//! sizes, fed in two update calls, optionally from a state entered through the
//! verification hook (arbitrary chaining value, tweak position near 2^32 / 2^64).
#[path = "../util.rs"]
mod util;
use util::*;

use digest::generic_array::typenum::*;
use digest::generic_array::{ArrayLength, GenericArray};
use digest::Digest;
use skein_hash::{Skein1024, Skein256, Skein512};
use std::panic::{catch_unwind, AssertUnwindSafe};

const NOUTS: [usize; 21] = [1, 7, 8, 16, 20, 24, 28, 31, 32, 33, 48, 63, 64, 65, 100, 127, 128, 129, 200, 256, 300];
const SIZES: [usize; 3] = [256, 512, 1024];
const T1_MSG: u64 = 48 << 56;
const T1_FIRST: u64 = 1 << 62;

/// state entered through `verif_set_state`
#[derive(Clone, PartialEq, Eq, Hash)]
struct Hook {
    x: Vec<u8>,
    t0: u64,
    t1: u64,
    buffered: Vec<u8>,
}

#[derive(Clone)]
struct Input {
    size: usize,
    nout: usize,
    hook: Option<Hook>,
    msg: Vec<u8>,
    split: usize,
    stream: &'static str,
    /// Some((t.0, t.1, pos, digest)): the outcome was already obtained from the object that reached the state by
    /// hashing (the tail given in one update call: split = 0)
    same_object: Option<(u64, u64, usize, Vec<u8>)>,
}

struct Outcome {
    panicked: bool,
    at0: u64,
    at1: u64,
    apos: usize,
    digest: Vec<u8>,
}

/// uniform access to the per-type inherent hook functions
trait Hk: Digest + Default + Clone + digest::FixedOutput + digest::Reset + digest::Update {
    fn set(&mut self, x: &[u8], t: (u64, u64), buffered: &[u8]);
    fn get(&self) -> (Vec<u8>, (u64, u64), Vec<u8>, usize);
}
macro_rules! impl_hk {
    ($t:ident) => {
        impl<N> Hk for $t<N>
        where
            N: Unsigned + ArrayLength<u8> + NonZero + Default,
        {
            fn set(&mut self, x: &[u8], t: (u64, u64), buffered: &[u8]) {
                self.verif_set_state(GenericArray::from_slice(x), t, buffered)
            }
            fn get(&self) -> (Vec<u8>, (u64, u64), Vec<u8>, usize) {
                let (x, t, b, p) = self.verif_get_state();
                (x.to_vec(), t, b.to_vec(), p)
            }
        }
    };
}
impl_hk!(Skein256);
impl_hk!(Skein512);
impl_hk!(Skein1024);

fn run_typed<H: Hk>(inp: &Input) -> Outcome {
    let r = catch_unwind(AssertUnwindSafe(|| {
        let mut h = H::default();
        // half of the un-hooked cases reuse an object that has already produced a digest in place
        // (FixedOutput::finalize_fixed_reset) or absorbed data and was reset
        if inp.hook.is_none() {
            match (inp.msg.len() + inp.split) % 4 {
                2 => {
                    digest::Update::update(&mut h, &inp.msg[..if (inp.msg.len() / 4) % 2 == 0 { 0 } else { inp.msg.len().min(5) }]);
                    let _ = digest::FixedOutput::finalize_fixed_reset(&mut h);
                }
                3 => {
                    digest::Update::update(&mut h, &[0x5au8; 200][..]);
                    // tweak position far into a message before the reset
                    let (x, t, _, _) = h.get();
                    h.set(&x, ((1u64 << 40) + 96, t.1), &[0x11u8; 3][..]);
                    digest::Reset::reset(&mut h);
                }
                _ => {}
            }
        }
        if let Some(hk) = &inp.hook {
            h.set(&hk.x, (hk.t0, hk.t1), &hk.buffered);
        }
        Digest::update(&mut h, &inp.msg[..inp.split]);
        Digest::update(&mut h, &inp.msg[inp.split..]);
        let (_, t, _, pos) = h.get();
        // a third of the cases: the digest of a clone taken after the data was absorbed
        let d = if (inp.msg.len() + inp.split) % 3 == 1 {
            let c = h.clone();
            Digest::update(&mut h, b"x");
            c.finalize()
        } else {
            h.finalize()
        };
        (t, pos, d.to_vec())
    }));
    match r {
        Ok((t, pos, d)) => Outcome { panicked: false, at0: t.0, at1: t.1, apos: pos, digest: d },
        Err(_) => Outcome { panicked: true, at0: 0, at1: 0, apos: 0, digest: Vec::new() },
    }
}

/// really stream `n` patterned bytes into a fresh hasher, read the state back through the hook, then continue
/// the SAME object with `tail` and finalise it
fn real_stream<H: Hk>(n: u64, tail: &[u8]) -> (Hook, (u64, u64, usize, Vec<u8>)) {
    let mut h = H::default();
    let chunk: Vec<u8> = (0..(1usize << 20)).map(|i| (i as u32).wrapping_mul(2654435761).to_le_bytes()[3] ^ (i as u8)).collect();
    let sizes = [1usize << 20, 65537, 4096, 63, 1, 64, 129, 1 << 20, 31, 32, 33, 128];
    let (mut done, mut k) = (0u64, 0usize);
    while done < n {
        let m = (sizes[k % sizes.len()] as u64).min(n - done) as usize;
        Digest::update(&mut h, &chunk[..m]);
        done += m as u64;
        k += 1;
    }
    let (x, t, b, p) = h.get();
    Digest::update(&mut h, tail);
    let (_, t2, _, p2) = h.get();
    (Hook { x, t0: t.0, t1: t.1, buffered: b[..p].to_vec() }, (t2.0, t2.1, p2, h.finalize().to_vec()))
}

macro_rules! by_nout {
    ($ty:ident, $inp:expr) => {
        match $inp.nout {
            1 => run_typed::<$ty<U1>>($inp),
            7 => run_typed::<$ty<U7>>($inp),
            8 => run_typed::<$ty<U8>>($inp),
            16 => run_typed::<$ty<U16>>($inp),
            20 => run_typed::<$ty<U20>>($inp),
            24 => run_typed::<$ty<U24>>($inp),
            28 => run_typed::<$ty<U28>>($inp),
            31 => run_typed::<$ty<U31>>($inp),
            32 => run_typed::<$ty<U32>>($inp),
            33 => run_typed::<$ty<U33>>($inp),
            48 => run_typed::<$ty<U48>>($inp),
            63 => run_typed::<$ty<U63>>($inp),
            64 => run_typed::<$ty<U64>>($inp),
            65 => run_typed::<$ty<U65>>($inp),
            100 => run_typed::<$ty<U100>>($inp),
            127 => run_typed::<$ty<U127>>($inp),
            128 => run_typed::<$ty<U128>>($inp),
            129 => run_typed::<$ty<U129>>($inp),
            200 => run_typed::<$ty<U200>>($inp),
            256 => run_typed::<$ty<U256>>($inp),
            300 => run_typed::<$ty<U300>>($inp),
            // more than 256 output blocks: the output counter must carry beyond its low byte
            8256 => run_typed::<$ty<Sum<U8192, U64>>>($inp),
            16448 => run_typed::<$ty<Sum<U16384, U64>>>($inp),
            32896 => run_typed::<$ty<Sum<U32768, U128>>>($inp),
            n => panic!("output size {} not instantiated", n),
        }
    };
}

/// More than 65535 output blocks: Skein256<2^21 + 32> returns 65537 blocks of 32 bytes. That is too long for the
/// model inside coqc, so it is checked on the implementation (and only its first 8256 bytes reach Coq, see main).
/// Runs on a thread with a large stack: the 2 MiB output is passed by value several times.
type HugeN = Sum<U2097152, U32>;
const HUGE_N: usize = 2_097_152 + 32;
fn run_huge(inp: &Input) -> Option<Outcome> {
    let inp = inp.clone();
    std::thread::Builder::new()
        .stack_size(128 << 20)
        .spawn(move || run_typed::<Skein256<HugeN>>(&inp))
        .ok()
        .and_then(|h| h.join().ok())
}

fn run_input(inp: &Input) -> Outcome {
    match inp.size {
        256 => by_nout!(Skein256, inp),
        512 => by_nout!(Skein512, inp),
        _ => by_nout!(Skein1024, inp),
    }
}

/// Coq literal for a long byte string: coqc overflows its stack on a single numeral of more
/// than ~3000 bytes, so long strings are written as a sum of shifted 2048-byte numerals
fn nlit_long(b: &[u8]) -> String {
    const CH: usize = 2048;
    if b.len() <= CH {
        return nlit(b);
    }
    let parts: Vec<String> = b
        .chunks(CH)
        .enumerate()
        .map(|(k, c)| if k == 0 { nlit(c) } else { format!("N.shiftl {} {}", nlit(c), 8 * CH * k) })
        .collect();
    format!("({})", parts.join(" + "))
}

/// Definitions prepended to the generated case files (nothing in /verif/coq changes): `LP len seed` is the
/// number whose little-endian encoding is the `len` bytes "high byte of x_i", x_0 = seed, x_{i+1} = 5 x_i + 12345
/// mod 2^16. coqc needs ~80 us per byte of a literal (5 s for 64 KiB); this term costs a few ms.
const LP_HEADER: &str = "From CC Require Import Lib.Bytes.\nFixpoint lp_bytes (n : nat) (x : N) : list N := match n with O => nil | S k => cons (N.shiftr x 8%N) (lp_bytes k (N.land (x * 5 + 12345)%N 65535%N)) end.\nDefinition LP (n seed : N) : N := le_join (lp_bytes (N.to_nat n) (N.land seed 65535%N)).";
fn lp_fill(n: usize, seed: u16) -> Vec<u8> {
    let mut x = seed as u32;
    (0..n)
        .map(|_| {
            let b = (x >> 8) as u8;
            x = (x * 5 + 12345) & 0xffff;
            b
        })
        .collect()
}
/// the seed if `msg` (4 KiB or more) is such a sequence
fn lp_seed(msg: &[u8]) -> Option<u16> {
    if msg.len() < 4096 {
        return None;
    }
    (0..256u16).map(|lo| (msg[0] as u16) << 8 | lo).find(|s| lp_fill(16, *s)[..] == msg[..16] && lp_fill(msg.len(), *s)[..] == msg[..])
}

/// message contents: random / zero / ones / counting (and the structured kinds of util::Rng::bytes)
fn content(rng: &mut Rng, kind: usize, n: usize) -> Vec<u8> {
    match kind % 5 {
        0 => {
            let mut v = vec![0u8; n];
            rng.fill(&mut v);
            v
        }
        1 => vec![0u8; n],
        2 => vec![0xffu8; n],
        3 => (0..n).map(|i| i as u8).collect(),
        _ => rng.bytes(n),
    }
}

/// split points aimed at the buffer boundaries
fn split_for(rng: &mut Rng, len: usize, nb: usize) -> usize {
    let c = [0, len, nb, nb.wrapping_sub(1), nb + 1, 2 * nb, len.saturating_sub(1), len / 2];
    let s = if rng.chance(1, 3) { rng.below(len as u64 + 1) as usize } else { *rng.pick(&c) };
    s.min(len)
}

fn gen_inputs(rng: &mut Rng, thorough: bool, streams: &str, seed: u64, big_output: bool) -> Vec<Input> {
    let mut v = Vec::new();
    let all = streams == "all";
    if all {
        // A: every residue of the block size, up to three blocks + 1 (ascending, sizes interleaved)
        for len in 0..=(3 * 128 + 1) {
            for (si, &size) in SIZES.iter().enumerate() {
                let nb = size / 8;
                if len > 3 * nb + 1 {
                    continue;
                }
                // quick tier: every length up to one block + 1, then the block boundaries and
                // every fourth length (rotating with the state size) up to three blocks + 1
                if !thorough && len > nb + 1 && !(len % nb <= 1 || len % nb == nb - 1 || len % 4 == si) {
                    continue;
                }
                let reps = if thorough { 3 } else { 1 };
                for r in 0..reps {
                    let nout = NOUTS[(len * 5 + si * 7 + r * 11) % NOUTS.len()];
                    let msg = content(rng, len + si + r, len);
                    let split = split_for(rng, len, nb);
                    v.push(Input { size, nout, hook: None, msg, split, stream: "residues", same_object: None });
                }
            }
        }
        // B: every (size, N): empty, exact multiples and neighbours, one random length
        for &nout in NOUTS.iter() {
            for &size in SIZES.iter() {
                let nb = size / 8;
                let mut lens = vec![0, nb, nb + 1, rng.below(3 * nb as u64 + 2) as usize];
                if thorough {
                    lens.extend_from_slice(&[1, nb - 1, 2 * nb - 1, 2 * nb, 2 * nb + 1, 3 * nb]);
                    for _ in 0..6 {
                        lens.push(rng.below(6 * nb as u64) as usize);
                    }
                }
                for (k, &len) in lens.iter().enumerate() {
                    let msg = content(rng, k + nout, len);
                    let split = split_for(rng, len, nb);
                    v.push(Input { size, nout, hook: None, msg, split, stream: "per_output_size", same_object: None });
                }
            }
        }
        // C: sparse longer messages
        for (k, &size) in SIZES.iter().cycle().take(if thorough { 90 } else { 18 }).enumerate() {
            let nb = size / 8;
            let base = [4 * nb, 5 * nb - 1, 8 * nb + 3, 16 * nb, 1000, 2048 + 17];
            let len = if k < 18 {
                base[k / 3]
            } else if k < 24 {
                [8192, 16384 - 1][k % 2] + (k % 3)
            } else {
                nb * (4 + rng.below(28) as usize) + [0usize, 0, 1, nb - 1][k % 4] * (k % 2)
                    + rng.below(2) as usize * rng.below(nb as u64) as usize
            };
            let nout = NOUTS[(k * 7 + 3) % NOUTS.len()];
            let msg = content(rng, k, len);
            let split = split_for(rng, len, nb);
            v.push(Input { size, nout, hook: None, msg, split, stream: "long", same_object: None });
        }
    }
    // G: ONE update call with a long message (the other streams stop at ~4 KiB in quick; `split` = 0, i.e. an empty
    //    update, then the whole message in one call): 8 KiB for every state size, 64 KiB + 1 for Skein-512 (the cheapest per byte in
    //    coqc: ~20 s for model + spec under load; 256 and 1024 need ~35 s) and 16 KiB + 1 for the other two; the hook /
    //    smoke streams (release profile, no_unroll build): 8 KiB for one state size. Contents: the sequence LP.
    {
        let lens: Vec<(usize, usize)> = if all {
            SIZES.iter().enumerate().flat_map(|(si, &size)| vec![(size, 8192usize), (size, if si == 1 { 65537 } else { 16385 })]).collect()
        } else {
            vec![(SIZES[((seed + 1) % 3) as usize], 8192)]
        };
        for (k, (size, len)) in lens.into_iter().enumerate() {
            let nout = [32usize, 64, 28, 128, 33, 20][(k + seed as usize) % 6];
            let msg = lp_fill(len, rng.below(1 << 16) as u16);
            v.push(Input { size, nout, hook: None, msg, split: 0, stream: "one_long_update", same_object: None });
        }
    }
    {
        // F: output longer than 256 output blocks (counter-mode output with a counter above 255): all three state
        //    sizes in the full stream; one state size (rotating with the seed) in the hook / smoke streams, so
        //    that the release profile and the no_unroll build see such an output too
        let all3: [(usize, usize); 3] = [(256, 8256), (512, 16448), (1024, 32896)];
        let big: Vec<(usize, usize)> = if all && thorough {
            vec![(256, 8256), (512, 16448), (1024, 32896), (256, 16448)]
        } else if all {
            all3.to_vec()
        } else if !big_output {
            Vec::new()
        } else if streams == "smoke" {
            vec![all3[0]] // the cheapest one (the rolled-loop model is slow inside coqc)
        } else {
            vec![all3[(seed % 3) as usize]]
        };
        for (k, &(size, nout)) in big.iter().enumerate() {
            let nb = size / 8;
            let len = [3usize, nb + 1, 0, 2 * nb][k % 4];
            let msg = content(rng, k, len);
            let split = split_for(rng, len, nb);
            v.push(Input { size, nout, hook: None, msg, split, stream: "big_output", same_object: None });
        }
    }
    if !all {
        // E: a few complete runs (Default, two updates, finalize) so that configurations which
        //    otherwise only see entered states also exercise the configuration block, a second
        //    message block, an exact multiple and more than one output block
        for (si, &size) in SIZES.iter().enumerate() {
            let nb = size / 8;
            for (k, &len) in [0usize, 17, nb, nb + 1, 2 * nb, 3 * nb + 5].iter().enumerate() {
                let nout = [33usize, 129, 300, 7, 64, 200][(k + si) % 6];
                let msg = content(rng, k + si, len);
                let split = split_for(rng, len, nb);
                v.push(Input { size, nout, hook: None, msg, split, stream: "smoke", same_object: None });
            }
        }
    }
    // D: states entered through the hook: arbitrary chaining value, tweak position
    //    0 (FIRST set), just below 2^32, 2^40, just below 2^64 (overflow of t.0)
    let mut k = 0usize;
    for &size in SIZES.iter() {
        let nb = size / 8;
        let nbu = nb as u64;
        let mut t0s: Vec<(u64, u64)> = vec![(0, T1_MSG | T1_FIRST), (0, T1_MSG)];
        for j in 1..=3u64 {
            t0s.push(((1u64 << 32) - j * nbu, T1_MSG));
            t0s.push((0u64.wrapping_sub(j * nbu), T1_MSG));
        }
        t0s.push((1u64 << 32, T1_MSG));
        t0s.push(((1u64 << 40) - nbu, T1_MSG));
        t0s.push(((1u64 << 63) - nbu, T1_MSG));
        t0s.push((0u64.wrapping_sub(4 * nbu), T1_MSG));
        t0s.push((u64::MAX - 2 * nbu, T1_MSG)); // not a multiple of the block size
        for &(t0, t1) in t0s.iter() {
            for &nbuf in [0usize, 1, nb - 1, nb].iter() {
                let tails = [0usize, 1, nb - nbuf, nb, nb + 1, 2 * nb + 1, 3 * nb];
                for (ti, &tail) in tails.iter().enumerate() {
                    k += 1;
                    // quick tier: a third of the product, rotating with the seed (every (t0, nbuf, tail) meets
                    // every state size at some seed)
                    if !thorough && ((k + seed as usize) % 3 != 0) {
                        continue;
                    }
                    // streams = smoke: a ninth of the product
                    if streams == "smoke" && ((k + seed as usize) % 9 != 0) {
                        continue;
                    }
                    let nout = if k % 4 == 0 { NOUTS[k % NOUTS.len()] } else { [8usize, 32, 33, 64][k % 4] };
                    let hook = Hook { x: rng.bytes(nb), t0, t1, buffered: content(rng, k, nbuf) };
                    let msg = content(rng, k + ti, tail);
                    let split = split_for(rng, tail, nb);
                    v.push(Input { size, nout, hook: Some(hook), msg, split, stream: "hook", same_object: None });
                }
            }
        }
    }
    v
}

fn main() {
    let argv: Vec<String> = std::env::args().collect();
    if argv.len() < 2 || argv[1] != "skein" {
        eprintln!("usage: h_skein skein [--seed N --shards N --out DIR --tier quick|thorough --streams all|hook|smoke --real N --big-output 0|1 --runner run_c05]");
        std::process::exit(2);
    }
    let a = Args::parse(&argv[2..]);
    let seed = a.u64("seed", 1);
    let shards = a.u64("shards", 16) as usize;
    let out = a.str("out", "/verif/_build/work/skein-manual");
    let thorough = a.str("tier", "quick") == "thorough";
    let streams = a.str("streams", "all");
    let runner = a.str("runner", "run_c05");
    let debug = cfg!(debug_assertions);
    let nu = cfg!(feature = "no_unroll");
    std::panic::set_hook(Box::new(|_| {}));

    let mut rng = Rng::new(seed ^ 0x5ce1_4a5b);
    // --big-output 1: an output of more than 255 output blocks also in the hook / smoke streams (C05 asks for it
    // in its release configurations; C17 does not)
    let big_output = a.u64("big-output", 0) != 0;
    let mut inputs = gen_inputs(&mut rng, thorough, &streams, seed, big_output);
    // C17: the byte position really driven to just below 2^32 bytes (4 GiB streamed), the tail
    // then crosses it; the position read back must be the bytes compressed so far
    let real = a.u64("real", 0);
    let mut direct: Vec<String> = Vec::new();
    let mut real_bytes = 0u64;
    for k in 0..real {
        // thorough tier: which state size is streamed first rotates with the seed; quick tier: Skein-512 (the fastest:
        // 4 GiB take ~15 s, ~23 s for Skein-1024), as C17's quick budget is tight
        let size = SIZES[(k as usize + 1 + if thorough { seed as usize } else { 0 }) % 3];
        let nb = (size / 8) as u64;
        let below = [1u64, nb, 2 * nb + 5, nb - 1][k as usize % 4];
        let n = (1u64 << 32) - below;
        let tail = below as usize + [0usize, 1, nb as usize, 5][k as usize % 4];
        let msg = content(&mut rng, k as usize, tail);
        let r = catch_unwind(AssertUnwindSafe(|| match size {
            256 => real_stream::<Skein256<U32>>(n, &msg),
            512 => real_stream::<Skein512<U64>>(n, &msg),
            _ => real_stream::<Skein1024<U128>>(n, &msg),
        }));
        let (hook, same) = match r {
            Ok(x) => x,
            Err(_) => {
                direct.push(format!("{{\"what\":\"panic while really streaming\",\"size\":{},\"streamed\":{}}}", size, n));
                continue;
            }
        };
        real_bytes += n;
        let want_t0 = ((n + nb - 1) / nb - 1) * nb; // lazy buffering: the last block stays pending
        if hook.t0 != want_t0 || hook.buffered.len() as u64 != n - want_t0 || hook.t1 != T1_MSG {
            direct.push(format!(
                "{{\"what\":\"position after really streaming\",\"size\":{},\"streamed\":{},\"t0\":{},\"t1\":\"{:x}\",\"pos\":{}}}",
                size, n, hook.t0, hook.t1, hook.buffered.len()
            ));
        }
        let split = split_for(&mut rng, tail, nb as usize);
        let nout = size / 8; // the types streamed are Skein256<U32>, Skein512<U64>, Skein1024<U128>
        // the tail crosses the boundary twice: in a fresh object the read-back state is entered into (two update
        // calls), and in the streamed object itself (one call; a private field the hook does not expose would make
        // the two differ)
        inputs.push(Input { size, nout, hook: Some(hook.clone()), msg: msg.clone(), split, stream: "real_stream", same_object: None });
        inputs.push(Input { size, nout, hook: Some(hook), msg, split: 0, stream: "real_stream_same_object", same_object: Some(same) });
    }
    let (mut len_checked, mut bad_len, mut beyond_domain) = (0usize, 0usize, 0usize);
    // C05: an output of 65537 output blocks (counter above 65535). From one entered state (the hook overrides the
    // chaining value, so the output size in the configuration block no longer matters) Skein256<8256> and
    // Skein256<2^21+32> must agree on the first 8256 bytes; the former is an ordinary case (compared with model and
    // spec inside coqc); in the latter all 65537 blocks must be pairwise distinct (a counter truncated to 16 or
    // 8 bits, or one that saturates, repeats a block)
    let mut huge_blocks = 0usize;
    if big_output && streams != "smoke" {
        let hook = Hook { x: rng.bytes(32), t0: 0, t1: T1_MSG | T1_FIRST, buffered: content(&mut rng, 3, 7) };
        let msg = content(&mut rng, 0, 40);
        let small = Input { size: 256, nout: 8256, hook: Some(hook.clone()), msg: msg.clone(), split: 9, stream: "big_output_from_state", same_object: None };
        let huge = Input { size: 256, nout: HUGE_N, hook: Some(hook), msg, split: 9, stream: "huge_output", same_object: None };
        let a = run_input(&small);
        match run_huge(&huge) {
            Some(b) if !b.panicked && !a.panicked => {
                let mut seen = std::collections::HashSet::new();
                let mut repeated: Option<(usize, usize)> = None;
                let mut first_at: std::collections::HashMap<&[u8], usize> = Default::default();
                for (i, blk) in b.digest.chunks(32).enumerate() {
                    if !seen.insert(blk) && repeated.is_none() {
                        repeated = Some((first_at[blk], i));
                    }
                    first_at.entry(blk).or_insert(i);
                }
                huge_blocks = (b.digest.len() + 31) / 32;
                let prefix_ok = b.digest.len() >= 8256 && b.digest[..8256] == a.digest[..];
                if b.digest.len() != HUGE_N || !prefix_ok || repeated.is_some() {
                    direct.push(format!(
                        "{{\"what\":\"Skein256 output of 65537 blocks (N = 2^21+32) from an entered state: wrong length, or its first 8256 bytes differ from the N = 8256 output of the same state, or two output blocks are equal\",\"x\":{},\"t0\":0,\"t1\":\"{:x}\",\"buffered\":{},\"msg\":{},\"split\":9,\"digest_len\":{},\"prefix_equal\":{},\"equal_blocks\":{}}}",
                        jstr(&hex(&small.hook.as_ref().unwrap().x)), T1_MSG | T1_FIRST, jstr(&hex(&small.hook.as_ref().unwrap().buffered)), jstr(&hex(&small.msg)),
                        b.digest.len(), prefix_ok,
                        match repeated { Some((i, j)) => format!("[{},{}]", i, j), None => "null".to_string() }
                    ));
                }
            }
            _ => direct.push("{\"what\":\"Skein256 with an output of 65537 blocks (N = 2^21+32) panicked or could not be run\"}".to_string()),
        }
        inputs.push(small);
    }
    let mut coq = Vec::new();
    let mut js = Vec::new();
    let mut samples: Vec<String> = Vec::new();
    let mut distinct = std::collections::HashSet::new();
    let mut by_stream: std::collections::BTreeMap<&str, usize> = Default::default();
    let mut by_size = [0usize; 3];
    let mut panics = 0usize;
    let mut max_len = 0usize;
    let mut blocks_total = 0usize;
    for (i, inp) in inputs.iter().enumerate() {
        let o = match &inp.same_object {
            Some((t0, t1, pos, d)) => Outcome { panicked: false, at0: *t0, at1: *t1, apos: *pos, digest: d.clone() },
            None => run_input(inp),
        };
        // the Coq runner cuts the digest literal to N bytes: the length actually returned is checked here
        if !o.panicked {
            len_checked += 1;
            if o.digest.len() != inp.nout {
                bad_len += 1;
                if direct.len() < 12 {
                    direct.push(format!(
                        "{{\"what\":\"the digest returned does not have the N bytes of the type\",\"size\":{},\"nout\":{},\"stream\":{},\"msg\":{},\"split\":{},\"digest_len\":{},\"digest\":{}}}",
                        inp.size, inp.nout, jstr(inp.stream), jstr(&hex(&inp.msg)), inp.split, o.digest.len(), jstr(&hex(&o.digest))
                    ));
                }
            }
        }
        // the property speaks about messages below 2^64 bytes (the u64 position word): entered states whose
        // total lies at or beyond are pinned to the behaviour as written and tagged, so that a later repair there
        // (a carry into t.1) can be told from a violation
        let domain = match &inp.hook {
            Some(h) if (h.t0 as u128) + (h.buffered.len() as u128) + (inp.msg.len() as u128) >= 1u128 << 64 => {
                beyond_domain += 1;
                "beyond the property's domain: t.0 + buffered + message >= 2^64 bytes (behaviour as written is pinned: overflow checks panic, otherwise t.0 wraps)"
            }
            _ => "within",
        };
        *by_stream.entry(inp.stream).or_insert(0) += 1;
        by_size[SIZES.iter().position(|&s| s == inp.size).unwrap()] += 1;
        panics += o.panicked as usize;
        max_len = max_len.max(inp.msg.len());
        blocks_total += inp.msg.len() / (inp.size / 8) + 1;
        // every case runs the configuration, message and output stages; a case is
        // non-trivial unless it is an exact duplicate of an earlier one
        distinct.insert((inp.size, inp.nout, inp.hook.clone(), inp.msg.clone(), inp.split));
        let empty = Hook { x: Vec::new(), t0: 0, t1: 0, buffered: Vec::new() };
        let hk = inp.hook.as_ref().unwrap_or(&empty);
        let lp = if inp.stream == "one_long_update" { lp_seed(&inp.msg) } else { None };
        coq.push(format!(
            "SK {} {} {} {} {} {} {} {} {} {} {} {} {} {} {} {} {} {}",
            inp.size,
            inp.nout,
            debug,
            nu,
            inp.hook.is_some(),
            nlit(&hk.x),
            nlit_u64(hk.t0),
            nlit_u64(hk.t1),
            hk.buffered.len(),
            nlit(&hk.buffered),
            inp.msg.len(),
            match lp {
                Some(sd) => format!("(LP {} {})", inp.msg.len(), sd),
                None => nlit_long(&inp.msg),
            },
            inp.split,
            o.panicked,
            nlit_u64(o.at0),
            nlit_u64(o.at1),
            o.apos,
            nlit(&o.digest)
        ));
        let j = format!(
            "{{\"size\":{},\"nout\":{},\"profile\":{},\"no_unroll\":{},\"stream\":{},\"domain\":{},\"digest_len\":{},\"hook\":{},\"msg_len\":{},\"msg\":{},\"split\":{},\"outcome\":{},\"after_updates\":{{\"t0\":{},\"t1\":{},\"pos\":{}}},\"digest\":{}}}",
            inp.size,
            inp.nout,
            jstr(if debug { "debug" } else { "release" }),
            nu,
            jstr(inp.stream),
            jstr(domain),
            o.digest.len(),
            match &inp.hook {
                None => "null".to_string(),
                Some(h) => format!(
                    "{{\"x\":{},\"t0\":{},\"t1\":{},\"buffered\":{}}}",
                    jstr(&hex(&h.x)),
                    jstr(&format!("0x{:x}", h.t0)),
                    jstr(&format!("0x{:x}", h.t1)),
                    jstr(&hex(&h.buffered))
                ),
            },
            inp.msg.len(),
            match lp {
                Some(sd) => jstr(&format!("byte i = x_i >> 8, x_0 = {}, x_(i+1) = (5 x_i + 12345) mod 65536; first bytes {}", sd, hex(&inp.msg[..16]))),
                None => jstr(&hex(&inp.msg)),
            },
            inp.split,
            jstr(if o.panicked { "panic" } else { "ok" }),
            jstr(&format!("0x{:x}", o.at0)),
            jstr(&format!("0x{:x}", o.at1)),
            o.apos,
            jstr(&hex(&o.digest))
        );
        if (inp.msg.len() == 17 && samples.len() < 2) || (inp.hook.is_some() && samples.len() < 4) || i + 1 == inputs.len() {
            if inp.msg.len() <= 200 {
                samples.push(j.clone());
            }
        }
        js.push(j);
    }
    write_shards(
        &out,
        shards,
        &format!("From Coq Require Import NArith List.\nFrom CC Require Import Run.Runner Run.Skein.\n{}", LP_HEADER),
        "skcase",
        &runner,
        &coq,
    );
    std::fs::write(format!("{}/cases.json", out), format!("[{}]", js.join(",\n"))).unwrap();
    let streams_js: Vec<String> = by_stream.iter().map(|(k, v)| format!("{}:{}", jstr(k), v)).collect();
    println!(
        "{{\"evaluations\":{},\"distinct_nontrivial\":{},\"profile\":{},\"no_unroll\":{},\"by_size\":{{\"256\":{},\"512\":{},\"1024\":{}}},\"by_stream\":{{{}}},\"output_sizes\":{:?},\"panics\":{},\"max_msg_len\":{},\"message_blocks_total\":{},\"really_streamed_bytes\":{},\"digest_lengths_checked\":{},\"digests_of_wrong_length\":{},\"beyond_domain_cases_tagged\":{},\"hook_selection_rotation\":{},\"output_blocks_of_the_huge_output_checked_on_the_implementation\":{},\"direct_failures\":[{}],\"samples\":[{}]}}",
        inputs.len(),
        distinct.len(),
        jstr(if debug { "debug" } else { "release" }),
        nu,
        by_size[0],
        by_size[1],
        by_size[2],
        streams_js.join(","),
        NOUTS,
        panics,
        max_len,
        blocks_total,
        real_bytes,
        len_checked,
        bad_len,
        beyond_domain,
        seed % 9,
        huge_blocks,
        direct.join(","),
        samples.join(",")
    );
}
