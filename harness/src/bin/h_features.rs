#![allow(dead_code)]
#![allow(unexpected_cfgs)]
//! C20: a fixed battery run on whatever feature point of the crates this binary was built
//! against. The check builds it once per configuration (a choice of one lattice point per
//! crate) and compares the printed results, section by section, with the default build: a
//! feature may select an implementation, it must never change a result.
//!
//! Sections are compiled out with the (add-only) features `c20_no_<crate>` so that a
//! configuration can leave a crate out of the dependency graph (cargo unifies features: e.g.
//! blake-hash and jh-x86_64 always turn ppv-lite86/std on). `c20_no_chacha_api` removes the
//! RustCrypto API section (c2-chacha without `rustcrypto_api`); the `guts` section is always
//! there. The battery depends only on `--seed`, never on the configuration.
#[path = "../util.rs"]
mod util;
use util::*;

struct Case {
    id: String,
    input: String,
    out: String,
}

fn case(id: String, input: &[u8], out: &[u8]) -> Case {
    Case { id, input: if input.len() <= 96 { hex(input) } else { format!("{}..({} bytes)", hex(&input[..32]), input.len()) }, out: hex(out) }
}

const LENS: &[usize] = &[
    0, 1, 2, 3, 7, 8, 15, 16, 17, 31, 32, 33, 47, 48, 54, 55, 56, 57, 63, 64, 65, 95, 96, 110, 111, 112, 113, 118, 119, 120, 127, 128,
    129, 191, 192, 193, 255, 256, 257, 300, 383, 384, 511, 512, 513, 777, 1000, 1024, 2049,
];

/// messages: the fixed length sweep with structured contents, then `extra` random ones
fn messages(seed: u64, tag: u64, extra: usize) -> Vec<Vec<u8>> {
    let mut rng = Rng::new(seed ^ tag);
    let mut v = Vec::new();
    for &n in LENS {
        v.push(rng.bytes(n));
    }
    // byte-index pattern and all-ones at the block boundaries
    for &n in &[64usize, 128, 129] {
        v.push((0..n).map(|i| i as u8).collect());
        v.push(vec![0xff; n]);
    }
    for _ in 0..extra {
        let n = rng.below(700) as usize;
        v.push(rng.bytes(n));
    }
    v
}

macro_rules! hash_section {
    ($name:expr, $seed:expr, $extra:expr, $tag:expr, [$(($label:expr, $ty:ty)),*]) => {{
        use digest::Digest;
        let mut out = Vec::new();
        for (i, m) in messages($seed, $tag, $extra).iter().enumerate() {
            $(
                let d = <$ty>::digest(m).to_vec();
                out.push(case(format!("{}/{}/msg{}/len{}", $name, $label, i, m.len()), m, &d));
                // the same message in two updates (split inside the first block)
                let mut h = <$ty>::default();
                let cut = m.len().min(5);
                h.update(&m[..cut]);
                h.update(&m[cut..]);
                let d2 = h.finalize().to_vec();
                if d2 != d {
                    out.push(case(format!("{}/{}/msg{}/len{}/split5", $name, $label, i, m.len()), m, &d2));
                }
            )*
        }
        out
    }};
}

#[cfg(not(feature = "c20_no_blake"))]
fn sec_blake(seed: u64, extra: usize) -> Vec<Case> {
    use blake_hash::{Blake224, Blake256, Blake384, Blake512};
    hash_section!("blake", seed, extra, 0xb1a, [("224", Blake224), ("256", Blake256), ("384", Blake384), ("512", Blake512)])
}

#[cfg(not(feature = "c20_no_groestl"))]
fn sec_groestl(seed: u64, extra: usize) -> Vec<Case> {
    use groestl_aesni::{Groestl224, Groestl256, Groestl384, Groestl512};
    hash_section!("groestl", seed, extra, 0x6e0, [("224", Groestl224), ("256", Groestl256), ("384", Groestl384), ("512", Groestl512)])
}

#[cfg(not(feature = "c20_no_jh"))]
fn sec_jh(seed: u64, extra: usize) -> Vec<Case> {
    use jh_x86_64::{Jh224, Jh256, Jh384, Jh512};
    hash_section!("jh", seed, extra, 0x14, [("224", Jh224), ("256", Jh256), ("384", Jh384), ("512", Jh512)])
}

#[cfg(not(feature = "c20_no_skein"))]
fn sec_skein(seed: u64, extra: usize) -> Vec<Case> {
    use digest::generic_array::typenum::{U128, U32, U64};
    use skein_hash::{Skein1024, Skein256, Skein512};
    hash_section!("skein", seed, extra, 0x5e1, [("256-256", Skein256<U32>), ("512-512", Skein512<U64>), ("1024-1024", Skein1024<U128>), ("512-256", Skein512<U32>)])
}

#[cfg(not(feature = "c20_no_threefish"))]
fn sec_threefish(seed: u64, extra: usize) -> Vec<Case> {
    use cipher::generic_array::GenericArray;
    use cipher::{BlockDecrypt, BlockEncrypt};
    use threefish_cipher::{Threefish1024, Threefish256, Threefish512};
    let mut rng = Rng::new(seed ^ 0x7f);
    let mut out = Vec::new();
    macro_rules! go {
        ($t:ident, $n:expr, $i:expr) => {{
            let key = rng.bytes($n);
            let (t0, t1) = (rng.word64(), rng.word64());
            let block = rng.bytes($n);
            let c = $t::with_tweak(GenericArray::from_slice(&key), t0, t1);
            let mut e = GenericArray::clone_from_slice(&block);
            c.encrypt_block(&mut e);
            let mut d = GenericArray::clone_from_slice(&block);
            c.decrypt_block(&mut d);
            let mut inp = key.clone();
            inp.extend_from_slice(&t0.to_le_bytes());
            inp.extend_from_slice(&t1.to_le_bytes());
            inp.extend_from_slice(&block);
            let mut o = e.to_vec();
            o.extend_from_slice(&d);
            out.push(case(format!("threefish/{}/case{}", $n * 8, $i), &inp, &o));
        }};
    }
    for i in 0..(24 + extra) {
        go!(Threefish256, 32, i);
        go!(Threefish512, 64, i);
        go!(Threefish1024, 128, i);
    }
    out
}

/// c2-chacha through `guts` (present at every feature point)
#[cfg(not(feature = "c20_no_chacha"))]
fn sec_chacha_guts(seed: u64, extra: usize) -> Vec<Case> {
    use c2_chacha::guts::ChaCha;
    let mut rng = Rng::new(seed ^ 0xc4a);
    let mut out = Vec::new();
    let counters: [u64; 10] = [0, 1, 3, 0xffff_fffc, 0xffff_fffe, 0xffff_ffff, 0x1_0000_0000, u64::MAX - 4, u64::MAX - 1, u64::MAX];
    for i in 0..(12 + extra) {
        let mut key = [0u8; 32];
        key.copy_from_slice(&rng.bytes(32));
        let nlen = if i % 3 == 0 { 12 } else { 8 };
        let nonce = rng.bytes(nlen);
        for &drounds in &[4u32, 6, 10] {
            let ctr = if i < counters.len() { counters[i] } else { rng.word64() };
            let mut inp = key.to_vec();
            inp.extend_from_slice(&nonce);
            inp.extend_from_slice(&ctr.to_le_bytes());
            let mut o = Vec::new();
            // wide then narrow refills from the same start
            let mut s = ChaCha::new(&key, &nonce);
            if nlen == 8 {
                s.set_stream_param(0, ctr);
            } else {
                s.set_stream_param(0, (s.get_stream_param(0) & !0xffff_ffff) | (ctr & 0xffff_fffb));
            }
            let mut w = [0u8; 256];
            s.refill4(drounds, &mut w);
            o.extend_from_slice(&w);
            let mut n = [0u8; 64];
            s.refill(drounds, &mut n);
            o.extend_from_slice(&n);
            s.refill(drounds, &mut n);
            o.extend_from_slice(&n);
            o.extend_from_slice(&s.get_stream_param(0).to_le_bytes());
            o.extend_from_slice(&s.get_stream_param(1).to_le_bytes());
            out.push(case(format!("chacha-guts/drounds{}/nonce{}/case{}", drounds, nlen, i), &inp, &o));
        }
    }
    out
}

/// c2-chacha through the RustCrypto traits (only when `rustcrypto_api` is on)
#[cfg(all(not(feature = "c20_no_chacha"), not(feature = "c20_no_chacha_api")))]
fn sec_chacha_api(seed: u64, extra: usize) -> Vec<Case> {
    use c2_chacha::{ChaCha12, ChaCha20, ChaCha8, Ietf, XChaCha12, XChaCha20, XChaCha8};
    use cipher::generic_array::GenericArray;
    use cipher::{NewCipher, StreamCipher, StreamCipherSeek};
    let mut rng = Rng::new(seed ^ 0xa91);
    let mut out = Vec::new();
    let sizes = [1usize, 63, 64, 65, 255, 256, 257, 320, 1024];
    let seeks: [u64; 9] = [0, 1, 63, 64, 65, 255, 256, 1000, (1u64 << 32) * 64 - 128];
    macro_rules! go {
        ($t:ident, $label:expr, $nl:expr, $i:expr, $ietf:expr) => {{
            let key = rng.bytes(32);
            let nonce = rng.bytes($nl);
            let n = sizes[$i % sizes.len()];
            let mut pos = seeks[($i / 2) % seeks.len()];
            if $ietf && pos > (1u64 << 37) {
                pos = (1u64 << 38) - 1024 - 64;
            }
            let mut c = $t::new(GenericArray::from_slice(&key), GenericArray::from_slice(&nonce));
            let mut buf = vec![0u8; n];
            c.apply_keystream(&mut buf);
            let mut o = buf.clone();
            c.seek(pos);
            let mut buf2 = vec![0u8; 200];
            c.apply_keystream(&mut buf2[..77]);
            c.apply_keystream(&mut buf2[77..]);
            o.extend_from_slice(&buf2);
            let p: u64 = c.current_pos();
            o.extend_from_slice(&p.to_le_bytes());
            let mut inp = key.clone();
            inp.extend_from_slice(&nonce);
            inp.extend_from_slice(&(n as u64).to_le_bytes());
            inp.extend_from_slice(&pos.to_le_bytes());
            out.push(case(format!("chacha-api/{}/case{}/n{}/seek{}", $label, $i, n, pos), &inp, &o));
        }};
    }
    for i in 0..(18 + extra) {
        go!(ChaCha20, "chacha20", 8, i, false);
        go!(ChaCha12, "chacha12", 8, i, false);
        go!(ChaCha8, "chacha8", 8, i, false);
        go!(Ietf, "ietf", 12, i, true);
        go!(XChaCha20, "xchacha20", 24, i, false);
        go!(XChaCha12, "xchacha12", 24, i, false);
        go!(XChaCha8, "xchacha8", 24, i, false);
    }
    out
}

/// ppv-lite86 used directly: a small generic kernel run through `dispatch!` (whose `std` test
/// is evaluated in THIS crate: feature `std` of the build) and `dispatch_light128!`.
#[cfg(not(feature = "c20_no_ppv"))]
mod ppv {
    use ppv_lite86::{dispatch, dispatch_light128};
    use ppv_lite86::{vec128_storage, AndNot, ArithOps, BitOps32, LaneWords4, Machine, MultiLane, RotateEachWord32, StoreBytes, Vec4};

    #[inline(always)]
    fn kernel<M: Machine>(m: M, a: [u32; 4], b: [u32; 4], out: &mut [u8; 64]) {
        let mut x: M::u32x4 = m.vec(a);
        let mut y: M::u32x4 = m.vec(b);
        for _ in 0..3 {
            x += y;
            y = (y ^ x).rotate_each_word_right16();
            x += y;
            y = (y ^ x).rotate_each_word_right20();
            x = x.shuffle_lane_words3012();
            x += y;
            y = (y ^ x).rotate_each_word_right24();
            x += y;
            y = (y ^ x).rotate_each_word_right25();
            y = y.shuffle_lane_words2301();
            x = x.shuffle_lane_words1230();
            x = x ^ !y;
            y = y.insert(x.extract(2) | 1, 1);
        }
        let xs: vec128_storage = x.into();
        let lanes: [u32; 4] = xs.into();
        let z: M::u32x4 = m.unpack(vec128_storage::from([lanes[3], lanes[2], lanes[1], lanes[0]]));
        x.write_le(&mut out[0..16]);
        y.write_le(&mut out[16..32]);
        z.write_be(&mut out[32..48]);
        let l = (x & y | z.andnot(x)).to_lanes();
        let w: M::u32x4 = M::u32x4::from_lanes([l[1], l[0], l[3], l[2]]);
        w.write_le(&mut out[48..64]);
    }

    dispatch!(m, Mach, {
        [pub] fn run_full(a: [u32; 4], b: [u32; 4], out: &mut [u8; 64]) {
            kernel(m, a, b, out)
        }
    });
    dispatch_light128!(m, Mach, {
        [pub] fn run_light(a: [u32; 4], b: [u32; 4], out: &mut [u8; 64]) {
            kernel(m, a, b, out)
        }
    });
}

#[cfg(not(feature = "c20_no_ppv"))]
fn sec_ppv(seed: u64, extra: usize) -> Vec<Case> {
    let mut rng = Rng::new(seed ^ 0x9b7);
    let mut out = Vec::new();
    for i in 0..(40 + extra) {
        let mut a = [0u32; 4];
        let mut b = [0u32; 4];
        for k in 0..4 {
            a[k] = rng.word64() as u32;
            b[k] = if i % 5 == 0 { 0xffff_ffff } else { rng.word64() as u32 };
        }
        let mut inp = Vec::new();
        for k in 0..4 {
            inp.extend_from_slice(&a[k].to_le_bytes());
        }
        for k in 0..4 {
            inp.extend_from_slice(&b[k].to_le_bytes());
        }
        let mut o1 = [0u8; 64];
        let mut o2 = [0u8; 64];
        ppv::run_full(a, b, &mut o1);
        ppv::run_light(a, b, &mut o2);
        let mut o = o1.to_vec();
        o.extend_from_slice(&o2);
        out.push(case(format!("ppv/kernel/case{}", i), &inp, &o));
    }
    out
}

fn main() {
    let argv: Vec<String> = std::env::args().collect();
    if argv.len() < 2 || argv[1] != "battery" {
        eprintln!("usage: h_features battery --seed N --extra K --out FILE");
        std::process::exit(2);
    }
    let args = Args::parse(&argv[2..]);
    let seed = args.u64("seed", 1);
    let extra = args.u64("extra", 0) as usize;
    let outp = args.str("out", "");
    let mut sections: Vec<(&str, Vec<Case>)> = Vec::new();
    #[cfg(not(feature = "c20_no_blake"))]
    sections.push(("blake", sec_blake(seed, extra)));
    #[cfg(not(feature = "c20_no_groestl"))]
    sections.push(("groestl", sec_groestl(seed, extra)));
    #[cfg(not(feature = "c20_no_jh"))]
    sections.push(("jh", sec_jh(seed, extra)));
    #[cfg(not(feature = "c20_no_skein"))]
    sections.push(("skein", sec_skein(seed, extra)));
    #[cfg(not(feature = "c20_no_threefish"))]
    sections.push(("threefish", sec_threefish(seed, extra)));
    #[cfg(not(feature = "c20_no_chacha"))]
    sections.push(("chacha-guts", sec_chacha_guts(seed, extra)));
    #[cfg(all(not(feature = "c20_no_chacha"), not(feature = "c20_no_chacha_api")))]
    sections.push(("chacha-api", sec_chacha_api(seed, extra)));
    #[cfg(not(feature = "c20_no_ppv"))]
    sections.push(("ppv", sec_ppv(seed, extra)));

    let mut body = String::from("{");
    let mut total = 0usize;
    let mut counts = String::from("{");
    for (si, (name, cases)) in sections.iter().enumerate() {
        if si > 0 {
            body.push(',');
            counts.push(',');
        }
        body.push_str(&format!("{}:[", jstr(name)));
        for (i, c) in cases.iter().enumerate() {
            if i > 0 {
                body.push(',');
            }
            body.push_str(&format!("{{\"id\":{},\"in\":{},\"out\":{}}}", jstr(&c.id), jstr(&c.input), jstr(&c.out)));
        }
        body.push(']');
        counts.push_str(&format!("{}:{}", jstr(name), cases.len()));
        total += cases.len();
    }
    body.push('}');
    counts.push('}');
    if !outp.is_empty() {
        std::fs::write(&outp, &body).expect("write results");
    }
    println!("{{\"evaluations\":{},\"sections\":{}}}", total, counts);
}
