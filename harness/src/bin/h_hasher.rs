#![allow(dead_code, deprecated)]
//! C08: operation histories {update, clone, reset, finalize_reset, finalize} on tables of
//! instances of each of the 15 hash types (Skein with several output sizes).
//!
//! Direct evaluation of the property on the implementation (`direct_failures`):
//!   * every digest returned by a history equals the implementation's ONE-SHOT digest
//!     (`Digest::digest`) of the bytes the instance absorbed since its creation / last
//!     reset, where a clone inherits the bytes of its origin (chunking, clone independence,
//!     reset like new, all at once);
//!   * after `reset` / `finalize_reset` the private state read through the verification
//!     hook equals that of `Default::default()`;
//!   * a clone's state equals the origin's state at the moment of cloning, and an
//!     operation on one instance leaves the observable state of every other instance alone.
//! Cases for Coq: the history, what the hook reports after every operation (buffer
//! position, bytes compressed according to the implementation's own counter, buffered
//! bytes), the digests returned, and a table message -> one-shot digest.  The Coq side
//! runs the buffering model on the history and checks all of it (Run/Hasher.v).
#[path = "../util.rs"]
mod util;
use util::*;

use blake_hash::{Blake224, Blake256, Blake384, Blake512};
use digest::generic_array::typenum::*;
use digest::generic_array::ArrayLength;
use digest::Digest;
use groestl_aesni::{Groestl224, Groestl256, Groestl384, Groestl512};
use jh_x86_64::{Jh224, Jh256, Jh384, Jh512};
use skein_hash::{Skein1024, Skein256, Skein512};
use std::collections::{BTreeMap, HashSet};
use std::fmt::Write as _;
use std::panic::{catch_unwind, AssertUnwindSafe};

/// (buffer position, bytes compressed so far by the implementation's own counter,
///  buffered bytes, remaining private state = chaining value and raw counters)
struct Obs {
    pos: usize,
    compressed: u128,
    content: Vec<u8>,
    state: Vec<u8>,
}

trait H: Digest + digest::FixedOutput + digest::Reset + digest::Update + digest::DynDigest + Clone + Default + 'static {
    const BS: usize;
    const LAZY: bool;
    /// counter values, in compressed blocks, at which a counter word of this family carries
    const BOUNDARIES: &'static [u128];
    fn obs(&self) -> Obs;
    /// hook H2: keep the chaining value, empty the buffer, set the counters as after `blocks` blocks
    fn enter(&mut self, blocks: u128);
}

macro_rules! impl_blake {
    ($t:ident, $bs:expr, $w:expr) => {
        impl H for $t {
            const BS: usize = $bs;
            const LAZY: bool = false;
            fn obs(&self) -> Obs {
                let (h, t, content, pos) = self.verif_get_state();
                let bits = ((t.1 as u128) << $w) | t.0 as u128;
                let mut state = Vec::new();
                for r in h.iter() {
                    for w in r.iter() {
                        state.extend_from_slice(&w.to_le_bytes());
                    }
                }
                state.extend_from_slice(&t.0.to_le_bytes());
                state.extend_from_slice(&t.1.to_le_bytes());
                Obs { pos, compressed: bits / 8, content: content[..pos].to_vec(), state }
            }
            // 2^32 resp. 2^64 bits: the carry from t.0 into t.1 (high word 0 -> 1), and the second
            // carry (high word 1 -> 2: an odd high word before the carry)
            const BOUNDARIES: &'static [u128] = &[(1u128 << $w) / ($bs * 8), 2 * ((1u128 << $w) / ($bs * 8))];
            fn enter(&mut self, blocks: u128) {
                let (h, _, _, _) = self.verif_get_state();
                let bits = blocks * $bs * 8;
                let mask = (1u128 << $w) - 1;
                self.verif_set_state(h, ((bits & mask) as _, ((bits >> $w) & mask) as _), &[]);
            }
        }
    };
}
impl_blake!(Blake224, 64, 32);
impl_blake!(Blake256, 64, 32);
impl_blake!(Blake384, 128, 64);
impl_blake!(Blake512, 128, 64);

macro_rules! impl_groestl {
    ($t:ident, $bs:expr) => {
        impl H for $t {
            const BS: usize = $bs;
            const LAZY: bool = false;
            fn obs(&self) -> Obs {
                let (cv, bc, content, pos) = self.verif_get_state();
                let mut state = cv.to_vec();
                state.extend_from_slice(&bc.to_le_bytes());
                Obs { pos, compressed: bc as u128 * $bs, content: content[..pos].to_vec(), state }
            }
            // the block count needs a second, third, ... eighth byte
            const BOUNDARIES: &'static [u128] = &[1 << 8, 1 << 16, 1 << 32, 1 << 24, 1 << 40, 1 << 48, 1 << 56];
            fn enter(&mut self, blocks: u128) {
                let (cv, _, _, _) = self.verif_get_state();
                self.verif_set_state(cv, blocks as u64, &[]);
            }
        }
    };
}
impl_groestl!(Groestl224, 64);
impl_groestl!(Groestl256, 64);
impl_groestl!(Groestl384, 128);
impl_groestl!(Groestl512, 128);

macro_rules! impl_jh {
    ($t:ident) => {
        impl H for $t {
            const BS: usize = 64;
            const LAZY: bool = false;
            fn obs(&self) -> Obs {
                let (cv, datalen, content, pos) = self.verif_get_state();
                let mut state = cv.to_vec();
                state.extend_from_slice(&(datalen as u64).to_le_bytes());
                // datalen counts every byte given to update, including the buffered ones
                Obs {
                    pos,
                    compressed: (datalen as u128).wrapping_sub(pos as u128),
                    content: content[..pos].to_vec(),
                    state,
                }
            }
            // 2^32 bits, 2^32 bytes, 2^40 bytes
            const BOUNDARIES: &'static [u128] = &[1 << 23, 1 << 26, 1 << 34];
            fn enter(&mut self, blocks: u128) {
                let (cv, _, _, _) = self.verif_get_state();
                self.verif_set_state(cv, (blocks * 64) as usize, &[]);
            }
        }
    };
}
impl_jh!(Jh224);
impl_jh!(Jh256);
impl_jh!(Jh384);
impl_jh!(Jh512);

macro_rules! impl_skein {
    ($t:ident, $bs:expr) => {
        impl<N> H for $t<N>
        where
            N: Unsigned + ArrayLength<u8> + NonZero + Default,
        {
            const BS: usize = $bs;
            const LAZY: bool = true;
            fn obs(&self) -> Obs {
                let (x, t, content, pos) = self.verif_get_state();
                let mut state = x.to_vec();
                state.extend_from_slice(&t.0.to_le_bytes());
                state.extend_from_slice(&t.1.to_le_bytes());
                Obs { pos, compressed: t.0 as u128, content: content[..pos].to_vec(), state }
            }
            // 2^32, 2^33, 2^40 bytes in the tweak position
            const BOUNDARIES: &'static [u128] = &[(1u128 << 32) / $bs, (1u128 << 33) / $bs, (1u128 << 40) / $bs];
            fn enter(&mut self, blocks: u128) {
                let (x, _, _, _) = self.verif_get_state();
                // message type, FIRST cleared (blocks > 0)
                self.verif_set_state(&x, ((blocks * $bs) as u64, 48u64 << 56), &[]);
            }
        }
    };
}
impl_skein!(Skein256, 32);
impl_skein!(Skein512, 64);
impl_skein!(Skein1024, 128);

#[derive(Clone, PartialEq, Eq, Hash, Debug)]
enum Op {
    Update(usize, Vec<u8>),
    Clone(usize),
    Reset(usize),
    FinalizeReset(usize),
    Finalize(usize),
}

struct History {
    stream: &'static str,
    ops: Vec<Op>,
}

struct Ran {
    obs: Vec<(usize, u128, Vec<u8>)>,
    /// (slot, digest returned, one-shot digest of the absorbed bytes, indices of the update
    /// operations whose pieces, concatenated, are the absorbed bytes)
    outs: Vec<(usize, Vec<u8>, Vec<u8>, Vec<usize>)>,
    maxmsg: usize,
    failures: Vec<String>,
    /// private state differed (reset vs new, clone vs origin, untouched slot) without any
    /// difference of the digests of the probe continuations
    state_only: u64,
    panicked: bool,
}

fn same_obs(a: &Obs, b: &Obs) -> bool {
    a.pos == b.pos && a.compressed == b.compressed && a.content == b.content && a.state == b.state
}

/// A difference of private state is not yet a difference of behaviour: continue both
/// instances with the same probe messages and compare the digests. Returns the first
/// probe length on which they differ.
fn differs_behaviourally<T: H>(a: &T, b: &T) -> Option<usize> {
    let bs = T::BS;
    for &n in &[0usize, 1, bs - 1, bs, bs + 1, 2 * bs + 3] {
        let probe: Vec<u8> = (0..n).map(|i| (i as u8).wrapping_mul(13).wrapping_add(5)).collect();
        let da = Digest::finalize(Digest::chain(a.clone(), &probe)).to_vec();
        let db = Digest::finalize(Digest::chain(b.clone(), &probe)).to_vec();
        if da != db {
            return Some(n);
        }
    }
    None
}

/// Runs one history on the implementation and evaluates the property on it.
fn run_history<T: H>(name: &str, ops: &[Op]) -> Ran {
    let mut ran = Ran { obs: vec![], outs: vec![], maxmsg: 0, failures: vec![], state_only: 0, panicked: false };
    let r = catch_unwind(AssertUnwindSafe(|| {
        let mut obs = vec![];
        let mut outs: Vec<(usize, Vec<u8>, Vec<u8>, Vec<usize>)> = vec![];
        let mut maxmsg = 0usize;
        let mut failures: Vec<String> = vec![];
        let mut tbl: Vec<Option<T>> = vec![Some(T::default())];
        // the bytes absorbed by each slot since creation / last reset
        let mut absorbed: Vec<Option<Vec<u8>>> = vec![Some(vec![])];
        // ... and the indices of the update operations they came from
        let mut pieces: Vec<Vec<usize>> = vec![vec![]];
        let fresh = T::default().obs();
        let mut state_only = 0u64;
        let mut check_digest = |k: usize, opi: usize, d: &[u8], msg: &[u8], failures: &mut Vec<String>| -> Vec<u8> {
            let one = T::digest(msg).to_vec();
            maxmsg = maxmsg.max(msg.len());
            if one != d {
                failures.push(format!(
                    "{}: op {} slot {}: digest {} differs from one-shot digest {} of the {} absorbed bytes",
                    name, opi, k, hex(d), hex(&one), msg.len()
                ));
            }
            one
        };
        for (opi, op) in ops.iter().enumerate() {
            // observable state of all other slots must not change
            let before: Vec<Option<Obs>> = tbl.iter().map(|s| s.as_ref().map(|x| x.obs())).collect();
            let before_inst: Vec<Option<T>> = tbl.clone();
            let touched: usize;
            match op {
                Op::Update(k, data) => {
                    touched = *k;
                    if let Some(Some(x)) = tbl.get_mut(*k) {
                        // the same operation through each of the traits that offer it
                        match (opi + *k) % 3 {
                            0 => Digest::update(x, data),
                            1 => digest::Update::update(x, data),
                            _ => digest::DynDigest::update(x as &mut dyn digest::DynDigest, data),
                        }
                        absorbed[*k].as_mut().unwrap().extend_from_slice(data);
                        pieces[*k].push(opi);
                    }
                }
                Op::Clone(k) => {
                    touched = tbl.len();
                    if let Some(Some(x)) = tbl.get(*k) {
                        // Clone::clone, or Clone::clone_from into an object that has a past of its own
                        let c = if (opi + *k) % 3 == 1 {
                            let mut d = T::default();
                            Digest::update(&mut d, &[0xa7u8; 300][..]);
                            d.clone_from(x);
                            d
                        } else {
                            x.clone()
                        };
                        if !same_obs(&c.obs(), &x.obs()) {
                            match differs_behaviourally(&c, x) {
                                Some(n) => failures.push(format!("{}: op {}: clone of slot {} and its origin, both continued with the same {} bytes, return different digests", name, opi, k, n)),
                                None => state_only += 1,
                            }
                        }
                        tbl.push(Some(c));
                        let a = absorbed[*k].clone();
                        absorbed.push(a);
                        let pc = pieces[*k].clone();
                        pieces.push(pc);
                    }
                }
                Op::Reset(k) => {
                    touched = *k;
                    if let Some(Some(x)) = tbl.get_mut(*k) {
                        match (opi + *k) % 3 {
                            0 => Digest::reset(x),
                            1 => digest::Reset::reset(x),
                            _ => digest::DynDigest::reset(x as &mut dyn digest::DynDigest),
                        }
                        absorbed[*k] = Some(vec![]);
                        pieces[*k].clear();
                        if !same_obs(&x.obs(), &fresh) {
                            match differs_behaviourally(x, &T::default()) {
                                Some(n) => failures.push(format!("{}: op {}: slot {} after reset and a new instance, both continued with the same {} bytes, return different digests", name, opi, k, n)),
                                None => state_only += 1,
                            }
                        }
                    }
                }
                Op::FinalizeReset(k) => {
                    touched = *k;
                    if let Some(Some(x)) = tbl.get_mut(*k) {
                        // Digest::finalize_reset finalises a clone; the FixedOutput / DynDigest forms
                        // finalise in place and then reset
                        let d = match (opi + *k) % 4 {
                            0 => Digest::finalize_reset(x).to_vec(),
                            1 => digest::FixedOutput::finalize_fixed_reset(x).to_vec(),
                            2 => {
                                let mut out = digest::generic_array::GenericArray::<u8, <T as digest::FixedOutput>::OutputSize>::default();
                                out.iter_mut().for_each(|b| *b = 0xaa);
                                digest::FixedOutput::finalize_into_reset(x, &mut out);
                                out.to_vec()
                            }
                            _ => digest::DynDigest::finalize_reset(x as &mut dyn digest::DynDigest).to_vec(),
                        };
                        let msg = absorbed[*k].replace(vec![]).unwrap();
                        let one = check_digest(*k, opi, &d, &msg, &mut failures);
                        outs.push((*k, d, one, std::mem::take(&mut pieces[*k])));
                        if !same_obs(&x.obs(), &fresh) {
                            match differs_behaviourally(x, &T::default()) {
                                Some(n) => failures.push(format!("{}: op {}: slot {} after finalize_reset and a new instance, both continued with the same {} bytes, return different digests", name, opi, k, n)),
                                None => state_only += 1,
                            }
                        }
                    }
                }
                Op::Finalize(k) => {
                    touched = *k;
                    if *k < tbl.len() {
                        if let Some(x) = tbl[*k].take() {
                            let d = match (opi + *k) % 3 {
                                0 => Digest::finalize(x).to_vec(),
                                1 => digest::FixedOutput::finalize_fixed(x).to_vec(),
                                _ => {
                                    let mut out = digest::generic_array::GenericArray::<u8, <T as digest::FixedOutput>::OutputSize>::default();
                                    out.iter_mut().for_each(|b| *b = 0x55);
                                    digest::FixedOutput::finalize_into(x, &mut out);
                                    out.to_vec()
                                }
                            };
                            let msg = absorbed[*k].take().unwrap();
                            let one = check_digest(*k, opi, &d, &msg, &mut failures);
                            outs.push((*k, d, one, std::mem::take(&mut pieces[*k])));
                        }
                    }
                }
            }
            for (j, b) in before.iter().enumerate() {
                if j == touched {
                    continue;
                }
                let now = tbl[j].as_ref().map(|x| x.obs());
                let same = match (b, &now) {
                    (Some(a), Some(c)) => same_obs(a, c),
                    (None, None) => true,
                    _ => false,
                };
                if !same {
                    let behav = match (&before_inst[j], &tbl[j]) {
                        (Some(a), Some(c)) => differs_behaviourally(a, c),
                        _ => Some(0),
                    };
                    match behav {
                        Some(n) => failures.push(format!("{}: op {} on slot {} changed slot {}: continued with {} bytes it returns a different digest than its copy taken before the operation", name, opi, touched, j, n)),
                        None => state_only += 1,
                    }
                }
            }
            match tbl.get(touched) {
                Some(Some(x)) => {
                    let o = x.obs();
                    obs.push((o.pos, o.compressed, o.content));
                }
                _ => obs.push((0, 0, vec![])),
            }
        }
        drop(check_digest);
        (obs, outs, maxmsg, failures, state_only)
    }));
    match r {
        Ok((obs, outs, maxmsg, failures, state_only)) => {
            ran.state_only = state_only;
            ran.obs = obs;
            ran.outs = outs;
            ran.maxmsg = maxmsg;
            ran.failures = failures;
        }
        Err(_) => {
            ran.panicked = true;
            ran.failures.push(format!("{}: history panicked", name));
        }
    }
    ran
}

// ---------------------------------------------------------------------------------------
// generators
// ---------------------------------------------------------------------------------------

/// piece contents: mostly arithmetic progressions `a + j*b mod 256` with random a, b (every
/// misplaced, lost or repeated byte changes the string; rendered for Coq as `HG k len a b`, which
/// keeps the case files small), the rest structured / random literals
fn content(rng: &mut Rng, n: usize) -> Vec<u8> {
    match if n >= LARGE_PIECE { 7 } else { rng.below(8) } {
        0 => rng.bytes(n),
        1 => {
            let mut v = vec![0u8; n];
            rng.fill(&mut v);
            v
        }
        _ => {
            let a = rng.below(256) as u8;
            let b = (rng.below(256) as u8) | 1;
            (0..n).map(|j| a.wrapping_add((j as u8).wrapping_mul(b))).collect()
        }
    }
}

/// `Some((a, b))` if `d[j] = a + j*b mod 256` for all j
fn as_progression(d: &[u8]) -> Option<(u8, u8)> {
    if d.len() < 4 {
        return None;
    }
    let (a, b) = (d[0], d[1].wrapping_sub(d[0]));
    if d.iter().enumerate().all(|(j, x)| *x == a.wrapping_add((j as u8).wrapping_mul(b))) {
        Some((a, b))
    } else {
        None
    }
}

/// number of bytes in the buffer after `len` absorbed bytes
fn pos_after(len: usize, bs: usize, lazy: bool) -> usize {
    if lazy {
        if len == 0 {
            0
        } else {
            (len - 1) % bs + 1
        }
    } else {
        len % bs
    }
}

const CLASSES: [&str; 16] = [
    "0", "1", "bs-1", "bs", "bs+1", "2bs", "3bs+7", "fill", "fill-1", "fill+1", "fill+bs", "fill+2bs", "small", "multi",
    "8..40 blocks", "~300 blocks",
];
/// pieces of at least this many bytes are always arithmetic progressions (`HG` in the Coq case: a few bytes
/// instead of a literal of tens of kilobytes)
const LARGE_PIECE: usize = 6 * 128;

/// a piece length aimed at the buffer boundaries; `len` = bytes absorbed so far by the slot
fn piece_len(rng: &mut Rng, bs: usize, lazy: bool, len: usize, hist: &mut BTreeMap<&'static str, u64>) -> usize {
    let pos = pos_after(len, bs, lazy);
    let fill = bs - pos; // completes the buffer exactly (lazy: leaves one full block pending)
    // the two large classes (runs of many whole blocks taken from one update slice) are rarer: 5 % and 1.5 %
    let w = rng.below(1000);
    let c = if w < 15 { 15 } else if w < 65 { 14 } else { rng.below(14) as usize };
    *hist.entry(CLASSES[c]).or_insert(0) += 1;
    match c {
        0 => 0,
        1 => 1,
        2 => bs - 1,
        3 => bs,
        4 => bs + 1,
        5 => 2 * bs,
        6 => 3 * bs + 7,
        7 => fill,
        8 => fill.saturating_sub(1),
        9 => fill + 1,
        10 => fill + bs,
        11 => fill + 2 * bs,
        12 => rng.below(bs as u64 + 2) as usize,
        13 => rng.range(bs as u64, 5 * bs as u64) as usize,
        // 8..40 whole blocks and a remainder aimed at the boundaries (from the current fill level)
        14 => fill + rng.range(8, 40) as usize * bs + [0usize, 0, 1, bs - 1][rng.below(4) as usize] + rng.below(2) as usize * rng.below(bs as u64) as usize,
        // about 300 blocks: more than 255 blocks in one call
        _ => rng.range(296, 304) as usize * bs + [0usize, fill, fill + 1, bs - 1][rng.below(4) as usize],
    }
}

fn directed(rng: &mut Rng, bs: usize, lazy: bool) -> Vec<History> {
    let mut v = vec![];
    let u = |rng: &mut Rng, k: usize, n: usize| Op::Update(k, content(rng, n));
    // nothing absorbed at all / only empty pieces
    v.push(History { stream: "empty", ops: vec![Op::Finalize(0)] });
    v.push(History {
        stream: "empty",
        ops: vec![Op::Update(0, vec![]), Op::FinalizeReset(0), Op::FinalizeReset(0), Op::Update(0, vec![]), Op::Update(0, vec![]), Op::Finalize(0)],
    });
    // partitions of one message: byte by byte, around every boundary, many blocks at once
    for &(a, b, c) in &[
        (1usize, bs - 1, 1usize),
        (bs - 1, 1, 1),
        (bs - 1, 2, bs),
        (bs, 0, bs),
        (bs, 1, 0),
        (bs + 1, bs - 1, bs),
        (0, 3 * bs + 7, bs - 7),
        (3 * bs + 7, 0, 0),
        (bs / 2, bs / 2, bs),
        (bs / 2, bs / 2 + bs, 0),
        (bs / 2, bs / 2 + 2 * bs, 1),
        (1, 2 * bs, 0),
        (0, 2 * bs, 0),
        (2 * bs, 2 * bs, 0),
        (bs, bs, bs),
        (7, 4 * bs - 7, 2 * bs),
        (bs, 0, 0),
        (bs - 1, 1, 0),
        (3 * bs, 0, 0),
        (bs + 1, 2 * bs - 1, 0),
        // many whole blocks taken directly from one update slice: 8, 17, 256 and 300 blocks
        (0, 8 * bs, 1),
        (1, 17 * bs - 1, bs),
        (bs / 2, 17 * bs, bs / 2),
        (0, 256 * bs, 0),
        (bs - 1, 300 * bs + 2, 5),
    ] {
        v.push(History { stream: "partition", ops: vec![u(rng, 0, a), u(rng, 0, b), u(rng, 0, c), Op::Finalize(0)] });
    }
    let n = 2 * bs + 5;
    let mut ops: Vec<Op> = (0..n).map(|i| Op::Update(0, vec![i as u8])).collect();
    ops.push(Op::Finalize(0));
    v.push(History { stream: "partition-bytewise", ops });
    // clone then diverge, at several fill levels (incl. full pending block for lazy buffering)
    for &a in &[0usize, 1, bs / 2, bs - 1, bs, bs + 1, 2 * bs, 3 * bs + 7] {
        v.push(History {
            stream: "clone-diverge",
            ops: vec![
                u(rng, 0, a),
                Op::Clone(0),
                u(rng, 0, bs - 3),
                u(rng, 1, 5),
                Op::Clone(1),
                u(rng, 1, 2 * bs),
                u(rng, 0, 3),
                Op::FinalizeReset(1),
                Op::FinalizeReset(0),
                u(rng, 2, 1),
                Op::Finalize(2),
                u(rng, 0, 2),
                Op::Finalize(0),
                Op::Finalize(1),
            ],
        });
    }
    // finalize_reset then reuse; reset mid-buffer / after many blocks / with a full buffer
    for &a in &[1usize, bs / 2, bs - 1, bs, bs + 1, 2 * bs, 3 * bs + 7, 5 * bs] {
        v.push(History {
            stream: "reset-reuse",
            ops: vec![
                u(rng, 0, a),
                Op::Reset(0),
                u(rng, 0, bs + 9),
                Op::FinalizeReset(0),
                u(rng, 0, a),
                Op::FinalizeReset(0),
                u(rng, 0, 2 * bs),
                Op::Reset(0),
                Op::FinalizeReset(0),
                u(rng, 0, 3),
                Op::Finalize(0),
            ],
        });
    }
    let _ = lazy;
    v
}

fn random_history(rng: &mut Rng, bs: usize, lazy: bool, maxops: usize, hist: &mut BTreeMap<&'static str, u64>) -> History {
    let nops = rng.range(3, maxops as u64) as usize;
    let mut ops = vec![];
    // abstract view used only to aim the generator: absorbed length per live slot
    let mut lens: Vec<Option<usize>> = vec![Some(0)];
    for _ in 0..nops {
        let live: Vec<usize> = (0..lens.len()).filter(|&i| lens[i].is_some()).collect();
        if live.is_empty() {
            break;
        }
        let k = *rng.pick(&live);
        let c = rng.below(100);
        if c < 55 {
            let n = piece_len(rng, bs, lazy, lens[k].unwrap(), hist);
            ops.push(Op::Update(k, content(rng, n)));
            lens[k] = Some(lens[k].unwrap() + n);
        } else if c < 68 {
            if lens.len() < 6 {
                ops.push(Op::Clone(k));
                let l = lens[k];
                lens.push(l);
            }
        } else if c < 78 {
            ops.push(Op::Reset(k));
            lens[k] = Some(0);
        } else if c < 94 {
            ops.push(Op::FinalizeReset(k));
            lens[k] = Some(0);
        } else if live.len() > 1 {
            ops.push(Op::Finalize(k));
            lens[k] = None;
        }
    }
    for k in 0..lens.len() {
        if lens[k].is_some() {
            ops.push(Op::Finalize(k));
        }
    }
    History { stream: "random", ops }
}

// ---------------------------------------------------------------------------------------
// rendering
// ---------------------------------------------------------------------------------------

fn render_coq(bs: usize, lazy: bool, ops: &[Op], ran: &Ran) -> String {
    let mut s = String::new();
    let _ = write!(s, "HCase {} {} [", bs, if lazy { "true" } else { "false" });
    for (i, op) in ops.iter().enumerate() {
        if i > 0 {
            s.push_str("; ");
        }
        match op {
            Op::Update(k, d) => match as_progression(d) {
                Some((a, b)) => {
                    let _ = write!(s, "HG {} {} {} {}", k, d.len(), a, b);
                }
                None => {
                    let _ = write!(s, "HU {} {} {}", k, d.len(), nlit(d));
                }
            },
            Op::Clone(k) => {
                let _ = write!(s, "HCl {}", k);
            }
            Op::Reset(k) => {
                let _ = write!(s, "HR {}", k);
            }
            Op::FinalizeReset(k) => {
                let _ = write!(s, "HFR {}", k);
            }
            Op::Finalize(k) => {
                let _ = write!(s, "HF {}", k);
            }
        }
    }
    s.push_str("]\n [");
    for (i, (p, c, b)) in ran.obs.iter().enumerate() {
        if i > 0 {
            s.push_str("; ");
        }
        let _ = write!(s, "({}, {}, {})", p, nlit_u128(*c), nlit(b));
    }
    s.push_str("]\n [");
    for (i, (k, d, one, pcs)) in ran.outs.iter().enumerate() {
        if i > 0 {
            s.push_str("; ");
        }
        let idx: Vec<String> = pcs.iter().map(|x| x.to_string()).collect();
        let _ = write!(s, "HO {} {} {} [{}]", k, nlit(d), nlit(one), idx.join("; "));
    }
    s.push(']');
    s
}

fn render_json(name: &str, bs: usize, lazy: bool, h: &History, ran: &Ran) -> String {
    let mut s = String::new();
    let _ = write!(s, "{{\"type\":{},\"block_size\":{},\"lazy\":{},\"stream\":{},\"ops\":[", jstr(name), bs, lazy, jstr(h.stream));
    for (i, op) in h.ops.iter().enumerate() {
        if i > 0 {
            s.push(',');
        }
        match op {
            Op::Update(k, d) => {
                let _ = write!(s, "{{\"op\":\"update\",\"slot\":{},\"len\":{},\"data\":\"{}\"}}", k, d.len(), hex(d));
            }
            Op::Clone(k) => {
                let _ = write!(s, "{{\"op\":\"clone\",\"slot\":{}}}", k);
            }
            Op::Reset(k) => {
                let _ = write!(s, "{{\"op\":\"reset\",\"slot\":{}}}", k);
            }
            Op::FinalizeReset(k) => {
                let _ = write!(s, "{{\"op\":\"finalize_reset\",\"slot\":{}}}", k);
            }
            Op::Finalize(k) => {
                let _ = write!(s, "{{\"op\":\"finalize\",\"slot\":{}}}", k);
            }
        }
    }
    s.push_str("],\"impl_state_after_op\":[");
    for (i, (p, c, b)) in ran.obs.iter().enumerate() {
        if i > 0 {
            s.push(',');
        }
        let _ = write!(s, "{{\"pos\":{},\"compressed\":\"{}\",\"buffered\":\"{}\"}}", p, c, hex(b));
    }
    s.push_str("],\"impl_digests\":[");
    for (i, (k, d, one, pcs)) in ran.outs.iter().enumerate() {
        if i > 0 {
            s.push(',');
        }
        let idx: Vec<String> = pcs.iter().map(|x| x.to_string()).collect();
        let _ = write!(s, "{{\"slot\":{},\"digest\":\"{}\",\"one_shot_digest\":\"{}\",\"of_pieces_of_ops\":[{}]}}", k, hex(d), hex(one), idx.join(","));
    }
    let _ = write!(s, "],\"outcome\":\"{}\"}}", if ran.panicked { "panic" } else { "ok" });
    s
}

struct Acc {
    coq: Vec<String>,
    json: Vec<String>,
    direct: Vec<String>,
    seen: HashSet<(String, Vec<Op>)>,
    distinct_nontrivial: u64,
    per_type: BTreeMap<String, u64>,
    per_stream: BTreeMap<&'static str, u64>,
    opmix: BTreeMap<&'static str, u64>,
    pieces: BTreeMap<&'static str, u64>,
    digests: u64,
    state_only: u64,
    maxmsg: usize,
    samples: Vec<String>,
}

fn do_type<T: H>(name: &str, rng: &mut Rng, count: usize, maxops: usize, thin: usize, rot: usize, acc: &mut Acc) {
    let (bs, lazy) = (T::BS, T::LAZY);
    let mut hs = directed(rng, bs, lazy);
    // --thin N: every N-th directed history only, rotating with the seed and the type (small runs in a
    // second build profile)
    if thin > 1 {
        let mut k = 0usize;
        hs.retain(|_| {
            k += 1;
            (k + rot) % thin == 0
        });
    }
    let mut pieces = BTreeMap::new();
    while hs.len() < count {
        hs.push(random_history(rng, bs, lazy, maxops, &mut pieces));
    }
    for (k, v) in pieces {
        *acc.pieces.entry(k).or_insert(0) += v;
    }
    for h in hs.iter() {
        let ran = run_history::<T>(name, &h.ops);
        *acc.per_type.entry(name.to_string()).or_insert(0) += 1;
        *acc.per_stream.entry(h.stream).or_insert(0) += 1;
        let mut bytes = 0usize;
        for op in &h.ops {
            let key = match op {
                Op::Update(_, d) => {
                    bytes += d.len();
                    "update"
                }
                Op::Clone(_) => "clone",
                Op::Reset(_) => "reset",
                Op::FinalizeReset(_) => "finalize_reset",
                Op::Finalize(_) => "finalize",
            };
            *acc.opmix.entry(key).or_insert(0) += 1;
        }
        acc.digests += ran.outs.len() as u64;
        acc.state_only += ran.state_only;
        acc.maxmsg = acc.maxmsg.max(ran.maxmsg);
        // non-trivial: returns a digest, absorbs at least one byte, at least 3 operations
        let nontrivial = !ran.outs.is_empty() && bytes > 0 && h.ops.len() >= 3;
        if acc.seen.insert((name.to_string(), h.ops.clone())) && nontrivial {
            acc.distinct_nontrivial += 1;
        }
        let js = render_json(name, bs, lazy, h, &ran);
        for f in &ran.failures {
            if acc.direct.len() < 8 {
                acc.direct.push(format!("{{\"failure\":{},\"case\":{}}}", jstr(f), js));
            }
        }
        if acc.samples.len() < 3 && h.stream == "random" && h.ops.len() <= 8 {
            acc.samples.push(js.clone());
        }
        acc.coq.push(render_coq(bs, lazy, &h.ops, &ran));
        acc.json.push(js);
    }
}

/// Secondary traits on LARGE states (the random histories clone at counters below 2^16 only): for a counter
/// boundary `b` of the family, from the hook-entered counters b-1 (the carry happens while absorbing), b, and b+5
/// (above it: upper counter word / bytes non-zero): enter, absorb a little (3 bytes: buffered only; one block + 3),
/// CLONE; original and clone are finished with the same tail: both digests must equal each other and the run
/// without a clone; the clone's observable state must equal the original's; a `DynDigest::box_clone` likewise;
/// `finalize_reset` on a second clone must return the digest of the state as it stands and leave an object that
/// gives the digest of a new instance. Evaluated on the implementation only.
fn clone_on_large_state<T: H>(name: &str, rng: &mut Rng, b: u128, failures: &mut Vec<String>, runs: &mut u64) {
    let bs = T::BS;
    for &e in &[b - 1, b, b + 5] {
        for &little_len in &[3usize, bs + 3] {
            let little = content(rng, little_len);
            let tail = content(rng, 2 * bs + 7);
            *runs += 1;
            let prep = |h: &mut T| {
                h.enter(e);
                Digest::update(h, &little[..]);
            };
            let r = catch_unwind(AssertUnwindSafe(|| {
                // without a clone
                let mut h0 = T::default();
                prep(&mut h0);
                let here = Digest::finalize(h0.clone()).to_vec(); // (this clone is what is under test as well: compared below)
                let mut h00 = T::default();
                prep(&mut h00);
                let here_noclone = Digest::finalize(h00).to_vec();
                Digest::update(&mut h0, &tail[..]);
                let d0 = Digest::finalize(h0).to_vec();
                // with a clone
                let mut h = T::default();
                prep(&mut h);
                let mut c = h.clone();
                let same_state = same_obs(&h.obs(), &c.obs());
                let mut c2 = h.clone();
                let mut bx = digest::DynDigest::box_clone(&h);
                Digest::update(&mut h, &tail[..]);
                Digest::update(&mut c, &tail[..]);
                bx.update(&tail[..]);
                let d1 = Digest::finalize(h).to_vec();
                let d2 = Digest::finalize(c).to_vec();
                let d3 = bx.finalize().to_vec();
                // finalize_reset on a clone, then reuse
                let dr = Digest::finalize_reset(&mut c2).to_vec();
                Digest::update(&mut c2, &tail[..]);
                let reused = Digest::finalize(c2).to_vec();
                let fresh = T::digest(&tail[..]).to_vec();
                (here, here_noclone, d0, d1, d2, d3, same_state, dr, reused, fresh)
            }))
            .ok();
            let problem: Option<String> = match &r {
                None => Some("one of the calls panicked".to_string()),
                Some((here, here_noclone, d0, d1, d2, d3, same_state, dr, reused, fresh)) => {
                    if d1 != d0 {
                        Some("the ORIGINAL finished after a clone was taken differs from the run without a clone".to_string())
                    } else if d2 != d0 {
                        Some("the CLONE finished with the same tail returns another digest than the original / the run without a clone".to_string())
                    } else if d3 != d0 {
                        Some("a DynDigest::box_clone finished with the same tail returns another digest than the original".to_string())
                    } else if !same_state {
                        Some("the clone's state (chaining value, counters, buffer) read back through the hook differs from the original's".to_string())
                    } else if here != here_noclone {
                        Some("finalize of a clone returns another digest than finalize of the object itself".to_string())
                    } else if dr != here_noclone {
                        Some("finalize_reset on a clone returns another digest than finalize of the object itself".to_string())
                    } else if reused != fresh {
                        Some("a clone after finalize_reset, reused, does not return the digest a new instance returns".to_string())
                    } else {
                        None
                    }
                }
            };
            if let Some(pb) = problem {
                if failures.len() < 6 {
                    let hx = |v: Option<&Vec<u8>>| v.map(|x| jstr(&hex(x))).unwrap_or("null".to_string());
                    let t = r.as_ref();
                    failures.push(format!(
                        "{{\"failure\":{},\"case\":{{\"type\":{},\"entered_blocks\":\"{}\",\"boundary_blocks\":\"{}\",\"absorbed_before_the_clone\":{},\"tail\":{},\"digest_without_clone\":{},\"digest_original\":{},\"digest_clone\":{},\"digest_box_clone\":{},\"finalize_reset_on_clone\":{},\"finalize_of_the_object\":{},\"reused_after_finalize_reset\":{},\"new_instance\":{}}}}}",
                        jstr(&format!("{}: state entered at {} compressed blocks (counter boundary {}), {} bytes absorbed, then cloned: {}", name, e, b, little_len, pb)),
                        jstr(name), e, b, jstr(&hex(&little)), jstr(&hex(&tail)),
                        hx(t.map(|x| &x.2)), hx(t.map(|x| &x.3)), hx(t.map(|x| &x.4)), hx(t.map(|x| &x.5)), hx(t.map(|x| &x.7)), hx(t.map(|x| &x.1)), hx(t.map(|x| &x.8)), hx(t.map(|x| &x.9))
                    ));
                }
            }
        }
    }
}

/// C08 next to a counter carry: from a state entered `k` blocks before a boundary of the
/// family (hook H2; the chaining value is the initial one), absorb a tail that crosses the
/// boundary under several partitions into update calls; every partition must give the digest
/// of the single-call run. Evaluated on the implementation only.
fn boundary_partitions<T: H>(name: &str, rng: &mut Rng, failures: &mut Vec<String>, runs: &mut u64) {
    let bs = T::BS;
    for &b in T::BOUNDARIES {
        clone_on_large_state::<T>(name, rng, b, failures, runs);
        for k in 1..=2u128 {
            for &r in &[0usize, 1, bs - 1] {
                let tail = content(rng, (k as usize + 2) * bs + r);
                let run = |cuts: &[usize]| -> Option<Vec<u8>> {
                    catch_unwind(AssertUnwindSafe(|| {
                        let mut h = T::default();
                        h.enter(b - k);
                        let mut at = 0usize;
                        for &c in cuts {
                            let c = c.min(tail.len());
                            if c > at {
                                Digest::update(&mut h, &tail[at..c]);
                                at = c;
                            }
                        }
                        Digest::update(&mut h, &tail[at..]);
                        Digest::finalize(h).to_vec()
                    }))
                    .ok()
                };
                let whole = run(&[]);
                // the entered state and the tail are inside the format limits of every family: a panic of the
                // single-call run is a failure by itself (it would otherwise equal the panics of the partitions)
                *runs += 1;
                if whole.is_none() && failures.len() < 6 {
                    failures.push(format!(
                        "{{\"failure\":{},\"case\":{{\"type\":{},\"entered_blocks\":\"{}\",\"boundary_blocks\":\"{}\",\"tail_len\":{},\"cuts\":[],\"outcome\":\"panic\",\"tail\":{}}}}}",
                        jstr(&format!("{}: from a state {} block(s) before counter boundary {} (inside the format limits) a single update of {} bytes followed by finalize panics", name, k, b, tail.len())),
                        jstr(name), b - k, b, tail.len(), jstr(&hex(&tail))
                    ));
                }
                // an instance whose counters are beyond the boundary (high word / upper bytes non-zero)
                // is reset, or finalised in place and reset, and reused: it must behave like a new one
                if r == 1 {
                    for mode in 0..3u8 {
                        *runs += 1;
                        let reused = catch_unwind(AssertUnwindSafe(|| {
                            let mut h = T::default();
                            h.enter(b + 1 + k);
                            Digest::update(&mut h, &tail[..bs + 3]);
                            match mode {
                                0 => Digest::reset(&mut h),
                                1 => {
                                    let _ = digest::FixedOutput::finalize_fixed_reset(&mut h);
                                }
                                _ => {
                                    let _ = Digest::finalize_reset(&mut h);
                                }
                            }
                            Digest::update(&mut h, &tail[..]);
                            Digest::finalize(h).to_vec()
                        }))
                        .ok();
                        let fresh = catch_unwind(AssertUnwindSafe(|| T::digest(&tail[..]).to_vec())).ok();
                        if (reused != fresh || reused.is_none()) && failures.len() < 6 {
                            failures.push(format!(
                                "{{\"failure\":{},\"case\":{{\"type\":{},\"entered_blocks\":\"{}\",\"mode\":{},\"tail_len\":{},\"tail\":{}}}}}",
                                jstr(&format!("{}: an instance entered {} blocks into a message (beyond counter boundary {}), then {} and reused, does not return the digest a new instance returns", name, b + 1 + k, b, ["reset", "finalised in place (finalize_fixed_reset)", "finalize_reset"][mode as usize])),
                                jstr(name), b + 1 + k, mode, tail.len(), jstr(&hex(&tail))
                            ));
                        }
                    }
                }
                let kb = k as usize * bs;
                let per_block: Vec<usize> = (1..=(k as usize + 2)).map(|i| i * bs).collect();
                let r1 = 1 + rng.below(tail.len() as u64 - 1) as usize;
                let r2 = 1 + rng.below(tail.len() as u64 - 1) as usize;
                let parts: Vec<Vec<usize>> = vec![
                    per_block,
                    vec![kb],                 // exactly up to the boundary, then the rest
                    vec![kb - 1],             // one byte short of it
                    vec![kb - bs],            // the block that carries together with later blocks
                    vec![1, kb + bs],
                    vec![r1.min(r2), r1.max(r2)],
                ];
                for cuts in parts.iter() {
                    *runs += 1;
                    let d = run(cuts);
                    if d != whole {
                        if failures.len() < 6 {
                            failures.push(format!(
                                "{{\"failure\":{},\"case\":{{\"type\":{},\"entered_blocks\":\"{}\",\"boundary_blocks\":\"{}\",\"tail_len\":{},\"cuts\":{:?},\"tail\":{}}}}}",
                                jstr(&format!("{}: from a state {} block(s) before counter boundary {} the digest of a {}-byte tail depends on the partition into update calls (cuts {:?} vs one call){}", name, k, b, tail.len(), cuts, if d.is_none() || whole.is_none() { " (one of them panicked)" } else { "" })),
                                jstr(name), b - k, b, tail.len(), cuts, jstr(&hex(&tail))
                            ));
                        }
                    }
                }
            }
        }
    }
}

fn main() {
    std::panic::set_hook(Box::new(|_| {}));
    let argv: Vec<String> = std::env::args().collect();
    let sub = argv.get(1).cloned().unwrap_or_default();
    let args = Args::parse(&argv[2.min(argv.len())..]);
    if sub != "hist" {
        eprintln!("usage: h_hasher hist --seed S --shards K --out DIR --count N --maxops M [--only TYPE]");
        std::process::exit(2);
    }
    let seed = args.u64("seed", 1);
    let shards = args.u64("shards", 16) as usize;
    let out = args.str("out", ".");
    let count = args.u64("count", 60) as usize;
    let maxops = args.u64("maxops", 12) as usize;
    let only = args.str("only", "");
    let thin = args.u64("thin", 1) as usize;
    let mut rng = Rng::new(seed);
    let mut tix = 0usize;
    let mut size_checks = 0u64;
    let mut size_fail: Vec<String> = Vec::new();
    let mut acc = Acc {
        coq: vec![],
        json: vec![],
        direct: vec![],
        seen: HashSet::new(),
        distinct_nontrivial: 0,
        per_type: BTreeMap::new(),
        per_stream: BTreeMap::new(),
        opmix: BTreeMap::new(),
        pieces: BTreeMap::new(),
        digests: 0,
        state_only: 0,
        maxmsg: 0,
        samples: vec![],
    };
    let mut bfail: Vec<String> = Vec::new();
    let mut bruns = 0u64;
    macro_rules! go {
        ($name:expr, $t:ty, $out:expr) => {
            tix += 1;
            if only.is_empty() || only == $name {
                // the output size of the type (the type-level constant and the length actually returned)
                // against the size the type's name promises
                size_checks += 1;
                let declared = <$t as Digest>::output_size();
                let returned = catch_unwind(AssertUnwindSafe(|| <$t as Digest>::digest(b"abc").len())).ok();
                let dynsize = digest::DynDigest::output_size(&<$t>::default());
                if declared != $out || returned != Some($out) || dynsize != $out {
                    size_fail.push(format!(
                        "{{\"failure\":{},\"case\":{{\"type\":{},\"expected_output_bytes\":{},\"Digest::output_size\":{},\"DynDigest::output_size\":{},\"len of Digest::digest(b\\\"abc\\\")\":{}}}}}",
                        jstr(&format!("{}: output size is not the {} bytes of the variant", $name, $out)),
                        jstr($name), $out, declared, dynsize,
                        match returned { Some(n) => n.to_string(), None => "\"panic\"".to_string() }
                    ));
                }
                // every type gets its own stream derived from the one seed
                let mut r = Rng::new(rng.u64());
                do_type::<$t>($name, &mut r, count, maxops, thin, tix + seed as usize, &mut acc);
                boundary_partitions::<$t>($name, &mut r, &mut bfail, &mut bruns);
            } else {
                let _ = rng.u64();
            }
        };
    }
    go!("Blake224", Blake224, 28usize);
    go!("Blake256", Blake256, 32usize);
    go!("Blake384", Blake384, 48usize);
    go!("Blake512", Blake512, 64usize);
    go!("Groestl224", Groestl224, 28usize);
    go!("Groestl256", Groestl256, 32usize);
    go!("Groestl384", Groestl384, 48usize);
    go!("Groestl512", Groestl512, 64usize);
    go!("Jh224", Jh224, 28usize);
    go!("Jh256", Jh256, 32usize);
    go!("Jh384", Jh384, 48usize);
    go!("Jh512", Jh512, 64usize);
    go!("Skein256<U32>", Skein256<U32>, 32usize);
    go!("Skein256<U64>", Skein256<U64>, 64usize);
    go!("Skein256<U20>", Skein256<U20>, 20usize);
    go!("Skein512<U32>", Skein512<U32>, 32usize);
    go!("Skein512<U64>", Skein512<U64>, 64usize);
    go!("Skein512<U100>", Skein512<U100>, 100usize);
    go!("Skein1024<U32>", Skein1024<U32>, 32usize);
    go!("Skein1024<U64>", Skein1024<U64>, 64usize);
    go!("Skein1024<U128>", Skein1024<U128>, 128usize);

    write_shards(
        &out,
        shards,
        "From Coq Require Import NArith List.\nFrom CC Require Import Run.Runner Run.Hasher.",
        "hcase",
        "run_c08",
        &acc.coq,
    );
    std::fs::write(format!("{}/cases.json", out), format!("[{}]", acc.json.join(",\n"))).unwrap();

    acc.direct.extend(size_fail.into_iter());
    acc.direct.extend(bfail.into_iter());
    let kv = |m: &BTreeMap<&'static str, u64>| -> String {
        let v: Vec<String> = m.iter().map(|(k, v)| format!("{}:{}", jstr(k), v)).collect();
        format!("{{{}}}", v.join(","))
    };
    let pt: Vec<String> = acc.per_type.iter().map(|(k, v)| format!("{}:{}", jstr(k), v)).collect();
    println!(
        "{{\"evaluations\":{},\"distinct_nontrivial\":{},\"direct_failures\":[{}],\"samples\":[{}],\"histories_per_type\":{{{}}},\"streams\":{},\"op_mix\":{},\"random_piece_classes\":{},\"digests_checked_against_one_shot\":{},\"state_differences_without_digest_difference\":{},\"longest_message_bytes\":{},\"max_ops_random\":{},\"counter_boundary_partition_runs\":{},\"counter_boundaries_per_family\":{{\"blake\":2,\"groestl\":7,\"jh\":3,\"skein\":3}},\"output_sizes_checked\":{},\"profile\":{},\"directed_thinning\":{}}}",
        acc.coq.len(),
        acc.distinct_nontrivial,
        acc.direct.join(","),
        acc.samples.join(","),
        pt.join(","),
        kv(&acc.per_stream),
        kv(&acc.opmix),
        kv(&acc.pieces),
        acc.digests,
        acc.state_only,
        acc.maxmsg,
        maxops,
        bruns,
        size_checks,
        jstr(if cfg!(debug_assertions) { "debug" } else { "release" }),
        thin
    );
}
