#![allow(dead_code)]
#[path = "../util.rs"]
mod util;

use ppv_lite86::x86_64::{AVX2, SSE2, SSE41, SSSE3};
use ppv_lite86::*;
use std::panic::catch_unwind;

fn repro() {
    unsafe {
        // P1
        let m = AVX2::instance();
        let x: <AVX2 as Machine>::u32x4x2 = m.read_le(&[0u8; 32]);
        let mut out = [0u8; 32];
        (!x).write_le(&mut out);
        println!("P1 avx2 !0 (u32x4x2) = {}", util::hex(&out));
        // P2
        let m = SSE2::instance();
        let x: <SSE2 as Machine>::u64x2 = m.vec([0x0123456789abcdefu64, 0]);
        println!("P2 sse2 u64x2 rotr16 = {:016x?} expected {:016x}", x.rotate_each_word_right16().to_lanes(), 0x0123456789abcdefu64.rotate_right(16));
        // P3
        let st = vec128_storage::from([0x03020100u32, 0x07060504, 0x0b0a0908, 0x0f0e0d0c]);
        let x: <SSE2 as Machine>::u128x1 = m.unpack(st);
        let y: [u128; 1] = vec128_storage::from(x.rotate_each_word_right8()).into();
        let x0: [u128; 1] = st.into();
        println!("P3 sse2 u128x1 rotr8 = {:032x} expected {:032x}", y[0], x0[0].rotate_right(8));
        // P4
        let r = catch_unwind(|| {
            let m = SSE2::instance();
            let x: <SSE2 as Machine>::u128x1 = m.vec([5u128]);
            x.to_lanes()
        });
        println!("P4 sse2 u128x1 from_lanes/to_lanes: {:?}", r.is_ok());
        // P5
        let r = catch_unwind(|| {
            let m = SSE2::instance();
            let x: <SSE2 as Machine>::u128x1 = m.unpack(vec128_storage::default());
            let _ = x.bswap();
        });
        println!("P5 sse2 u128x1 bswap ok: {:?}", r.is_ok());
        // P14
        let m = SSSE3::instance();
        let x: <SSSE3 as Machine>::u128x1 = m.unpack(st);
        let y: [u128; 1] = vec128_storage::from(x.bswap()).into();
        println!("P14 ssse3 u128x1 bswap = {:032x} expected {:032x}", y[0], x0[0].swap_bytes());
        let _ = SSE41::instance();
    }
}

fn main() {
    let argv: Vec<String> = std::env::args().collect();
    if argv.len() < 2 {
        eprintln!("usage: h_ppv <subcommand> [--key value]...");
        std::process::exit(2);
    }
    match argv[1].as_str() {
        "repro" => repro(),
        other => {
            eprintln!("unknown subcommand {}", other);
            std::process::exit(2);
        }
    }
}
