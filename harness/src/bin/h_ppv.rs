#![allow(dead_code, non_camel_case_types, clippy::all)]
//! C12 / C13, x86-64 back ends of ppv-lite86: every trait method of every vector type of the
//! machines SSE2, SSSE3, SSE41, AVX, AVX2, called through functions generic over `M: Machine`
//! (plus where-bounds for the methods the concrete x86 types implement beyond the Machine bounds).
//!
//! A vector value is written as its byte image (words in lane order, each word little-endian).
//! C12 operands are built with `Machine::unpack` from storage and read back with `Into<storage>`;
//! C13 exercises `from_lanes/to_lanes`, storage views, insert/extract, byte I/O, transpose4, ....
//!
//! sub-commands: `c12`, `c13` (case kind pxcase), `intr` (raw intrinsics, case kind picase), `repro`.
#[path = "../util.rs"]
mod util;
use util::*;

use core::arch::x86_64::*;
use ppv_lite86::x86_64::{AVX, AVX2, SSE2, SSE41, SSSE3};
use ppv_lite86::*;
use std::collections::HashSet;
use std::panic::{catch_unwind, AssertUnwindSafe};

// ---------------------------------------------------------------------------
// cases
// ---------------------------------------------------------------------------
struct Case {
    m: u32,
    ty: u32,
    op: u32,
    k: u32,
    a: Vec<u8>,
    b: Vec<u8>,
    x: Vec<u8>,
    ok: bool,
    r: Vec<u8>,
}
/// 5: the `YesNI` instantiation `SseMachine<YesS3, YesS4, YesNI>`, which no alias and no dispatch
/// macro names; same model as 2 (6 = `Avx2Machine<YesNI>` is reserved, not instantiated).
/// AVX (3) is the same Rust type as SSE41 (2): `pub type AVX = SseMachine<YesS3, YesS4, NoNI>`.
const MACH: [&str; 7] = ["SSE2", "SSSE3", "SSE41", "AVX", "AVX2", "SSE41NI", "AVX2NI"];

impl Case {
    fn coq(&self) -> String {
        format!(
            "PX {} {} {} {} {} {} {} {} {} {} {} {} {}",
            self.m,
            self.ty,
            self.op,
            self.k,
            self.a.len(),
            ilit(&self.a),
            self.b.len(),
            ilit(&self.b),
            self.x.len(),
            ilit(&self.x),
            if self.ok { "true" } else { "false" },
            self.r.len(),
            ilit(&self.r)
        )
    }
    fn json(&self) -> String {
        format!(
            "{{\"machine\":{},\"type\":{},\"op\":{},\"k\":{},\"a\":{},\"b\":{},\"x\":{},\"outcome\":{},\"result\":{}}}",
            jstr(MACH[self.m as usize]),
            jstr(ty_name(self.ty)),
            jstr(&op_name(self.op, self.k)),
            self.k,
            jstr(&hex(&self.a)),
            jstr(&hex(&self.b)),
            jstr(&hex(&self.x)),
            jstr(if self.ok { "ok" } else { "panic" }),
            jstr(&hex(&self.r))
        )
    }
}

fn ty_name(t: u32) -> &'static str {
    [
        "u32x4", "u64x2", "u128x1", "u32x4x2", "u64x2x2", "u64x4", "u128x2", "u32x4x4", "u64x2x4", "u128x4",
        "vec128_storage", "vec256_storage", "vec512_storage",
    ][t as usize]
}
fn op_name(op: u32, k: u32) -> String {
    match op {
        1 => "add".into(),
        2 => "add_assign".into(),
        3 => "bitxor".into(),
        4 => "bitand".into(),
        5 => "bitor".into(),
        6 => "not".into(),
        7 => "andnot".into(),
        8 => "bitxor_assign".into(),
        9 => "bitand_assign".into(),
        10 => "bitor_assign".into(),
        20 => format!("rotate_each_word_right{}", k),
        21 => format!("swap{}", k),
        22 => "bswap".into(),
        23 => format!("shuffle{}", k),
        24 => format!("shuffle_lane_words{}", k),
        30 => if k == 1 { "VZip::vzip(lanes) then to_lanes".into() } else { "from_lanes then to_lanes".into() },
        31 => format!("extract({})", k),
        32 => format!("insert(x,{})", k),
        33 => format!("unpack(storage from {}-byte words), to_lanes", (k >> 8) & 255),
        34 => format!("from_lanes, into storage, read as {}-byte words{}", k & 255, if k >> 16 != 0 { " (whole array)" } else { "" }),
        35 => format!("storage from {}-byte words read as {}-byte words{}", (k >> 8) & 255, k & 255, match k >> 16 { 0 => "", 1 => " (whole array)", _ => " (through From<&vec128_storage> for &[u32; 4])" }),
        40 => "read_le".into(),
        41 => "read_be".into(),
        42 => format!("write_le(out len {})", k),
        43 => format!("write_be(out len {})", k),
        44 => "from_lanes, into storage".into(),
        45 => "unpack storage, to_lanes".into(),
        46 => format!("into {}", ty_name(k)),
        47 => "unsafe_from(lanes), into storage".into(),
        36 => "storage default".into(),
        37 => format!("storage eq (rhs built through the {}-byte word view)", k),
        50 => "transpose4".into(),
        51 => "to_scalars".into(),
        _ => format!("op{}", op),
    }
}

struct Cx {
    m: u32,
    cases: Vec<Case>,
    distinct: HashSet<(u32, u32, u32, u32, Vec<u8>, Vec<u8>, Vec<u8>)>,
    per_type: [usize; 13],
    per_mach: [usize; 7],
    panics: usize,
}
impl Cx {
    fn new() -> Self {
        Cx { m: 0, cases: Vec::new(), distinct: HashSet::new(), per_type: [0; 13], per_mach: [0; 7], panics: 0 }
    }
    fn push(&mut self, ty: u32, op: u32, k: u32, a: &[u8], b: &[u8], x: &[u8], r: Option<Vec<u8>>) {
        let nontrivial = a.iter().chain(b.iter()).chain(x.iter()).any(|&v| v != 0);
        if nontrivial {
            self.distinct.insert((self.m, ty, op, k, a.to_vec(), b.to_vec(), x.to_vec()));
        }
        self.per_type[ty as usize] += 1;
        self.per_mach[self.m as usize] += 1;
        if r.is_none() {
            self.panics += 1;
        }
        self.cases.push(Case { m: self.m, ty, op, k, a: a.to_vec(), b: b.to_vec(), x: x.to_vec(), ok: r.is_some(), r: r.unwrap_or_default() });
    }
}

/// byte string as a Coq list of primitive-integer literals, 7 bytes (little-endian) each
fn ilit(b: &[u8]) -> String {
    let mut s = String::from("[");
    for (i, c) in b.chunks(7).enumerate() {
        let mut t = [0u8; 8];
        t[..c.len()].copy_from_slice(c);
        if i > 0 {
            s.push(';');
        }
        s.push_str(&u64::from_le_bytes(t).to_string());
    }
    s.push_str("]%uint63");
    s
}

fn guard<F: FnOnce() -> Vec<u8>>(f: F) -> Option<Vec<u8>> {
    catch_unwind(AssertUnwindSafe(f)).ok()
}

// ---------------------------------------------------------------------------
// byte <-> word helpers
// ---------------------------------------------------------------------------
fn w32(b: &[u8]) -> u32 {
    u32::from_le_bytes([b[0], b[1], b[2], b[3]])
}
fn w64(b: &[u8]) -> u64 {
    let mut t = [0u8; 8];
    t.copy_from_slice(&b[..8]);
    u64::from_le_bytes(t)
}
fn w128(b: &[u8]) -> u128 {
    let mut t = [0u8; 16];
    t.copy_from_slice(&b[..16]);
    u128::from_le_bytes(t)
}
fn d4(b: &[u8]) -> [u32; 4] {
    [w32(&b[0..]), w32(&b[4..]), w32(&b[8..]), w32(&b[12..])]
}
fn q2(b: &[u8]) -> [u64; 2] {
    [w64(&b[0..]), w64(&b[8..])]
}
fn q4(b: &[u8]) -> [u64; 4] {
    [w64(&b[0..]), w64(&b[8..]), w64(&b[16..]), w64(&b[24..])]
}
fn bytes32(ws: &[u32]) -> Vec<u8> {
    ws.iter().flat_map(|w| w.to_le_bytes()).collect()
}
fn bytes64(ws: &[u64]) -> Vec<u8> {
    ws.iter().flat_map(|w| w.to_le_bytes()).collect()
}
fn bytes128(ws: &[u128]) -> Vec<u8> {
    ws.iter().flat_map(|w| w.to_le_bytes()).collect()
}

// storage from bytes (through the [u32;4] view, the only array constructor of vec128_storage on
// x86) and back (through the [u32;4] view)
fn s128(b: &[u8]) -> vec128_storage {
    d4(b).into()
}
fn s256(b: &[u8]) -> vec256_storage {
    vec256_storage::new128([s128(&b[0..16]), s128(&b[16..32])])
}
fn s512(b: &[u8]) -> vec512_storage {
    vec512_storage::new128([s128(&b[0..16]), s128(&b[16..32]), s128(&b[32..48]), s128(&b[48..64])])
}
fn r128(s: vec128_storage) -> Vec<u8> {
    let d: [u32; 4] = s.into();
    bytes32(&d)
}
fn r256(s: vec256_storage) -> Vec<u8> {
    let p = s.split128();
    [r128(p[0]), r128(p[1])].concat()
}
fn r512(s: vec512_storage) -> Vec<u8> {
    s.split128().iter().flat_map(|x| r128(*x)).collect()
}
/// read side of the storage views: `t` = word size in bytes, `whole` = whole-width array conversion
fn r128v(s: vec128_storage, t: u32) -> Vec<u8> {
    match t {
        4 => bytes32(&<[u32; 4]>::from(s)),
        8 => bytes64(&<[u64; 2]>::from(s)),
        _ => bytes128(&<[u128; 1]>::from(s)),
    }
}
fn r256v(s: vec256_storage, t: u32, whole: bool) -> Vec<u8> {
    if whole {
        match t {
            4 => bytes32(&<[u32; 8]>::from(s)),
            8 => bytes64(&<[u64; 4]>::from(s)),
            _ => bytes128(&<[u128; 2]>::from(s)),
        }
    } else {
        s.split128().iter().flat_map(|x| r128v(*x, t)).collect()
    }
}
fn r512v(s: vec512_storage, t: u32, whole: bool) -> Vec<u8> {
    if whole {
        match t {
            4 => bytes32(&<[u32; 16]>::from(s)),
            8 => bytes64(&<[u64; 8]>::from(s)),
            _ => bytes128(&<[u128; 4]>::from(s)),
        }
    } else {
        s.split128().iter().flat_map(|x| r128v(*x, t)).collect()
    }
}

// build with unpack / read with Into<storage>
macro_rules! mkrd_store {
    ($mk:ident, $rd:ident, $T:ident, $S:ty, $sf:ident, $rf:ident) => {
        fn $mk<M: Machine>(m: M, b: &[u8]) -> M::$T {
            m.unpack::<$S, M::$T>($sf(b))
        }
        fn $rd<M: Machine>(v: M::$T) -> Vec<u8> {
            let s: $S = v.into();
            $rf(s)
        }
    };
}
mkrd_store!(mk_u32x4, rd_u32x4, u32x4, vec128_storage, s128, r128);
mkrd_store!(mk_u64x2, rd_u64x2, u64x2, vec128_storage, s128, r128);
mkrd_store!(mk_u128x1, rd_u128x1, u128x1, vec128_storage, s128, r128);
mkrd_store!(mk_u32x4x2, rd_u32x4x2, u32x4x2, vec256_storage, s256, r256);
mkrd_store!(mk_u64x2x2, rd_u64x2x2, u64x2x2, vec256_storage, s256, r256);
mkrd_store!(mk_u64x4, rd_u64x4, u64x4, vec256_storage, s256, r256);
mkrd_store!(mk_u128x2, rd_u128x2, u128x2, vec256_storage, s256, r256);
mkrd_store!(mk_u32x4x4, rd_u32x4x4, u32x4x4, vec512_storage, s512, r512);
mkrd_store!(mk_u64x2x4, rd_u64x2x4, u64x2x4, vec512_storage, s512, r512);
mkrd_store!(mk_u128x4, rd_u128x4, u128x4, vec512_storage, s512, r512);

// build with from_lanes (Machine::vec) / read with to_lanes
fn lk_u32x4<M: Machine>(m: M, b: &[u8]) -> M::u32x4 {
    m.vec(d4(b))
}
fn lr_u32x4<M: Machine>(v: M::u32x4) -> Vec<u8> {
    let l: [u32; 4] = v.to_lanes();
    bytes32(&l)
}
fn lk_u64x2<M: Machine>(m: M, b: &[u8]) -> M::u64x2 {
    m.vec(q2(b))
}
fn lr_u64x2<M: Machine>(v: M::u64x2) -> Vec<u8> {
    let l: [u64; 2] = v.to_lanes();
    bytes64(&l)
}
fn lk_u128x1<M: Machine>(m: M, b: &[u8]) -> M::u128x1 {
    m.vec([w128(b)])
}
fn lr_u128x1<M: Machine>(v: M::u128x1) -> Vec<u8> {
    let l: [u128; 1] = v.to_lanes();
    bytes128(&l)
}
fn lk_u64x4<M: Machine>(m: M, b: &[u8]) -> M::u64x4 {
    m.vec(q4(b))
}
fn lr_u64x4<M: Machine>(v: M::u64x4) -> Vec<u8> {
    let l: [u64; 4] = v.to_lanes();
    bytes64(&l)
}
macro_rules! mkrd_lanes2 {
    ($mk:ident, $rd:ident, $T:ident, $E:ident, $mke:ident, $rde:ident) => {
        fn $mk<M: Machine>(m: M, b: &[u8]) -> M::$T {
            m.vec([$mke(m, &b[0..16]), $mke(m, &b[16..32])])
        }
        fn $rd<M: Machine>(v: M::$T) -> Vec<u8> {
            let l: [M::$E; 2] = v.to_lanes();
            [$rde::<M>(l[0]), $rde::<M>(l[1])].concat()
        }
    };
}
macro_rules! mkrd_lanes4 {
    ($mk:ident, $rd:ident, $T:ident, $E:ident, $mke:ident, $rde:ident) => {
        fn $mk<M: Machine>(m: M, b: &[u8]) -> M::$T {
            m.vec([$mke(m, &b[0..16]), $mke(m, &b[16..32]), $mke(m, &b[32..48]), $mke(m, &b[48..64])])
        }
        fn $rd<M: Machine>(v: M::$T) -> Vec<u8> {
            let l: [M::$E; 4] = v.to_lanes();
            l.iter().flat_map(|x| $rde::<M>(*x)).collect()
        }
    };
}
mkrd_lanes2!(lk_u32x4x2, lr_u32x4x2, u32x4x2, u32x4, lk_u32x4, lr_u32x4);
mkrd_lanes2!(lk_u64x2x2, lr_u64x2x2, u64x2x2, u64x2, lk_u64x2, lr_u64x2);
mkrd_lanes2!(lk_u128x2, lr_u128x2, u128x2, u128x1, lk_u128x1, lr_u128x1);
mkrd_lanes4!(lk_u32x4x4, lr_u32x4x4, u32x4x4, u32x4, lk_u32x4, lr_u32x4);
mkrd_lanes4!(lk_u64x2x4, lr_u64x2x4, u64x2x4, u64x2, lk_u64x2, lr_u64x2);
mkrd_lanes4!(lk_u128x4, lr_u128x4, u128x4, u128x1, lk_u128x1, lr_u128x1);

// ---------------------------------------------------------------------------
// operand streams
// ---------------------------------------------------------------------------
struct Gen {
    rng: Rng,
    quick: bool,
    nrand: usize,
    /// quick tier only: thinned walking-one stream (every 13th bit) for the AVX machine, whose
    /// types are the SSE41 types, and for the `*_assign` forms, which call the by-value operators
    light: bool,
    /// `--light 2` (quick tier, release profile): every walking-one stream thinned to every 29th
    /// bit (wide types) / 11th bit (128-bit types), both coprime to 8; operand classes unchanged
    light2: bool,
}
impl Gen {
    /// walking-one positions: every bit (exhaustive basis) for 128-bit types and in the thorough
    /// tier; every 7th bit (7 is coprime to 8: all bit-in-byte positions) otherwise
    fn walk_bits(&self, n: usize) -> Vec<usize> {
        let stride = if self.light2 {
            if n > 16 { 29 } else { 11 }
        } else if self.quick && self.light {
            13
        } else if self.quick && n > 16 {
            7
        } else {
            1
        };
        (0..8 * n).filter(|j| j % stride == 0).collect()
    }
    fn unary(&mut self, n: usize) -> Vec<Vec<u8>> {
        let mut v: Vec<Vec<u8>> = Vec::new();
        v.push(vec![0u8; n]);
        v.push(vec![0xffu8; n]);
        v.push((0..n).map(|i| i as u8).collect());
        v.push((0..n).map(|i| 0x80 | (i as u8)).collect());
        v.push((0..n).map(|i| if i % 4 == 3 { 0x7f } else { 0xff }).collect());
        v.push((0..n).map(|i| if i % 8 == 7 { 0x80 } else { 0x00 }).collect());
        for _ in 0..self.nrand {
            let mut b = vec![0u8; n];
            self.rng.fill(&mut b);
            v.push(b);
        }
        for j in self.walk_bits(n) {
            let mut b = vec![0u8; n];
            b[j / 8] = 1 << (j % 8);
            v.push(b);
        }
        v
    }
    fn binary(&mut self, n: usize) -> Vec<(Vec<u8>, Vec<u8>)> {
        let mut v: Vec<(Vec<u8>, Vec<u8>)> = Vec::new();
        let zero = vec![0u8; n];
        let ones = vec![0xffu8; n];
        let idx: Vec<u8> = (0..n).map(|i| i as u8).collect();
        let mut r1 = vec![0u8; n];
        self.rng.fill(&mut r1);
        let one32: Vec<u8> = (0..n).map(|i| if i % 4 == 0 { 1 } else { 0 }).collect();
        let one64: Vec<u8> = (0..n).map(|i| if i % 8 == 0 { 1 } else { 0 }).collect();
        let one128: Vec<u8> = (0..n).map(|i| if i % 16 == 0 { 1 } else { 0 }).collect();
        let hi32: Vec<u8> = (0..n).map(|i| if i % 4 == 3 { 0x80 } else { 0 }).collect();
        for p in [
            (&zero, &zero),
            (&ones, &ones),
            (&ones, &zero),
            (&zero, &ones),
            (&ones, &one32),
            (&ones, &one64),
            (&ones, &one128),
            (&one128, &ones),
            (&hi32, &hi32),
            (&idx, &ones),
            (&idx, &r1),
            (&r1, &idx),
            (&r1, &r1),
            // rhs lanes all different and the result IS the rhs (& with all-ones; |, ^, + with zero; and
            // their assign forms): a lane of a wide type taken from the wrong rhs lane shows on one case
            (&ones, &idx),
            (&zero, &idx),
        ] {
            v.push((p.0.clone(), p.1.clone()));
        }
        // carry chains: low part all ones up to bit j, plus one
        for j in [7usize, 8, 15, 16, 31, 32, 33, 63, 64, 65, 95, 96, 127] {
            if self.light2 && ![8usize, 31, 32, 64, 127].contains(&j) {
                continue;
            }
            let mut a = vec![0u8; n];
            for c in a.chunks_mut(16) {
                for t in 0..j {
                    c[t / 8] |= 1 << (t % 8);
                }
            }
            v.push((a.clone(), one128.clone()));
            v.push((one128.clone(), a));
        }
        for _ in 0..self.nrand {
            let mut a = vec![0u8; n];
            let mut b = vec![0u8; n];
            self.rng.fill(&mut a);
            self.rng.fill(&mut b);
            v.push((a, b));
        }
        for j in self.walk_bits(n) {
            let mut b = vec![0u8; n];
            b[j / 8] = 1 << (j % 8);
            v.push((b.clone(), r1.clone()));
            v.push((ones.clone(), b));
        }
        v
    }
    fn few(&mut self, n: usize) -> Vec<Vec<u8>> {
        let mut v: Vec<Vec<u8>> = Vec::new();
        v.push((0..n).map(|i| i as u8).collect());
        v.push(vec![0xffu8; n]);
        v.push(vec![0u8; n]);
        let c = if self.quick { 2 } else { 12 };
        for _ in 0..c {
            let mut b = vec![0u8; n];
            self.rng.fill(&mut b);
            v.push(b);
        }
        v
    }
}

// ---------------------------------------------------------------------------
// operation groups
// ---------------------------------------------------------------------------
macro_rules! un_op {
    ($cx:expr, $g:expr, $ty:expr, $n:expr, $mk:expr, $rd:expr, $op:expr, $k:expr, $f:expr) => {{
        for a in $g.unary($n) {
            let r = guard(|| $rd($f($mk(&a))));
            $cx.push($ty, $op, $k, &a, &[], &[], r);
        }
    }};
}
macro_rules! bin_op {
    ($cx:expr, $g:expr, $ty:expr, $n:expr, $mk:expr, $rd:expr, $op:expr, $f:expr) => {{
        for (a, b) in $g.binary($n) {
            let r = guard(|| $rd($f($mk(&a), $mk(&b))));
            $cx.push($ty, $op, 0, &a, &b, &[], r);
        }
    }};
}
type Mk<'a, V> = &'a dyn Fn(&[u8]) -> V;
type Rd<'a, V> = &'a dyn Fn(V) -> Vec<u8>;

fn g_bitops0<V: BitOps0>(cx: &mut Cx, g: &mut Gen, ty: u32, n: usize, mk: Mk<V>, rd: Rd<V>) {
    bin_op!(cx, g, ty, n, mk, rd, 3, |a: V, b: V| a ^ b);
    bin_op!(cx, g, ty, n, mk, rd, 4, |a: V, b: V| a & b);
    bin_op!(cx, g, ty, n, mk, rd, 5, |a: V, b: V| a | b);
    un_op!(cx, g, ty, n, mk, rd, 6, 0, |a: V| !a);
    bin_op!(cx, g, ty, n, mk, rd, 7, |a: V, b: V| a.andnot(b));
    let keep = g.light;
    g.light = true;
    bin_op!(cx, g, ty, n, mk, rd, 8, |a: V, b: V| {
        let mut a = a;
        a ^= b;
        a
    });
    g.light = keep;
}
fn g_assign_extra<V: Copy + core::ops::BitAndAssign + core::ops::BitOrAssign>(cx: &mut Cx, g: &mut Gen, ty: u32, n: usize, mk: Mk<V>, rd: Rd<V>) {
    let keep = g.light;
    g.light = true;
    bin_op!(cx, g, ty, n, mk, rd, 9, |a: V, b: V| {
        let mut a = a;
        a &= b;
        a
    });
    bin_op!(cx, g, ty, n, mk, rd, 10, |a: V, b: V| {
        let mut a = a;
        a |= b;
        a
    });
    g.light = keep;
}
fn g_rot32<V: RotateEachWord32 + Copy>(cx: &mut Cx, g: &mut Gen, ty: u32, n: usize, mk: Mk<V>, rd: Rd<V>) {
    un_op!(cx, g, ty, n, mk, rd, 20, 7, |a: V| a.rotate_each_word_right7());
    un_op!(cx, g, ty, n, mk, rd, 20, 8, |a: V| a.rotate_each_word_right8());
    un_op!(cx, g, ty, n, mk, rd, 20, 11, |a: V| a.rotate_each_word_right11());
    un_op!(cx, g, ty, n, mk, rd, 20, 12, |a: V| a.rotate_each_word_right12());
    un_op!(cx, g, ty, n, mk, rd, 20, 16, |a: V| a.rotate_each_word_right16());
    un_op!(cx, g, ty, n, mk, rd, 20, 20, |a: V| a.rotate_each_word_right20());
    un_op!(cx, g, ty, n, mk, rd, 20, 24, |a: V| a.rotate_each_word_right24());
    un_op!(cx, g, ty, n, mk, rd, 20, 25, |a: V| a.rotate_each_word_right25());
}
fn g_rot64<V: RotateEachWord64 + Copy>(cx: &mut Cx, g: &mut Gen, ty: u32, n: usize, mk: Mk<V>, rd: Rd<V>) {
    un_op!(cx, g, ty, n, mk, rd, 20, 32, |a: V| a.rotate_each_word_right32());
}
fn g_arith<V: ArithOps>(cx: &mut Cx, g: &mut Gen, ty: u32, n: usize, mk: Mk<V>, rd: Rd<V>) {
    bin_op!(cx, g, ty, n, mk, rd, 1, |a: V, b: V| a + b);
    let keep = g.light;
    g.light = true;
    bin_op!(cx, g, ty, n, mk, rd, 2, |a: V, b: V| {
        let mut a = a;
        a += b;
        a
    });
    g.light = keep;
    un_op!(cx, g, ty, n, mk, rd, 22, 0, |a: V| a.bswap());
}
fn g_bswap<V: BSwap + Copy>(cx: &mut Cx, g: &mut Gen, ty: u32, n: usize, mk: Mk<V>, rd: Rd<V>) {
    un_op!(cx, g, ty, n, mk, rd, 22, 0, |a: V| a.bswap());
}
fn g_swap64<V: Swap64 + Copy>(cx: &mut Cx, g: &mut Gen, ty: u32, n: usize, mk: Mk<V>, rd: Rd<V>) {
    un_op!(cx, g, ty, n, mk, rd, 21, 1, |a: V| a.swap1());
    un_op!(cx, g, ty, n, mk, rd, 21, 2, |a: V| a.swap2());
    un_op!(cx, g, ty, n, mk, rd, 21, 4, |a: V| a.swap4());
    un_op!(cx, g, ty, n, mk, rd, 21, 8, |a: V| a.swap8());
    un_op!(cx, g, ty, n, mk, rd, 21, 16, |a: V| a.swap16());
    un_op!(cx, g, ty, n, mk, rd, 21, 32, |a: V| a.swap32());
    un_op!(cx, g, ty, n, mk, rd, 21, 64, |a: V| a.swap64());
}
fn g_words4<V: Words4 + Copy>(cx: &mut Cx, g: &mut Gen, ty: u32, n: usize, mk: Mk<V>, rd: Rd<V>) {
    un_op!(cx, g, ty, n, mk, rd, 23, 1230, |a: V| a.shuffle1230());
    un_op!(cx, g, ty, n, mk, rd, 23, 2301, |a: V| a.shuffle2301());
    un_op!(cx, g, ty, n, mk, rd, 23, 3012, |a: V| a.shuffle3012());
}
fn g_lanewords4<V: LaneWords4 + Copy>(cx: &mut Cx, g: &mut Gen, ty: u32, n: usize, mk: Mk<V>, rd: Rd<V>) {
    un_op!(cx, g, ty, n, mk, rd, 24, 1230, |a: V| a.shuffle_lane_words1230());
    un_op!(cx, g, ty, n, mk, rd, 24, 2301, |a: V| a.shuffle_lane_words2301());
    un_op!(cx, g, ty, n, mk, rd, 24, 3012, |a: V| a.shuffle_lane_words3012());
}

// ---- C13 groups ----
/// op 30: from_lanes then to_lanes; 44: from_lanes then Into<storage>; 45: unpack then to_lanes
fn g_lanes<V: Copy>(cx: &mut Cx, g: &mut Gen, ty: u32, n: usize, mk: Mk<V>, rd: Rd<V>, lk: Mk<V>, lr: Rd<V>) {
    for a in g.unary(n) {
        let r = guard(|| lr(lk(&a)));
        cx.push(ty, 30, 0, &a, &[], &[], r);
        let r = guard(|| rd(lk(&a)));
        cx.push(ty, 44, 0, &a, &[], &[], r);
        let r = guard(|| lr(mk(&a)));
        cx.push(ty, 45, 0, &a, &[], &[], r);
    }
}
/// the element whose only set bit is its top bit: 0x80000000, 0x8000000000000000, 1 << 127 (little-endian bytes)
fn top_bit(es: usize) -> Vec<u8> {
    let mut x = vec![0u8; es];
    x[es - 1] = 0x80;
    x
}
/// all-ones, top bit only, all but the top bit, zero; for 16-byte lane elements also 0x80000000 / 0xffffffff in one word only
fn boundary_elems(es: usize) -> Vec<Vec<u8>> {
    let mut v = vec![vec![0xffu8; es], top_bit(es), vec![0u8; es]];
    let mut low = vec![0xffu8; es];
    low[es - 1] = 0x7f;
    v.push(low);
    if es > 8 {
        for w in 0..es / 4 {
            let mut x = vec![0u8; es];
            x[4 * w + 3] = 0x80;
            v.push(x);
            let mut y = vec![0u8; es];
            y[4 * w..4 * w + 4].copy_from_slice(&[0xff; 4]);
            v.push(y);
        }
    }
    v
}
/// extract / insert of element type E (a word or a lane), `cnt` valid indices, `es` bytes per element
fn g_vec_elems<V: Copy, E: Copy>(
    cx: &mut Cx, g: &mut Gen, ty: u32, n: usize, cnt: u32, es: usize, mk: Mk<V>, rd: Rd<V>, mke: Mk<E>, rde: Rd<E>,
    ext: &dyn Fn(V, u32) -> E, ins: &dyn Fn(V, E, u32) -> V,
) {
    let idxs: Vec<u32> = (0..cnt + 2).chain([7u32, 8, 0x8000_0000, 0xffff_fffe, 0xffff_ffff]).collect();
    for a in g.few(n) {
        for &i in &idxs {
            let r = guard(|| rde(ext(mk(&a), i)));
            cx.push(ty, 31, i, &a, &[], &[], r);
            // all-ones and top-bit-only elements (0xffffffff / 0x80000000 and their 64- and 128-bit analogues) were added after
            // the mutation campaign (M52: an `insert` that mishandles 0xffffffff was invisible here); 0 was already there
            for x in [vec![0xa5u8; es], (0..es).map(|t| 0xf0 ^ (t as u8)).collect::<Vec<u8>>(), vec![0u8; es], vec![0xffu8; es], top_bit(es)] {
                let r = guard(|| rd(ins(mk(&a), mke(&x), i)));
                cx.push(ty, 32, i, &a, &[], &x, r);
            }
        }
    }
    // the boundary element values at every valid index: inserted into the counting / all-ones / zero vector, and extracted
    // from vectors that hold the value in element i only (neighbours 0, then neighbours all-ones) and in every element
    for i in 0..cnt {
        let k = i as usize * es;
        let counting: Vec<u8> = (0..n).map(|t| t as u8).collect();
        for sv in boundary_elems(es) {
            for v in [counting.clone(), vec![0xffu8; n], vec![0u8; n]] {
                let r = guard(|| rd(ins(mk(&v), mke(&sv), i)));
                cx.push(ty, 32, i, &v, &[], &sv, r);
            }
            let mut alone = vec![0u8; n];
            alone[k..k + es].copy_from_slice(&sv);
            let mut among_ones = vec![0xffu8; n];
            among_ones[k..k + es].copy_from_slice(&sv);
            let everywhere: Vec<u8> = (0..n).map(|t| sv[t % es]).collect();
            for v in [alone, among_ones, everywhere] {
                let r = guard(|| rde(ext(mk(&v), i)));
                cx.push(ty, 31, i, &v, &[], &[], r);
            }
        }
    }
    // walking one through the inserted element and through the vector, valid indices
    for i in 0..cnt {
        let base: Vec<u8> = (0..n).map(|t| t as u8).collect();
        let ones = vec![0xffu8; n];
        for j in (0..8 * es).filter(|j| !g.light2 || j % 5 == 0) {
            let mut x = vec![0u8; es];
            x[j / 8] = 1 << (j % 8);
            let r = guard(|| rd(ins(mk(&base), mke(&x), i)));
            cx.push(ty, 32, i, &base, &[], &x, r);
            if j % 3 == 0 {
                let r = guard(|| rd(ins(mk(&ones), mke(&x), i)));
                cx.push(ty, 32, i, &ones, &[], &x, r);
            }
        }
        for j in g.walk_bits(n) {
            let mut a = vec![0u8; n];
            a[j / 8] = 1 << (j % 8);
            let r = guard(|| rde(ext(mk(&a), i)));
            cx.push(ty, 31, i, &a, &[], &[], r);
            let x = vec![0u8; es];
            let r = guard(|| rd(ins(mk(&a), mke(&x), i)));
            cx.push(ty, 32, i, &a, &[], &x, r);
        }
    }
}

/// Store::unpack of a storage built through each available constructor, read with to_lanes (33);
/// from_lanes, Into<storage>, read through every view (34). `wb` = word size of the vector type.
fn g_store<M: Machine, S: Copy, V: Copy + Store<S> + Into<S>>(
    cx: &mut Cx, g: &mut Gen, m: M, ty: u32, n: usize, wb: u32, lk: Mk<V>, lr: Rd<V>,
    sfrom: &[(u32, &dyn Fn(&[u8]) -> S)], sread: &dyn Fn(S, u32, bool) -> Vec<u8>,
) {
    for a in g.unary(n) {
        for (f, sf) in sfrom {
            let r = guard(|| lr(m.unpack::<S, V>(sf(&a))));
            cx.push(ty, 33, (f << 8) | wb, &a, &[], &[], r);
        }
        for t in [4u32, 8, 16] {
            for whole in [false, true] {
                if whole && n == 16 {
                    continue;
                }
                let r = guard(|| sread(lk(&a).into(), t, whole));
                cx.push(ty, 34, ((whole as u32) << 16) | (wb << 8) | t, &a, &[], &[], r);
            }
        }
    }
}

/// n bytes (rounded up) starting at an 8-byte boundary, filled with 0xee
struct AlignedBuf(Vec<u64>, usize);
impl AlignedBuf {
    fn new(n: usize) -> Self {
        AlignedBuf(vec![0xeeee_eeee_eeee_eeeeu64; (n + 7) / 8], n)
    }
    fn bytes(&mut self) -> &mut [u8] {
        unsafe { core::slice::from_raw_parts_mut(self.0.as_mut_ptr() as *mut u8, self.1) }
    }
}

fn g_storebytes<M: Machine, V: Copy + StoreBytes>(cx: &mut Cx, g: &mut Gen, m: M, ty: u32, n: usize, mk: Mk<V>, rd: Rd<V>) {
    // The byte slices are placed at every offset 0..7 from an 8-byte boundary in turn (a memory operation is a function of
    // the BYTES, not of their address: seed C03-7 made the portable read_le panic on a slice that is not 4-byte aligned).
    // The case itself (operand bytes, result bytes) is the same whatever the offset.
    for (i, a) in g.unary(n).into_iter().enumerate() {
        let off = i % 8;
        let mut src = AlignedBuf::new(n + 8);
        src.bytes()[off..off + n].copy_from_slice(&a);
        let sb: &[u8] = src.bytes();
        let r = guard(|| rd(m.read_le::<V>(&sb[off..off + n])));
        cx.push(ty, 40, 0, &a, &[], &[], r);
        let r = guard(|| rd(m.read_be::<V>(&sb[off..off + n])));
        cx.push(ty, 41, 0, &a, &[], &[], r);
        let r = guard(|| {
            let mut out = AlignedBuf::new(n + 8);
            mk(&a).write_le(&mut out.bytes()[off..off + n]);
            out.bytes()[off..off + n].to_vec()
        });
        cx.push(ty, 42, n as u32, &a, &[], &[], r);
        let r = guard(|| {
            let mut out = AlignedBuf::new(n + 8);
            mk(&a).write_be(&mut out.bytes()[off..off + n]);
            out.bytes()[off..off + n].to_vec()
        });
        cx.push(ty, 43, n as u32, &a, &[], &[], r);
    }
    // wrong sizes are reported by panicking (assert_eq! on the slice length) before any access
    let idx: Vec<u8> = (0..2 * n + 8).map(|t| t as u8).collect();
    for len in [0usize, 1, n / 2, n - 4, n - 1, n + 1, n + 3, n + 4, 2 * n] {
        let inp = &idx[..len];
        let r = guard(|| rd(m.read_le::<V>(inp)));
        cx.push(ty, 40, 0, inp, &[], &[], r);
        let r = guard(|| rd(m.read_be::<V>(inp)));
        cx.push(ty, 41, 0, inp, &[], &[], r);
        let a = &idx[8..8 + n];
        let r = guard(|| {
            let mut out = vec![0xeeu8; len];
            mk(a).write_le(&mut out);
            out
        });
        cx.push(ty, 42, len as u32, a, &[], &[], r);
        let r = guard(|| {
            let mut out = vec![0xeeu8; len];
            mk(a).write_be(&mut out);
            out
        });
        cx.push(ty, 43, len as u32, a, &[], &[], r);
    }
}

fn g_storage(cx: &mut Cx, g: &mut Gen) {
    for a in g.unary(16) {
        for t in [4u32, 8, 16] {
            let r = guard(|| r128v(s128(&a), t));
            cx.push(10, 35, (4 << 8) | t, &a, &[], &[], r);
        }
        // the by-reference view
        let r = guard(|| {
            let st = s128(&a);
            let d: &[u32; 4] = (&st).into();
            bytes32(d)
        });
        cx.push(10, 35, (2 << 16) | (4 << 8) | 4, &a, &[], &[], r);
    }
    for a in g.unary(32) {
        for t in [4u32, 8, 16] {
            for whole in [false, true] {
                let r = guard(|| r256v(s256(&a), t, whole));
                cx.push(11, 35, ((whole as u32) << 16) | (4 << 8) | t, &a, &[], &[], r);
                let r = guard(|| r256v(vec256_storage::from(q4(&a)), t, whole));
                cx.push(11, 35, ((whole as u32) << 16) | (8 << 8) | t, &a, &[], &[], r);
            }
        }
    }
    for a in g.unary(64) {
        for t in [4u32, 8, 16] {
            for whole in [false, true] {
                let r = guard(|| r512v(s512(&a), t, whole));
                cx.push(12, 35, ((whole as u32) << 16) | (4 << 8) | t, &a, &[], &[], r);
            }
        }
    }
}

// ---------------------------------------------------------------------------
// what the Machine trait bounds expose, for any machine
// ---------------------------------------------------------------------------
fn c12_machine<M: Machine>(m: M, cx: &mut Cx, g: &mut Gen) {
    {
        let (mk, rd) = (|b: &[u8]| mk_u32x4(m, b), |v| rd_u32x4::<M>(v));
        g_bitops0::<M::u32x4>(cx, g, 0, 16, &mk, &rd);
        g_rot32::<M::u32x4>(cx, g, 0, 16, &mk, &rd);
        g_arith::<M::u32x4>(cx, g, 0, 16, &mk, &rd);
        g_words4::<M::u32x4>(cx, g, 0, 16, &mk, &rd);
        g_lanewords4::<M::u32x4>(cx, g, 0, 16, &mk, &rd);
    }
    {
        let (mk, rd) = (|b: &[u8]| mk_u64x2(m, b), |v| rd_u64x2::<M>(v));
        g_bitops0::<M::u64x2>(cx, g, 1, 16, &mk, &rd);
        g_rot32::<M::u64x2>(cx, g, 1, 16, &mk, &rd);
        g_rot64::<M::u64x2>(cx, g, 1, 16, &mk, &rd);
        g_arith::<M::u64x2>(cx, g, 1, 16, &mk, &rd);
    }
    {
        let (mk, rd) = (|b: &[u8]| mk_u128x1(m, b), |v| rd_u128x1::<M>(v));
        g_bitops0::<M::u128x1>(cx, g, 2, 16, &mk, &rd);
        g_rot32::<M::u128x1>(cx, g, 2, 16, &mk, &rd);
        g_rot64::<M::u128x1>(cx, g, 2, 16, &mk, &rd);
        g_swap64::<M::u128x1>(cx, g, 2, 16, &mk, &rd);
    }
    {
        let (mk, rd) = (|b: &[u8]| mk_u32x4x2(m, b), |v| rd_u32x4x2::<M>(v));
        g_bitops0::<M::u32x4x2>(cx, g, 3, 32, &mk, &rd);
        g_rot32::<M::u32x4x2>(cx, g, 3, 32, &mk, &rd);
        g_arith::<M::u32x4x2>(cx, g, 3, 32, &mk, &rd);
    }
    {
        let (mk, rd) = (|b: &[u8]| mk_u64x2x2(m, b), |v| rd_u64x2x2::<M>(v));
        g_bitops0::<M::u64x2x2>(cx, g, 4, 32, &mk, &rd);
        g_rot32::<M::u64x2x2>(cx, g, 4, 32, &mk, &rd);
        g_rot64::<M::u64x2x2>(cx, g, 4, 32, &mk, &rd);
        g_arith::<M::u64x2x2>(cx, g, 4, 32, &mk, &rd);
    }
    {
        let (mk, rd) = (|b: &[u8]| mk_u64x4(m, b), |v| rd_u64x4::<M>(v));
        g_bitops0::<M::u64x4>(cx, g, 5, 32, &mk, &rd);
        g_rot32::<M::u64x4>(cx, g, 5, 32, &mk, &rd);
        g_rot64::<M::u64x4>(cx, g, 5, 32, &mk, &rd);
        g_arith::<M::u64x4>(cx, g, 5, 32, &mk, &rd);
        g_words4::<M::u64x4>(cx, g, 5, 32, &mk, &rd);
    }
    {
        let (mk, rd) = (|b: &[u8]| mk_u128x2(m, b), |v| rd_u128x2::<M>(v));
        g_bitops0::<M::u128x2>(cx, g, 6, 32, &mk, &rd);
        g_rot32::<M::u128x2>(cx, g, 6, 32, &mk, &rd);
        g_rot64::<M::u128x2>(cx, g, 6, 32, &mk, &rd);
        g_swap64::<M::u128x2>(cx, g, 6, 32, &mk, &rd);
    }
    {
        let (mk, rd) = (|b: &[u8]| mk_u32x4x4(m, b), |v| rd_u32x4x4::<M>(v));
        g_bitops0::<M::u32x4x4>(cx, g, 7, 64, &mk, &rd);
        g_rot32::<M::u32x4x4>(cx, g, 7, 64, &mk, &rd);
        g_arith::<M::u32x4x4>(cx, g, 7, 64, &mk, &rd);
        g_lanewords4::<M::u32x4x4>(cx, g, 7, 64, &mk, &rd);
    }
    {
        let (mk, rd) = (|b: &[u8]| mk_u64x2x4(m, b), |v| rd_u64x2x4::<M>(v));
        g_bitops0::<M::u64x2x4>(cx, g, 8, 64, &mk, &rd);
        g_rot32::<M::u64x2x4>(cx, g, 8, 64, &mk, &rd);
        g_rot64::<M::u64x2x4>(cx, g, 8, 64, &mk, &rd);
        g_arith::<M::u64x2x4>(cx, g, 8, 64, &mk, &rd);
    }
    {
        let (mk, rd) = (|b: &[u8]| mk_u128x4(m, b), |v| rd_u128x4::<M>(v));
        g_bitops0::<M::u128x4>(cx, g, 9, 64, &mk, &rd);
        g_rot32::<M::u128x4>(cx, g, 9, 64, &mk, &rd);
        g_rot64::<M::u128x4>(cx, g, 9, 64, &mk, &rd);
        g_swap64::<M::u128x4>(cx, g, 9, 64, &mk, &rd);
    }
}

/// methods the concrete x86 types implement beyond the Machine bounds (true of all five machines)
fn c12_extras<M: Machine>(m: M, cx: &mut Cx, g: &mut Gen)
where
    M::u128x1: BSwap,
    M::u128x2: BSwap,
    M::u128x4: BSwap,
    M::u32x4x2: LaneWords4,
    M::u32x4: core::ops::BitAndAssign + core::ops::BitOrAssign,
    M::u64x2: core::ops::BitAndAssign + core::ops::BitOrAssign,
    M::u128x1: core::ops::BitAndAssign + core::ops::BitOrAssign,
    M::u32x4x2: core::ops::BitAndAssign + core::ops::BitOrAssign,
    // the soft.rs wrappers forward `&=` / `|=` lane by lane (fwd_binop_assign_x2 / _x4); u32x4x4 is
    // x4<u32x4> on the SSE machines and x2<u32x4x2_avx2> on AVX2
    M::u64x2x2: core::ops::BitAndAssign + core::ops::BitOrAssign,
    M::u64x4: core::ops::BitAndAssign + core::ops::BitOrAssign,
    M::u128x2: core::ops::BitAndAssign + core::ops::BitOrAssign,
    M::u32x4x4: core::ops::BitAndAssign + core::ops::BitOrAssign,
    M::u64x2x4: core::ops::BitAndAssign + core::ops::BitOrAssign,
    M::u128x4: core::ops::BitAndAssign + core::ops::BitOrAssign,
{
    {
        let (mk, rd) = (|b: &[u8]| mk_u64x2x2(m, b), |v| rd_u64x2x2::<M>(v));
        g_assign_extra::<M::u64x2x2>(cx, g, 4, 32, &mk, &rd);
    }
    {
        let (mk, rd) = (|b: &[u8]| mk_u64x4(m, b), |v| rd_u64x4::<M>(v));
        g_assign_extra::<M::u64x4>(cx, g, 5, 32, &mk, &rd);
    }
    {
        let (mk, rd) = (|b: &[u8]| mk_u128x2(m, b), |v| rd_u128x2::<M>(v));
        g_assign_extra::<M::u128x2>(cx, g, 6, 32, &mk, &rd);
    }
    {
        let (mk, rd) = (|b: &[u8]| mk_u32x4x4(m, b), |v| rd_u32x4x4::<M>(v));
        g_assign_extra::<M::u32x4x4>(cx, g, 7, 64, &mk, &rd);
    }
    {
        let (mk, rd) = (|b: &[u8]| mk_u64x2x4(m, b), |v| rd_u64x2x4::<M>(v));
        g_assign_extra::<M::u64x2x4>(cx, g, 8, 64, &mk, &rd);
    }
    {
        let (mk, rd) = (|b: &[u8]| mk_u128x4(m, b), |v| rd_u128x4::<M>(v));
        g_assign_extra::<M::u128x4>(cx, g, 9, 64, &mk, &rd);
    }
    {
        let (mk, rd) = (|b: &[u8]| mk_u128x1(m, b), |v| rd_u128x1::<M>(v));
        g_bswap::<M::u128x1>(cx, g, 2, 16, &mk, &rd);
        g_assign_extra::<M::u128x1>(cx, g, 2, 16, &mk, &rd);
    }
    {
        let (mk, rd) = (|b: &[u8]| mk_u128x2(m, b), |v| rd_u128x2::<M>(v));
        g_bswap::<M::u128x2>(cx, g, 6, 32, &mk, &rd);
    }
    {
        let (mk, rd) = (|b: &[u8]| mk_u128x4(m, b), |v| rd_u128x4::<M>(v));
        g_bswap::<M::u128x4>(cx, g, 9, 64, &mk, &rd);
    }
    {
        let (mk, rd) = (|b: &[u8]| mk_u32x4x2(m, b), |v| rd_u32x4x2::<M>(v));
        g_lanewords4::<M::u32x4x2>(cx, g, 3, 32, &mk, &rd);
        g_assign_extra::<M::u32x4x2>(cx, g, 3, 32, &mk, &rd);
    }
    {
        let (mk, rd) = (|b: &[u8]| mk_u32x4(m, b), |v| rd_u32x4::<M>(v));
        g_assign_extra::<M::u32x4>(cx, g, 0, 16, &mk, &rd);
    }
    {
        let (mk, rd) = (|b: &[u8]| mk_u64x2(m, b), |v| rd_u64x2::<M>(v));
        g_assign_extra::<M::u64x2>(cx, g, 1, 16, &mk, &rd);
    }
}

/// `VZip::vzip` (the blanket impl over MultiLane): lanes.vzip() = V::from_lanes(lanes)
fn g_vzip<M: Machine>(_m: M, cx: &mut Cx, g: &mut Gen) {
    for a in g.few(16) {
        let r = guard(|| lr_u32x4::<M>(VZip::<M::u32x4>::vzip(d4(&a))));
        cx.push(0, 30, 1, &a, &[], &[], r);
        let r = guard(|| lr_u64x2::<M>(VZip::<M::u64x2>::vzip(q2(&a))));
        cx.push(1, 30, 1, &a, &[], &[], r);
        let r = guard(|| lr_u128x1::<M>(VZip::<M::u128x1>::vzip([w128(&a)])));
        cx.push(2, 30, 1, &a, &[], &[], r);
    }
    for a in g.few(32) {
        let r = guard(|| lr_u64x4::<M>(VZip::<M::u64x4>::vzip(q4(&a))));
        cx.push(5, 30, 1, &a, &[], &[], r);
    }
}

fn c13_machine<M: Machine>(m: M, cx: &mut Cx, g: &mut Gen) {
    g_vzip(m, cx, g);
    let mk32 = |b: &[u8]| w32(b);
    let rd32 = |x: u32| x.to_le_bytes().to_vec();
    let mk64 = |b: &[u8]| w64(b);
    let rd64 = |x: u64| x.to_le_bytes().to_vec();
    let f128: [(u32, &dyn Fn(&[u8]) -> vec128_storage); 1] = [(4, &|b: &[u8]| s128(b))];
    let f256: [(u32, &dyn Fn(&[u8]) -> vec256_storage); 2] = [(4, &|b: &[u8]| s256(b)), (8, &|b: &[u8]| vec256_storage::from(q4(b)))];
    let f512: [(u32, &dyn Fn(&[u8]) -> vec512_storage); 1] = [(4, &|b: &[u8]| s512(b))];
    let v128 = |s: vec128_storage, t: u32, _w: bool| r128v(s, t);
    let v256 = |s: vec256_storage, t: u32, w: bool| r256v(s, t, w);
    let v512 = |s: vec512_storage, t: u32, w: bool| r512v(s, t, w);
    {
        let (mk, rd) = (|b: &[u8]| mk_u32x4(m, b), |v| rd_u32x4::<M>(v));
        let (lk, lr) = (|b: &[u8]| lk_u32x4(m, b), |v| lr_u32x4::<M>(v));
        g_lanes::<M::u32x4>(cx, g, 0, 16, &mk, &rd, &lk, &lr);
        g_vec_elems::<M::u32x4, u32>(cx, g, 0, 16, 4, 4, &mk, &rd, &mk32, &rd32, &|v, i| v.extract(i), &|v, e, i| v.insert(e, i));
        g_store::<M, vec128_storage, M::u32x4>(cx, g, m, 0, 16, 4, &lk, &lr, &f128, &v128);
        g_storebytes::<M, M::u32x4>(cx, g, m, 0, 16, &mk, &rd);
    }
    {
        let (mk, rd) = (|b: &[u8]| mk_u64x2(m, b), |v| rd_u64x2::<M>(v));
        let (lk, lr) = (|b: &[u8]| lk_u64x2(m, b), |v| lr_u64x2::<M>(v));
        g_lanes::<M::u64x2>(cx, g, 1, 16, &mk, &rd, &lk, &lr);
        g_vec_elems::<M::u64x2, u64>(cx, g, 1, 16, 2, 8, &mk, &rd, &mk64, &rd64, &|v, i| v.extract(i), &|v, e, i| v.insert(e, i));
        g_store::<M, vec128_storage, M::u64x2>(cx, g, m, 1, 16, 8, &lk, &lr, &f128, &v128);
    }
    {
        let (mk, rd) = (|b: &[u8]| mk_u128x1(m, b), |v| rd_u128x1::<M>(v));
        let (lk, lr) = (|b: &[u8]| lk_u128x1(m, b), |v| lr_u128x1::<M>(v));
        g_lanes::<M::u128x1>(cx, g, 2, 16, &mk, &rd, &lk, &lr);
        g_store::<M, vec128_storage, M::u128x1>(cx, g, m, 2, 16, 16, &lk, &lr, &f128, &v128);
    }
    {
        let (mk, rd) = (|b: &[u8]| mk_u32x4x2(m, b), |v| rd_u32x4x2::<M>(v));
        let (lk, lr) = (|b: &[u8]| lk_u32x4x2(m, b), |v| lr_u32x4x2::<M>(v));
        let (mke, rde) = (|b: &[u8]| mk_u32x4(m, b), |v| rd_u32x4::<M>(v));
        g_lanes::<M::u32x4x2>(cx, g, 3, 32, &mk, &rd, &lk, &lr);
        g_vec_elems::<M::u32x4x2, M::u32x4>(cx, g, 3, 32, 2, 16, &mk, &rd, &mke, &rde, &|v, i| v.extract(i), &|v, e, i| v.insert(e, i));
        g_store::<M, vec256_storage, M::u32x4x2>(cx, g, m, 3, 32, 4, &lk, &lr, &f256, &v256);
        g_storebytes::<M, M::u32x4x2>(cx, g, m, 3, 32, &mk, &rd);
    }
    {
        let (mk, rd) = (|b: &[u8]| mk_u64x2x2(m, b), |v| rd_u64x2x2::<M>(v));
        let (lk, lr) = (|b: &[u8]| lk_u64x2x2(m, b), |v| lr_u64x2x2::<M>(v));
        let (mke, rde) = (|b: &[u8]| mk_u64x2(m, b), |v| rd_u64x2::<M>(v));
        g_lanes::<M::u64x2x2>(cx, g, 4, 32, &mk, &rd, &lk, &lr);
        g_vec_elems::<M::u64x2x2, M::u64x2>(cx, g, 4, 32, 2, 16, &mk, &rd, &mke, &rde, &|v, i| v.extract(i), &|v, e, i| v.insert(e, i));
        g_store::<M, vec256_storage, M::u64x2x2>(cx, g, m, 4, 32, 8, &lk, &lr, &f256, &v256);
        g_storebytes::<M, M::u64x2x2>(cx, g, m, 4, 32, &mk, &rd);
    }
    {
        let (mk, rd) = (|b: &[u8]| mk_u64x4(m, b), |v| rd_u64x4::<M>(v));
        let (lk, lr) = (|b: &[u8]| lk_u64x4(m, b), |v| lr_u64x4::<M>(v));
        g_lanes::<M::u64x4>(cx, g, 5, 32, &mk, &rd, &lk, &lr);
        g_vec_elems::<M::u64x4, u64>(cx, g, 5, 32, 4, 8, &mk, &rd, &mk64, &rd64, &|v, i| v.extract(i), &|v, e, i| v.insert(e, i));
        g_store::<M, vec256_storage, M::u64x4>(cx, g, m, 5, 32, 8, &lk, &lr, &f256, &v256);
        g_storebytes::<M, M::u64x4>(cx, g, m, 5, 32, &mk, &rd);
    }
    {
        let (mk, rd) = (|b: &[u8]| mk_u128x2(m, b), |v| rd_u128x2::<M>(v));
        let (lk, lr) = (|b: &[u8]| lk_u128x2(m, b), |v| lr_u128x2::<M>(v));
        let (mke, rde) = (|b: &[u8]| mk_u128x1(m, b), |v| rd_u128x1::<M>(v));
        g_lanes::<M::u128x2>(cx, g, 6, 32, &mk, &rd, &lk, &lr);
        g_vec_elems::<M::u128x2, M::u128x1>(cx, g, 6, 32, 2, 16, &mk, &rd, &mke, &rde, &|v, i| v.extract(i), &|v, e, i| v.insert(e, i));
        g_store::<M, vec256_storage, M::u128x2>(cx, g, m, 6, 32, 16, &lk, &lr, &f256, &v256);
    }
    {
        let (mk, rd) = (|b: &[u8]| mk_u32x4x4(m, b), |v| rd_u32x4x4::<M>(v));
        let (lk, lr) = (|b: &[u8]| lk_u32x4x4(m, b), |v| lr_u32x4x4::<M>(v));
        let (mke, rde) = (|b: &[u8]| mk_u32x4(m, b), |v| rd_u32x4::<M>(v));
        g_lanes::<M::u32x4x4>(cx, g, 7, 64, &mk, &rd, &lk, &lr);
        g_vec_elems::<M::u32x4x4, M::u32x4>(cx, g, 7, 64, 4, 16, &mk, &rd, &mke, &rde, &|v, i| v.extract(i), &|v, e, i| v.insert(e, i));
        g_store::<M, vec512_storage, M::u32x4x4>(cx, g, m, 7, 64, 4, &lk, &lr, &f512, &v512);
        g_storebytes::<M, M::u32x4x4>(cx, g, m, 7, 64, &mk, &rd);
        for a in g.unary(64) {
            let r = guard(|| {
                let s: [u32; 16] = mk(&a).to_scalars();
                bytes32(&s)
            });
            cx.push(7, 51, 0, &a, &[], &[], r);
        }
        // transpose4: a = the four operands concatenated, result = the four results concatenated
        let mut quads: Vec<Vec<u8>> = Vec::new();
        quads.push((0..256usize).map(|t| t as u8).collect());
        quads.push(vec![0xffu8; 256]);
        for _ in 0..g.nrand {
            let mut b = vec![0u8; 256];
            g.rng.fill(&mut b);
            quads.push(b);
        }
        let stride = if g.light2 { 23 } else if g.quick { 5 } else { 1 };
        for j in (0..2048usize).filter(|j| j % stride == 0) {
            let mut b = vec![0u8; 256];
            b[j / 8] = 1 << (j % 8);
            quads.push(b);
        }
        for a in quads {
            let r = guard(|| {
                let (p, q, s, t) = <M::u32x4x4 as Vec4Ext<M::u32x4>>::transpose4(mk(&a[0..64]), mk(&a[64..128]), mk(&a[128..192]), mk(&a[192..256]));
                [rd(p), rd(q), rd(s), rd(t)].concat()
            });
            cx.push(7, 50, 0, &a, &[], &[], r);
        }
    }
    {
        let (mk, rd) = (|b: &[u8]| mk_u64x2x4(m, b), |v| rd_u64x2x4::<M>(v));
        let (lk, lr) = (|b: &[u8]| lk_u64x2x4(m, b), |v| lr_u64x2x4::<M>(v));
        let (mke, rde) = (|b: &[u8]| mk_u64x2(m, b), |v| rd_u64x2::<M>(v));
        g_lanes::<M::u64x2x4>(cx, g, 8, 64, &mk, &rd, &lk, &lr);
        g_vec_elems::<M::u64x2x4, M::u64x2>(cx, g, 8, 64, 4, 16, &mk, &rd, &mke, &rde, &|v, i| v.extract(i), &|v, e, i| v.insert(e, i));
        g_store::<M, vec512_storage, M::u64x2x4>(cx, g, m, 8, 64, 8, &lk, &lr, &f512, &v512);
    }
    {
        let (mk, rd) = (|b: &[u8]| mk_u128x4(m, b), |v| rd_u128x4::<M>(v));
        let (lk, lr) = (|b: &[u8]| lk_u128x4(m, b), |v| lr_u128x4::<M>(v));
        let (mke, rde) = (|b: &[u8]| mk_u128x1(m, b), |v| rd_u128x1::<M>(v));
        g_lanes::<M::u128x4>(cx, g, 9, 64, &mk, &rd, &lk, &lr);
        g_vec_elems::<M::u128x4, M::u128x1>(cx, g, 9, 64, 4, 16, &mk, &rd, &mke, &rde, &|v, i| v.extract(i), &|v, e, i| v.insert(e, i));
        g_store::<M, vec512_storage, M::u128x4>(cx, g, m, 9, 64, 16, &lk, &lr, &f512, &v512);
    }
}

/// C13 methods beyond the Machine bounds: StoreBytes of u64x2 / u128x1 / u64x2x4, the
/// u128 -> u32/u64 vector conversions the u128x1/x2/x4 impls promise in their where-clauses
fn c13_extras<M: Machine>(m: M, cx: &mut Cx, g: &mut Gen)
where
    M::u64x2: StoreBytes,
    M::u128x1: StoreBytes + Into<M::u32x4> + Into<M::u64x2>,
    M::u64x2x4: StoreBytes,
    M::u128x2: Into<M::u32x4x2> + Into<M::u64x2x2> + Into<M::u64x4>,
    M::u128x4: Into<M::u32x4x4> + Into<M::u64x2x4>,
    M::u128x2: StoreBytes,
    M::u128x4: StoreBytes,
    M::u32x4: UnsafeFrom<[u32; 4]>,
    M::u64x2: UnsafeFrom<[u64; 2]>,
    M::u64x2x2: UnsafeFrom<[M::u64x2; 2]>,
    M::u64x4: UnsafeFrom<[M::u64x2; 2]>,
    M::u128x2: UnsafeFrom<[M::u128x1; 2]>,
    M::u64x2x4: UnsafeFrom<[M::u64x2; 4]>,
    M::u128x4: UnsafeFrom<[M::u128x1; 4]>,
{
    {
        let (mk, rd) = (|b: &[u8]| mk_u128x2(m, b), |v| rd_u128x2::<M>(v));
        g_storebytes::<M, M::u128x2>(cx, g, m, 6, 32, &mk, &rd);
    }
    {
        let (mk, rd) = (|b: &[u8]| mk_u128x4(m, b), |v| rd_u128x4::<M>(v));
        g_storebytes::<M, M::u128x4>(cx, g, m, 9, 64, &mk, &rd);
    }
    // op 47: UnsafeFrom::unsafe_from on an array of words (u32x4, u64x2) or of lanes built with
    // unpack (the x2 / x4 wrappers), read with Into<storage>
    for a in g.unary(16) {
        let r = guard(|| rd_u32x4::<M>(unsafe { <M::u32x4 as UnsafeFrom<[u32; 4]>>::unsafe_from(d4(&a)) }));
        cx.push(0, 47, 0, &a, &[], &[], r);
        let r = guard(|| rd_u64x2::<M>(unsafe { <M::u64x2 as UnsafeFrom<[u64; 2]>>::unsafe_from(q2(&a)) }));
        cx.push(1, 47, 0, &a, &[], &[], r);
    }
    for a in g.unary(32) {
        let r = guard(|| rd_u64x2x2::<M>(unsafe { UnsafeFrom::unsafe_from([mk_u64x2(m, &a[0..16]), mk_u64x2(m, &a[16..32])]) }));
        cx.push(4, 47, 0, &a, &[], &[], r);
        let r = guard(|| rd_u64x4::<M>(unsafe { UnsafeFrom::unsafe_from([mk_u64x2(m, &a[0..16]), mk_u64x2(m, &a[16..32])]) }));
        cx.push(5, 47, 0, &a, &[], &[], r);
        let r = guard(|| rd_u128x2::<M>(unsafe { UnsafeFrom::unsafe_from([mk_u128x1(m, &a[0..16]), mk_u128x1(m, &a[16..32])]) }));
        cx.push(6, 47, 0, &a, &[], &[], r);
    }
    for a in g.unary(64) {
        let r = guard(|| {
            rd_u64x2x4::<M>(unsafe { UnsafeFrom::unsafe_from([mk_u64x2(m, &a[0..16]), mk_u64x2(m, &a[16..32]), mk_u64x2(m, &a[32..48]), mk_u64x2(m, &a[48..64])]) })
        });
        cx.push(8, 47, 0, &a, &[], &[], r);
        let r = guard(|| {
            rd_u128x4::<M>(unsafe { UnsafeFrom::unsafe_from([mk_u128x1(m, &a[0..16]), mk_u128x1(m, &a[16..32]), mk_u128x1(m, &a[32..48]), mk_u128x1(m, &a[48..64])]) })
        });
        cx.push(9, 47, 0, &a, &[], &[], r);
    }
    {
        let (mk, rd) = (|b: &[u8]| mk_u64x2(m, b), |v| rd_u64x2::<M>(v));
        g_storebytes::<M, M::u64x2>(cx, g, m, 1, 16, &mk, &rd);
    }
    {
        let (mk, rd) = (|b: &[u8]| mk_u128x1(m, b), |v| rd_u128x1::<M>(v));
        g_storebytes::<M, M::u128x1>(cx, g, m, 2, 16, &mk, &rd);
    }
    {
        let (mk, rd) = (|b: &[u8]| mk_u64x2x4(m, b), |v| rd_u64x2x4::<M>(v));
        g_storebytes::<M, M::u64x2x4>(cx, g, m, 8, 64, &mk, &rd);
    }
    for a in g.unary(16) {
        let r = guard(|| rd_u32x4::<M>(mk_u128x1(m, &a).into()));
        cx.push(2, 46, 0, &a, &[], &[], r);
        let r = guard(|| rd_u64x2::<M>(mk_u128x1(m, &a).into()));
        cx.push(2, 46, 1, &a, &[], &[], r);
    }
    for a in g.unary(32) {
        let r = guard(|| rd_u32x4x2::<M>(mk_u128x2(m, &a).into()));
        cx.push(6, 46, 3, &a, &[], &[], r);
        let r = guard(|| rd_u64x2x2::<M>(mk_u128x2(m, &a).into()));
        cx.push(6, 46, 4, &a, &[], &[], r);
        let r = guard(|| rd_u64x4::<M>(mk_u128x2(m, &a).into()));
        cx.push(6, 46, 5, &a, &[], &[], r);
    }
    for a in g.unary(64) {
        let r = guard(|| rd_u32x4x4::<M>(mk_u128x4(m, &a).into()));
        cx.push(9, 46, 7, &a, &[], &[], r);
        let r = guard(|| rd_u64x2x4::<M>(mk_u128x4(m, &a).into()));
        cx.push(9, 46, 8, &a, &[], &[], r);
    }
}

/// UnsafeFrom of the u32 wide types, which differ between the families: on the SSE machines
/// u32x4x2 = x2<u32x4> and u32x4x4 = x4<u32x4>; on AVX2 u32x4x2 is one 256-bit register (no
/// UnsafeFrom) and u32x4x4 = x2<u32x4x2_avx2>
fn c13_unsafe_from_sse<M: Machine>(m: M, cx: &mut Cx, g: &mut Gen)
where
    M::u32x4x2: UnsafeFrom<[M::u32x4; 2]>,
    M::u32x4x4: UnsafeFrom<[M::u32x4; 4]>,
{
    for a in g.unary(32) {
        let r = guard(|| rd_u32x4x2::<M>(unsafe { UnsafeFrom::unsafe_from([mk_u32x4(m, &a[0..16]), mk_u32x4(m, &a[16..32])]) }));
        cx.push(3, 47, 0, &a, &[], &[], r);
    }
    for a in g.unary(64) {
        let r = guard(|| {
            rd_u32x4x4::<M>(unsafe { UnsafeFrom::unsafe_from([mk_u32x4(m, &a[0..16]), mk_u32x4(m, &a[16..32]), mk_u32x4(m, &a[32..48]), mk_u32x4(m, &a[48..64])]) })
        });
        cx.push(7, 47, 0, &a, &[], &[], r);
    }
}
fn c13_unsafe_from_avx2<M: Machine>(m: M, cx: &mut Cx, g: &mut Gen)
where
    M::u32x4x4: UnsafeFrom<[M::u32x4x2; 2]>,
{
    for a in g.unary(64) {
        let r = guard(|| rd_u32x4x4::<M>(unsafe { UnsafeFrom::unsafe_from([mk_u32x4x2(m, &a[0..32]), mk_u32x4x2(m, &a[32..64])]) }));
        cx.push(7, 47, 0, &a, &[], &[], r);
    }
}

/// storage values by themselves: Default (36) and == (37; the right-hand side is built through the
/// k-byte word view where the type has one) of the three unions
fn g_storage_eq(cx: &mut Cx, g: &mut Gen) {
    let r = guard(|| r128(vec128_storage::default()));
    cx.push(10, 36, 0, &[], &[], &[], r);
    let r = guard(|| r256(vec256_storage::default()));
    cx.push(11, 36, 0, &[], &[], &[], r);
    let r = guard(|| r512(vec512_storage::default()));
    cx.push(12, 36, 0, &[], &[], &[], r);
    // equal pairs, pairs from the binary stream, pairs that differ in exactly one bit (every position
    // of the walk: a comparison that skips part of the value accepts one of them)
    for (ty, n) in [(10u32, 16usize), (11, 32), (12, 64)] {
        let mut pairs: Vec<(Vec<u8>, Vec<u8>)> = g.binary(n).into_iter().take(13).collect();
        for a in g.few(n) {
            pairs.push((a.clone(), a.clone()));
            for j in g.walk_bits(n) {
                let mut b = a.clone();
                b[j / 8] ^= 1 << (j % 8);
                pairs.push((a.clone(), b));
            }
        }
        for (a, b) in pairs {
            match ty {
                10 => {
                    let r = guard(|| vec![(s128(&a) == s128(&b)) as u8]);
                    cx.push(10, 37, 4, &a, &b, &[], r);
                }
                11 => {
                    let r = guard(|| vec![(s256(&a) == s256(&b)) as u8]);
                    cx.push(11, 37, 4, &a, &b, &[], r);
                    let r = guard(|| vec![(s256(&a) == vec256_storage::from(q4(&b))) as u8]);
                    cx.push(11, 37, 8, &a, &b, &[], r);
                }
                _ => {
                    let r = guard(|| vec![(s512(&a) == s512(&b)) as u8]);
                    cx.push(12, 37, 4, &a, &b, &[], r);
                }
            }
        }
    }
}

/// `which`: comma-separated machine names (MACH), each optionally followed by `:l` (thinned
/// walking-one stream, every 13th bit, quick tier); `all` = SSE2,SSSE3,SSE41,AVX:l,AVX2
fn each_machine(cx: &mut Cx, g: &mut Gen, which: &str, prop: u32) {
    let which = if which == "all" { "SSE2,SSSE3,SSE41,AVX:l,AVX2" } else { which };
    let mut known = 0;
    macro_rules! go {
        ($idx:expr, $M:ty, $fam:ident) => {
            for w in which.split(',') {
                let (name, light) = match w.strip_suffix(":l") {
                    Some(n) => (n, true),
                    None => (w, false),
                };
                if name.eq_ignore_ascii_case(MACH[$idx]) {
                    known += 1;
                    cx.m = $idx;
                    g.light = light;
                    let m = unsafe { <$M as Machine>::instance() };
                    if prop == 12 {
                        c12_machine(m, cx, g);
                        c12_extras(m, cx, g);
                    } else {
                        c13_machine(m, cx, g);
                        c13_extras(m, cx, g);
                        $fam(m, cx, g);
                    }
                }
            }
        };
    }
    use ppv_lite86::x86_64::{SseMachine, YesNI, YesS3, YesS4};
    go!(0, SSE2, c13_unsafe_from_sse);
    go!(1, SSSE3, c13_unsafe_from_sse);
    go!(2, SSE41, c13_unsafe_from_sse);
    go!(3, AVX, c13_unsafe_from_sse);
    go!(4, AVX2, c13_unsafe_from_avx2);
    go!(5, SseMachine<YesS3, YesS4, YesNI>, c13_unsafe_from_sse);
    // index 6 (Avx2Machine<YesNI>) is understood by Run/Ppv.v but not instantiated here: each machine
    // instantiation costs ~15-20 s of compile time per profile after every change to ppv-lite86
    if known != which.split(',').count() {
        eprintln!("unknown machine in --machine {}", which);
        std::process::exit(2);
    }
    g.light = false;
    if prop == 13 {
        cx.m = 0;
        g_storage(cx, g);
        g_storage_eq(cx, g);
    }
}

// ---------------------------------------------------------------------------
// raw intrinsics against Model/Intrinsics.v (case kind picase)
// ---------------------------------------------------------------------------
struct ICase {
    id: u32,
    imm: u64,
    a: Vec<u8>,
    b: Vec<u8>,
    r: Vec<u8>,
}
impl ICase {
    fn coq(&self) -> String {
        format!("PI {} {} {} {} {} {} {} {}", self.id, self.imm, self.a.len(), ilit(&self.a), self.b.len(), ilit(&self.b), self.r.len(), ilit(&self.r))
    }
    fn json(&self) -> String {
        format!(
            "{{\"intrinsic\":{},\"imm\":{},\"a\":{},\"b\":{},\"result\":{}}}",
            jstr(intr_name(self.id)),
            self.imm,
            jstr(&hex(&self.a)),
            jstr(&hex(&self.b)),
            jstr(&hex(&self.r))
        )
    }
}
fn intr_name(id: u32) -> &'static str {
    match id {
        1 => "_mm_add_epi32",
        2 => "_mm_add_epi64",
        3 => "_mm_and_si128",
        4 => "_mm_or_si128",
        5 => "_mm_xor_si128",
        6 => "_mm_andnot_si128",
        7 => "_mm_srli_epi16",
        8 => "_mm_slli_epi16",
        9 => "_mm_srli_epi32",
        10 => "_mm_slli_epi32",
        11 => "_mm_srli_epi64",
        12 => "_mm_slli_epi64",
        13 => "_mm_srli_si128",
        14 => "_mm_slli_si128",
        15 => "_mm_shuffle_epi32",
        16 => "_mm_shufflelo_epi16",
        17 => "_mm_shufflehi_epi16",
        18 => "_mm_shuffle_epi8",
        19 => "_mm_alignr_epi8",
        20 => "_mm_unpacklo_epi8",
        21 => "_mm_unpackhi_epi8",
        22 => "_mm_packus_epi16",
        23 => "_mm_setzero_si128",
        24 => "_mm_set_epi64x",
        25 => "_mm_set1_epi64x",
        26 => "_mm_set1_epi8",
        27 => "_mm_set_epi32",
        28 => "_mm_cvtsi32_si128",
        29 => "_mm_cvtsi64_si128",
        30 => "_mm_cvtsi128_si64",
        31 => "_mm_extract_epi64",
        32 => "_mm_insert_epi64",
        33 => "_mm_insert_epi32",
        34 => "_mm_move_epi64",
        35 => "_mm_cmpeq_epi32",
        40 => "_mm256_add_epi32",
        41 => "_mm256_and_si256",
        42 => "_mm256_or_si256",
        43 => "_mm256_xor_si256",
        44 => "_mm256_andnot_si256",
        45 => "_mm256_srli_epi32",
        46 => "_mm256_slli_epi32",
        47 => "_mm256_shuffle_epi8",
        48 => "_mm256_shuffle_epi32",
        49 => "_mm256_set_epi64x",
        50 => "_mm256_set1_epi8",
        51 => "_mm256_extracti128_si256",
        52 => "_mm256_inserti128_si256",
        53 => "_mm256_setr_m128i",
        54 => "_mm256_permute2x128_si256",
        _ => "?",
    }
}

#[target_feature(enable = "avx2,sse4.1,ssse3")]
unsafe fn intr_cases(g: &mut Gen, out: &mut Vec<ICase>) {
    let ld = |b: &[u8]| -> __m128i { _mm_loadu_si128(b.as_ptr() as *const _) };
    let st = |x: __m128i| -> Vec<u8> {
        let mut o = vec![0u8; 16];
        _mm_storeu_si128(o.as_mut_ptr() as *mut _, x);
        o
    };
    let ld2 = |b: &[u8]| -> __m256i { _mm256_loadu_si256(b.as_ptr() as *const _) };
    let st2 = |x: __m256i| -> Vec<u8> {
        let mut o = vec![0u8; 32];
        _mm256_storeu_si256(o.as_mut_ptr() as *mut _, x);
        o
    };
    let un16 = g.unary(16);
    let bin16 = g.binary(16);
    let un32 = g.unary(32);
    let bin32 = g.binary(32);
    macro_rules! bin {
        ($id:expr, $f:ident) => {
            for (a, b) in &bin16 {
                out.push(ICase { id: $id, imm: 0, a: a.clone(), b: b.clone(), r: st($f(ld(a), ld(b))) });
            }
        };
    }
    macro_rules! bin2 {
        ($id:expr, $f:ident) => {
            for (a, b) in &bin32 {
                out.push(ICase { id: $id, imm: 0, a: a.clone(), b: b.clone(), r: st2($f(ld2(a), ld2(b))) });
            }
        };
    }
    macro_rules! immop {
        ($id:expr, $f:ident, [$($i:literal),*]) => {
            $(for a in &un16 {
                out.push(ICase { id: $id, imm: $i as u64, a: a.clone(), b: vec![], r: st($f::<$i>(ld(a))) });
            })*
        };
    }
    macro_rules! immop2 {
        ($id:expr, $f:ident, [$($i:literal),*]) => {
            $(for a in &un32 {
                out.push(ICase { id: $id, imm: $i as u64, a: a.clone(), b: vec![], r: st2($f::<$i>(ld2(a))) });
            })*
        };
    }
    bin!(1, _mm_add_epi32);
    bin!(2, _mm_add_epi64);
    bin!(3, _mm_and_si128);
    bin!(4, _mm_or_si128);
    bin!(5, _mm_xor_si128);
    bin!(6, _mm_andnot_si128);
    immop!(7, _mm_srli_epi16, [0, 1, 2, 4, 8, 15, 16, 17]);
    immop!(8, _mm_slli_epi16, [0, 1, 2, 4, 8, 15, 16, 17]);
    immop!(9, _mm_srli_epi32, [0, 7, 8, 11, 12, 16, 20, 24, 25, 31, 32, 33, 21, 13]);
    immop!(10, _mm_slli_epi32, [0, 7, 8, 11, 12, 16, 20, 24, 25, 31, 32, 33, 21, 13]);
    immop!(11, _mm_srli_epi64, [0, 7, 8, 11, 12, 16, 20, 24, 25, 32, 63, 64, 65, 57, 56, 53, 52, 48, 44, 40, 39]);
    immop!(12, _mm_slli_epi64, [0, 7, 8, 11, 12, 16, 20, 24, 25, 32, 63, 64, 65, 57, 56, 53, 52, 48, 44, 40, 39]);
    immop!(13, _mm_srli_si128, [0, 1, 4, 7, 8, 12, 15, 16, 17, 255]);
    immop!(14, _mm_slli_si128, [0, 1, 4, 7, 8, 12, 15, 16, 17, 255]);
    immop!(15, _mm_shuffle_epi32, [0x00, 0x1b, 0x39, 0x4e, 0x93, 0xb1, 0xe4, 0xee, 0x78, 0xb4, 0xc9, 0xe1, 0xc6, 0xff, 0x55, 0xaa, 0x27, 0x8d]);
    immop!(16, _mm_shufflelo_epi16, [0x00, 0x1b, 0xb1, 0xe4, 0x39, 0x93, 0x4e, 0xff, 0x6c]);
    immop!(17, _mm_shufflehi_epi16, [0x00, 0x1b, 0xb1, 0xe4, 0x39, 0x93, 0x4e, 0xff, 0x6c]);
    // pshufb: data x the masks used by the crate, index patterns, high-bit masks, random masks
    let mut masks: Vec<Vec<u8>> = Vec::new();
    for (k0, k1) in [
        (0x0c0f_0e0d_080b_0a09u64, 0x0407_0605_0003_0201u64),
        (0x0d0c_0f0e_0908_0b0a, 0x0504_0706_0100_0302),
        (0x0e0d_0c0f_0a09_080b, 0x0605_0407_0201_0003),
        (0x080f_0e0d_0c0b_0a09, 0x0007_0605_0403_0201),
        (0x0908_0f0e_0d0c_0b0a, 0x0100_0706_0504_0302),
        (0x0a09_080f_0e0d_0c0b, 0x0201_0007_0605_0403),
        (0x0c0d_0e0f_0809_0a0b, 0x0405_0607_0001_0203),
        (0x0809_0a0b_0c0d_0e0f, 0x0001_0203_0405_0607),
        (0x0001_0203_0405_0607, 0x0809_0a0b_0c0d_0e0f),
        (0x0e0f_0c0d_0a0b_0809, 0x0607_0405_0203_0001),
        (0x0f0e_0d0c_0b0a_0908, 0x0706_0504_0302_0100),
        (0x8f0e_8d0c_8b0a_8908, 0x0786_0584_0382_0180),
        (0x7f6e_5d4c_3b2a_1908, 0x17f6_e5d4_c3b2_a190),
    ] {
        masks.push([k1.to_le_bytes(), k0.to_le_bytes()].concat());
    }
    for _ in 0..g.nrand + 4 {
        let mut b = vec![0u8; 16];
        g.rng.fill(&mut b);
        masks.push(b);
    }
    let few16 = g.few(16);
    for a in &few16 {
        for mk in &masks {
            out.push(ICase { id: 18, imm: 0, a: a.clone(), b: mk.clone(), r: st(_mm_shuffle_epi8(ld(a), ld(mk))) });
        }
    }
    for a in &un16 {
        let mk = &masks[a[0] as usize % masks.len()];
        out.push(ICase { id: 18, imm: 0, a: a.clone(), b: mk.clone(), r: st(_mm_shuffle_epi8(ld(a), ld(mk))) });
    }
    macro_rules! alignr {
        ([$($i:literal),*]) => {
            $(for (a, b) in bin16.iter().take(40) {
                out.push(ICase { id: 19, imm: $i as u64, a: a.clone(), b: b.clone(), r: st(_mm_alignr_epi8::<$i>(ld(a), ld(b))) });
            })*
        };
    }
    alignr!([0, 1, 4, 8, 12, 15, 16, 17, 24, 31, 32, 33]);
    bin!(20, _mm_unpacklo_epi8);
    bin!(21, _mm_unpackhi_epi8);
    bin!(22, _mm_packus_epi16);
    out.push(ICase { id: 23, imm: 0, a: vec![], b: vec![], r: st(_mm_setzero_si128()) });
    for a in &un16 {
        out.push(ICase { id: 24, imm: 0, a: a.clone(), b: vec![], r: st(_mm_set_epi64x(w64(&a[8..]) as i64, w64(&a[0..]) as i64)) });
        out.push(ICase { id: 25, imm: 0, a: a.clone(), b: vec![], r: st(_mm_set1_epi64x(w64(&a[0..]) as i64)) });
        let d = d4(a);
        out.push(ICase { id: 27, imm: 0, a: a.clone(), b: vec![], r: st(_mm_set_epi32(d[3] as i32, d[2] as i32, d[1] as i32, d[0] as i32)) });
        out.push(ICase { id: 28, imm: 0, a: a.clone(), b: vec![], r: st(_mm_cvtsi32_si128(d[0] as i32)) });
        out.push(ICase { id: 29, imm: 0, a: a.clone(), b: vec![], r: st(_mm_cvtsi64_si128(w64(&a[0..]) as i64)) });
        out.push(ICase { id: 30, imm: 0, a: a.clone(), b: vec![], r: (_mm_cvtsi128_si64(ld(a)) as u64).to_le_bytes().to_vec() });
        out.push(ICase { id: 31, imm: 0, a: a.clone(), b: vec![], r: (_mm_extract_epi64::<0>(ld(a)) as u64).to_le_bytes().to_vec() });
        out.push(ICase { id: 31, imm: 1, a: a.clone(), b: vec![], r: (_mm_extract_epi64::<1>(ld(a)) as u64).to_le_bytes().to_vec() });
        out.push(ICase { id: 34, imm: 0, a: a.clone(), b: vec![], r: st(_mm_move_epi64(ld(a))) });
    }
    for v in 0..=255u64 {
        out.push(ICase { id: 26, imm: v, a: vec![], b: vec![], r: st(_mm_set1_epi8(v as u8 as i8)) });
        out.push(ICase { id: 50, imm: v, a: vec![], b: vec![], r: st2(_mm256_set1_epi8(v as u8 as i8)) });
    }
    for (a, b) in &bin16 {
        let v = w64(b);
        out.push(ICase { id: 32, imm: 0, a: a.clone(), b: b[..8].to_vec(), r: st(_mm_insert_epi64::<0>(ld(a), v as i64)) });
        out.push(ICase { id: 32, imm: 1, a: a.clone(), b: b[..8].to_vec(), r: st(_mm_insert_epi64::<1>(ld(a), v as i64)) });
        let v = w32(b);
        out.push(ICase { id: 33, imm: 0, a: a.clone(), b: b[..4].to_vec(), r: st(_mm_insert_epi32::<0>(ld(a), v as i32)) });
        out.push(ICase { id: 33, imm: 1, a: a.clone(), b: b[..4].to_vec(), r: st(_mm_insert_epi32::<1>(ld(a), v as i32)) });
        out.push(ICase { id: 33, imm: 2, a: a.clone(), b: b[..4].to_vec(), r: st(_mm_insert_epi32::<2>(ld(a), v as i32)) });
        out.push(ICase { id: 33, imm: 3, a: a.clone(), b: b[..4].to_vec(), r: st(_mm_insert_epi32::<3>(ld(a), v as i32)) });
    }
    bin!(35, _mm_cmpeq_epi32);
    // partially equal lanes for cmpeq
    for a in &un16 {
        let mut b = a.clone();
        b[5] ^= 1;
        b[15] ^= 0x80;
        out.push(ICase { id: 35, imm: 0, a: a.clone(), b: b.clone(), r: st(_mm_cmpeq_epi32(ld(a), ld(&b))) });
    }
    // 256-bit
    bin2!(40, _mm256_add_epi32);
    bin2!(41, _mm256_and_si256);
    bin2!(42, _mm256_or_si256);
    bin2!(43, _mm256_xor_si256);
    bin2!(44, _mm256_andnot_si256);
    immop2!(45, _mm256_srli_epi32, [0, 7, 11, 12, 20, 25, 31, 32, 33]);
    immop2!(46, _mm256_slli_epi32, [0, 7, 12, 20, 21, 25, 31, 32, 33]);
    let few32 = g.few(32);
    for a in few32.iter().chain(un32.iter().take(12)) {
        for (i, mk) in masks.iter().enumerate() {
            let mk2 = [mk.clone(), masks[(i + 3) % masks.len()].clone()].concat();
            out.push(ICase { id: 47, imm: 0, a: a.clone(), b: mk2.clone(), r: st2(_mm256_shuffle_epi8(ld2(a), ld2(&mk2))) });
            let mk1 = [mk.clone(), mk.clone()].concat();
            out.push(ICase { id: 47, imm: 0, a: a.clone(), b: mk1.clone(), r: st2(_mm256_shuffle_epi8(ld2(a), ld2(&mk1))) });
        }
    }
    immop2!(48, _mm256_shuffle_epi32, [0x00, 0x1b, 0x39, 0x4e, 0x93, 0xb1, 0xe4, 0xff, 0x6c]);
    for a in &un32 {
        let q = q4(a);
        out.push(ICase { id: 49, imm: 0, a: a.clone(), b: vec![], r: st2(_mm256_set_epi64x(q[3] as i64, q[2] as i64, q[1] as i64, q[0] as i64)) });
        out.push(ICase { id: 51, imm: 0, a: a.clone(), b: vec![], r: st(_mm256_extracti128_si256::<0>(ld2(a))) });
        out.push(ICase { id: 51, imm: 1, a: a.clone(), b: vec![], r: st(_mm256_extracti128_si256::<1>(ld2(a))) });
    }
    for (a, b) in &bin32 {
        out.push(ICase { id: 52, imm: 0, a: a.clone(), b: b[..16].to_vec(), r: st2(_mm256_inserti128_si256::<0>(ld2(a), ld(&b[..16]))) });
        out.push(ICase { id: 52, imm: 1, a: a.clone(), b: b[16..].to_vec(), r: st2(_mm256_inserti128_si256::<1>(ld2(a), ld(&b[16..]))) });
    }
    for (a, b) in &bin16 {
        out.push(ICase { id: 53, imm: 0, a: a.clone(), b: b.clone(), r: st2(_mm256_setr_m128i(ld(a), ld(b))) });
    }
    macro_rules! perm {
        ([$($i:literal),*]) => {
            $(for (a, b) in bin32.iter().take(30) {
                out.push(ICase { id: 54, imm: $i as u64, a: a.clone(), b: b.clone(), r: st2(_mm256_permute2x128_si256::<$i>(ld2(a), ld2(b))) });
            })*
        };
    }
    perm!([0x20, 0x31, 0x00, 0x11, 0x02, 0x13, 0x30, 0x21, 0x12, 0x03, 0x23, 0x32, 0x08, 0x80, 0x88, 0x28, 0x81, 0x3a, 0xf7, 0x64]);
}

// ---------------------------------------------------------------------------
fn finish(cx: Cx, out: &str, shards: usize, sub: &str, quick: bool, which: &str, light: u64) {
    let coq: Vec<String> = cx.cases.iter().map(|c| c.coq()).collect();
    write_shards(out, shards, "From Coq Require Import NArith List Uint63.\nFrom CC Require Import Run.Runner Run.Ppv.", "pxcase", "run_px", &coq);
    let all: Vec<String> = cx.cases.iter().map(|c| c.json()).collect();
    std::fs::write(format!("{}/cases.json", out), format!("[{}]", all.join(",\n"))).unwrap();
    let n = cx.cases.len();
    let mut samples: Vec<String> = Vec::new();
    for i in [n / 7, n / 3, n / 2, n.saturating_sub(1)] {
        if i < n {
            samples.push(cx.cases[i].json());
        }
    }
    let mut ops: std::collections::BTreeMap<String, usize> = Default::default();
    for c in &cx.cases {
        let name = match c.op {
            31 | 32 | 33 | 34 | 35 | 42 | 43 => op_name(c.op, 0).split('(').next().unwrap_or("").trim().to_string(),
            _ => op_name(c.op, c.k),
        };
        *ops.entry(name).or_default() += 1;
    }
    let opmix: Vec<String> = ops.iter().map(|(k, v)| format!("{}:{}", jstr(k), v)).collect();
    let pt: Vec<String> = (0..13).filter(|&t| cx.per_type[t] > 0).map(|t| format!("{}:{}", jstr(ty_name(t as u32)), cx.per_type[t])).collect();
    let pm: Vec<String> = (0..7).filter(|&t| cx.per_mach[t] > 0).map(|t| format!("{}:{}", jstr(MACH[t]), cx.per_mach[t])).collect();
    println!(
        "{{\"evaluations\":{},\"distinct_nontrivial\":{},\"direct_failures\":[],\"samples\":[{}],\"sub\":{},\"machines\":{},\"profile\":{},\"tier_quick\":{},\"light\":{},\"outcome_panic\":{},\"per_machine\":{{{}}},\"per_type\":{{{}}},\"op_mix\":{{{}}}}}",
        n,
        cx.distinct.len(),
        samples.join(","),
        jstr(sub),
        jstr(which),
        jstr(if cfg!(debug_assertions) { "debug" } else { "release" }),
        quick,
        light,
        cx.panics,
        pm.join(","),
        pt.join(","),
        opmix.join(",")
    );
}

fn finish_intr(cases: Vec<ICase>, out: &str, shards: usize, quick: bool) {
    let coq: Vec<String> = cases.iter().map(|c| c.coq()).collect();
    write_shards(out, shards, "From Coq Require Import NArith List Uint63.\nFrom CC Require Import Run.Runner Run.Ppv.", "picase", "run_pi", &coq);
    let all: Vec<String> = cases.iter().map(|c| c.json()).collect();
    std::fs::write(format!("{}/cases.json", out), format!("[{}]", all.join(",\n"))).unwrap();
    let n = cases.len();
    let mut distinct: HashSet<(u32, u64, Vec<u8>, Vec<u8>)> = HashSet::new();
    let mut per: std::collections::BTreeMap<&'static str, usize> = Default::default();
    for c in &cases {
        if c.a.iter().chain(c.b.iter()).any(|&v| v != 0) || c.imm != 0 {
            distinct.insert((c.id, c.imm, c.a.clone(), c.b.clone()));
        }
        *per.entry(intr_name(c.id)).or_default() += 1;
    }
    let mut samples: Vec<String> = Vec::new();
    for i in [n / 7, n / 3, n / 2, n.saturating_sub(1)] {
        if i < n {
            samples.push(cases[i].json());
        }
    }
    let pi: Vec<String> = per.iter().map(|(k, v)| format!("{}:{}", jstr(k), v)).collect();
    println!(
        "{{\"evaluations\":{},\"distinct_nontrivial\":{},\"direct_failures\":[],\"samples\":[{}],\"sub\":\"intr\",\"tier_quick\":{},\"per_intrinsic\":{{{}}}}}",
        n,
        distinct.len(),
        samples.join(","),
        quick,
        pi.join(",")
    );
}

fn repro() {
    unsafe {
        // P1
        let m = AVX2::instance();
        let x: <AVX2 as Machine>::u32x4x2 = m.read_le(&[0u8; 32]);
        let mut out = [0u8; 32];
        (!x).write_le(&mut out);
        println!("P1 avx2 !0 (u32x4x2) = {}", util::hex(&out));
        // P2
        let m = SSE2::instance();
        let x: <SSE2 as Machine>::u64x2 = m.vec([0x0123456789abcdefu64, 0]);
        println!("P2 sse2 u64x2 rotr16 = {:016x?} expected {:016x}", x.rotate_each_word_right16().to_lanes(), 0x0123456789abcdefu64.rotate_right(16));
        // P3
        let st = vec128_storage::from([0x03020100u32, 0x07060504, 0x0b0a0908, 0x0f0e0d0c]);
        let x: <SSE2 as Machine>::u128x1 = m.unpack(st);
        let y: [u128; 1] = vec128_storage::from(x.rotate_each_word_right8()).into();
        let x0: [u128; 1] = st.into();
        println!("P3 sse2 u128x1 rotr8 = {:032x} expected {:032x}", y[0], x0[0].rotate_right(8));
        // P4
        let r = catch_unwind(|| {
            let m = SSE2::instance();
            let x: <SSE2 as Machine>::u128x1 = m.vec([5u128]);
            x.to_lanes()
        });
        println!("P4 sse2 u128x1 from_lanes/to_lanes: {:?}", r.is_ok());
        // P5
        let r = catch_unwind(|| {
            let m = SSE2::instance();
            let x: <SSE2 as Machine>::u128x1 = m.unpack(vec128_storage::default());
            let _ = x.bswap();
        });
        println!("P5 sse2 u128x1 bswap ok: {:?}", r.is_ok());
        // P14
        let m = SSSE3::instance();
        let x: <SSSE3 as Machine>::u128x1 = m.unpack(st);
        let y: [u128; 1] = vec128_storage::from(x.bswap()).into();
        println!("P14 ssse3 u128x1 bswap = {:032x} expected {:032x}", y[0], x0[0].swap_bytes());
        let _ = SSE41::instance();
        let _ = AVX::instance();
    }
}

fn main() {
    let argv: Vec<String> = std::env::args().collect();
    if argv.len() < 2 {
        eprintln!("usage: h_ppv c12|c13|intr|repro [--seed n --shards n --out dir --tier quick|thorough --light 0|2 --machine all|SSE2,SSSE3:l,...]");
        std::process::exit(2);
    }
    if !(is_x86_feature_detected!("avx2") && is_x86_feature_detected!("sse4.1") && is_x86_feature_detected!("ssse3")) {
        eprintln!("h_ppv needs an AVX2 host to run all five back ends");
        std::process::exit(3);
    }
    std::panic::set_hook(Box::new(|_| {}));
    let a = Args::parse(&argv[2..]);
    let seed = a.u64("seed", 1);
    let shards = a.u64("shards", 16) as usize;
    let out = a.str("out", "/verif/_build/work/ppv_manual");
    let quick = a.str("tier", "quick") == "quick";
    let which = a.str("machine", "all");
    let light2 = a.u64("light", 0) >= 2;
    let mut g = Gen { rng: Rng::new(seed ^ 0x86), quick, nrand: a.u64("nrand", if light2 { 2 } else if quick { 3 } else { 24 }) as usize, light: false, light2 };
    let mut cx = Cx::new();
    match argv[1].as_str() {
        "c12" => {
            each_machine(&mut cx, &mut g, &which, 12);
            finish(cx, &out, shards, "c12", quick, &which, a.u64("light", 0));
        }
        "c13" => {
            each_machine(&mut cx, &mut g, &which, 13);
            finish(cx, &out, shards, "c13", quick, &which, a.u64("light", 0));
        }
        "intr" => {
            let mut cases = Vec::new();
            unsafe { intr_cases(&mut g, &mut cases) };
            finish_intr(cases, &out, shards, quick);
        }
        "repro" => repro(),
        other => {
            eprintln!("unknown subcommand {}", other);
            std::process::exit(2);
        }
    }
}
