#![allow(dead_code, deprecated)]
//! C16 — byte-slice APIs under guard pages.
//!
//! A region of `PAGES` pages is mapped between two `PROT_NONE` pages. Every API that takes a
//! byte slice is called on a slice placed `a` bytes after the first mapped byte (`head`) or
//! ending `a` bytes before the last mapped byte (`tail`), a = 0..63; for a = 0 the slice abuts an
//! unmapped page. The rest of the mapped region holds a canary pattern that must be unchanged
//! afterwards. Every case also runs on an ordinary 64-byte aligned heap buffer; result, slice
//! content afterwards and ok/panic outcome must be equal (`direct_failures` otherwise). All
//! cases run in forked child processes: a SIGSEGV/SIGBUS/SIGILL/SIGALRM is a reported outcome of
//! the case that was running and the run continues behind it.
//!
//! For the Coq side a sample of cases is written as `memcase` records (window of memory before
//! and after the call, offset, length, oracle bytes taken from the aligned run) that
//! `Run/SliceApi.v` re-computes with the window model of `Model/SliceApi.v`.
#[path = "../util.rs"]
mod util;
use util::*;

use cipher::generic_array::GenericArray;
use cipher::{BlockDecrypt, BlockEncrypt, NewBlockCipher, NewCipher, StreamCipher, StreamCipherSeek};
use digest::generic_array::typenum::{U128, U32, U64};
use digest::{FixedOutput, Update};
use ppv_lite86::Machine;
use ppv_lite86::StoreBytes;
use std::collections::{BTreeMap, BTreeSet, HashSet};
use std::panic::{catch_unwind, AssertUnwindSafe};

const PAGE: usize = 4096;

// ---------------------------------------------------------------------------------------------
// guarded arena
// ---------------------------------------------------------------------------------------------

struct Arena {
    raw: *mut u8,
    base: *mut u8,
    size: usize,
}

impl Arena {
    fn new(pages: usize) -> Arena {
        unsafe {
            let total = (pages + 2) * PAGE;
            let raw = libc::mmap(
                std::ptr::null_mut(),
                total,
                libc::PROT_READ | libc::PROT_WRITE,
                libc::MAP_PRIVATE | libc::MAP_ANONYMOUS,
                -1,
                0,
            );
            assert!(raw != libc::MAP_FAILED, "mmap failed");
            let raw = raw as *mut u8;
            assert_eq!(libc::mprotect(raw as *mut _, PAGE, libc::PROT_NONE), 0);
            assert_eq!(libc::mprotect(raw.add((pages + 1) * PAGE) as *mut _, PAGE, libc::PROT_NONE), 0);
            Arena { raw, base: raw.add(PAGE), size: pages * PAGE }
        }
    }
    fn all(&self) -> &mut [u8] {
        unsafe { std::slice::from_raw_parts_mut(self.base, self.size) }
    }
}

#[inline]
fn canary(i: usize) -> u8 {
    ((i as u32).wrapping_mul(167).wrapping_add(0x3b) as u8) ^ 0x5a
}

/// 64-byte aligned ordinary heap buffer
struct Aligned {
    v: Vec<u8>,
    off: usize,
    len: usize,
}
impl Aligned {
    fn new(data: &[u8]) -> Aligned {
        let v = vec![0u8; data.len() + 64];
        let off = (64 - (v.as_ptr() as usize % 64)) % 64;
        let mut a = Aligned { v, off, len: data.len() };
        a.slice().copy_from_slice(data);
        a
    }
    fn slice(&mut self) -> &mut [u8] {
        let (o, l) = (self.off, self.len);
        &mut self.v[o..o + l]
    }
}

// ---------------------------------------------------------------------------------------------
// API table
// ---------------------------------------------------------------------------------------------

#[derive(Clone, Copy, PartialEq, Eq, Debug)]
enum Kind {
    InOut,
    In,
    Out,
}

/// how `Run/SliceApi.v` recomputes the slice content after the call
#[derive(Clone, Copy, PartialEq, Eq)]
enum CoqKind {
    Xor,        // data xor key stream (chunked model), oracle = key stream from the aligned run on zeros
    Copy,       // payload = oracle
    Bswap(u64), // payload = oracle with every w-byte word reversed
    ReadOnly,   // memory unchanged
}

type F = Box<dyn Fn(&mut [u8], usize) -> Vec<u8>>;
type AuxF = Box<dyn Fn(usize, usize) -> Vec<u8>>;

struct Api {
    name: String,
    family: &'static str,
    kind: Kind,
    fixed: Option<usize>,
    pres: Vec<usize>,
    coq: CoqKind,
    f: F,
    aux: Option<AuxF>,
}

fn pattern(n: usize, salt: u64) -> Vec<u8> {
    let mut r = Rng::new(0x6d656d ^ salt.wrapping_mul(0x9e3779b97f4a7c15));
    let mut v = vec![0u8; n];
    r.fill(&mut v);
    v
}

const KEY: [u8; 32] = [
    0x80, 0x81, 0x82, 0x83, 0x84, 0x85, 0x86, 0x87, 0x88, 0x89, 0x8a, 0x8b, 0x8c, 0x8d, 0x8e, 0x8f, 0x90, 0x91, 0x92,
    0x93, 0x94, 0x95, 0x96, 0x97, 0x98, 0x99, 0x9a, 0x9b, 0x9c, 0x9d, 0x9e, 0x9f,
];
const NONCE: [u8; 24] = [
    0x07, 0, 0, 0, 0x40, 0x41, 0x42, 0x43, 0x44, 0x45, 0x46, 0x47, 0x48, 0x49, 0x4a, 0x4b, 0x4c, 0x4d, 0x4e, 0x4f,
    0x50, 0x51, 0x52, 0x53,
];

/// position at which the key stream application starts for a given `pre` code
fn chacha_pos(pre: usize) -> usize {
    if pre >= 1000 {
        pre - 1000
    } else {
        pre
    }
}

fn chacha_apis<C>(name: &str, apis: &mut Vec<Api>)
where
    C: NewCipher<KeySize = U32> + StreamCipher + StreamCipherSeek + 'static,
{
    let nlen = <C as NewCipher>::NonceSize::to_usize_();
    // pre < 1000: `pre` bytes of key stream are consumed first (buffered tail of a block is used
    // first); pre >= 1000: try_seek(pre - 1000) (lazy refill path)
    let mk = move |pre: usize| -> C {
        let mut c = C::new(GenericArray::from_slice(&KEY), GenericArray::from_slice(&NONCE[..nlen]));
        if pre >= 1000 {
            c.try_seek((pre - 1000) as u64).unwrap();
        } else if pre > 0 {
            let mut p = vec![0u8; pre];
            c.try_apply_keystream(&mut p).unwrap();
        }
        c
    };
    apis.push(Api {
        name: format!("{}::apply_keystream", name),
        family: "chacha",
        kind: Kind::InOut,
        fixed: None,
        pres: vec![0, 37, 1005],
        coq: CoqKind::Xor,
        f: Box::new(move |s, pre| {
            let mut c = mk(pre);
            vec![c.try_apply_keystream(s).is_ok() as u8]
        }),
        aux: None,
    });
    apis.push(Api {
        name: format!("{}::new(key)", name),
        family: "chacha",
        kind: Kind::In,
        fixed: Some(32),
        pres: vec![0],
        coq: CoqKind::ReadOnly,
        f: Box::new(move |s, _| {
            let mut c = C::new(GenericArray::from_slice(s), GenericArray::from_slice(&NONCE[..nlen]));
            let mut o = vec![0u8; 64];
            c.try_apply_keystream(&mut o).unwrap();
            o
        }),
        aux: None,
    });
    apis.push(Api {
        name: format!("{}::new(nonce)", name),
        family: "chacha",
        kind: Kind::In,
        fixed: Some(nlen),
        pres: vec![0],
        coq: CoqKind::ReadOnly,
        f: Box::new(move |s, _| {
            let mut c = C::new(GenericArray::from_slice(&KEY), GenericArray::from_slice(s));
            let mut o = vec![0u8; 64];
            c.try_apply_keystream(&mut o).unwrap();
            o
        }),
        aux: None,
    });
}

trait ToUsize {
    fn to_usize_() -> usize;
}
impl<T: digest::generic_array::typenum::Unsigned> ToUsize for T {
    fn to_usize_() -> usize {
        T::USIZE
    }
}

fn hash_apis<H>(name: &str, apis: &mut Vec<Api>)
where
    H: Update + FixedOutput + Default + 'static,
{
    let osz = <H as FixedOutput>::OutputSize::to_usize_();
    apis.push(Api {
        name: format!("{}::update", name),
        family: "hash",
        kind: Kind::In,
        fixed: None,
        // 0: block-aligned data goes to the compression function straight from the caller's
        // slice; 3: through the block buffer
        pres: vec![0, 3],
        coq: CoqKind::ReadOnly,
        f: Box::new(move |s, pre| {
            let mut h = H::default();
            if pre > 0 {
                h.update(&pattern(pre, 0x11));
            }
            h.update(&*s);
            h.finalize_fixed().to_vec()
        }),
        aux: None,
    });
    apis.push(Api {
        name: format!("{}::finalize_into", name),
        family: "hash",
        kind: Kind::Out,
        fixed: Some(osz),
        pres: vec![0, 57, 130],
        coq: CoqKind::Copy,
        f: Box::new(move |s, pre| {
            let mut h = H::default();
            h.update(&pattern(pre, 0x12));
            h.finalize_into(GenericArray::from_mut_slice(s));
            vec![]
        }),
        aux: None,
    });
}

fn tf_apis(apis: &mut Vec<Api>) {
    use threefish_cipher::{Threefish1024, Threefish256, Threefish512};
    macro_rules! tf {
        ($t:ident, $n:expr) => {{
            let key = pattern($n, 0x7f);
            let (t0, t1) = (0x0706050403020100u64, 0x0f0e0d0c0b0a0908u64);
            let k1 = key.clone();
            apis.push(Api {
                name: format!("{}::encrypt_block", stringify!($t)),
                family: "threefish",
                kind: Kind::InOut,
                fixed: Some($n),
                pres: vec![0],
                coq: CoqKind::Copy,
                f: Box::new(move |s, _| {
                    let c = $t::with_tweak(GenericArray::from_slice(&k1), t0, t1);
                    c.encrypt_block(GenericArray::from_mut_slice(s));
                    vec![]
                }),
                aux: None,
            });
            let k2 = key.clone();
            apis.push(Api {
                name: format!("{}::decrypt_block", stringify!($t)),
                family: "threefish",
                kind: Kind::InOut,
                fixed: Some($n),
                pres: vec![0],
                coq: CoqKind::Copy,
                f: Box::new(move |s, _| {
                    let c = $t::with_tweak(GenericArray::from_slice(&k2), t0, t1);
                    c.decrypt_block(GenericArray::from_mut_slice(s));
                    vec![]
                }),
                aux: None,
            });
            apis.push(Api {
                name: format!("{}::new(key)", stringify!($t)),
                family: "threefish",
                kind: Kind::In,
                fixed: Some($n),
                pres: vec![0],
                coq: CoqKind::ReadOnly,
                f: Box::new(move |s, _| {
                    let c = <$t as NewBlockCipher>::new(GenericArray::from_slice(s));
                    let mut b = GenericArray::clone_from_slice(&pattern($n, 0x7e));
                    c.encrypt_block(&mut b);
                    b.to_vec()
                }),
                aux: None,
            });
        }};
    }
    tf!(Threefish256, 32);
    tf!(Threefish512, 64);
    tf!(Threefish1024, 128);
}

/// `StoreBytes` of one vector type: the length the slice must have is the vector size; other lengths
/// must panic (length assertion) without touching memory outside
macro_rules! sb_ty {
    ($apis:expr, $m:expr, $mname:expr, $V:ty, $vn:expr, $size:expr, $w:expr) => {{
        let m = $m;
        $apis.push(Api {
            name: format!("{}::{}::read_le", $mname, $vn),
            family: "storebytes",
            kind: Kind::In,
            fixed: Some($size),
            pres: vec![0],
            coq: CoqKind::ReadOnly,
            f: Box::new(move |s, _| {
                let v: $V = m.read_le(s);
                let mut o = vec![0u8; $size];
                v.write_le(&mut o);
                o
            }),
            aux: None,
        });
        $apis.push(Api {
            name: format!("{}::{}::read_be", $mname, $vn),
            family: "storebytes",
            kind: Kind::In,
            fixed: Some($size),
            pres: vec![0],
            coq: CoqKind::ReadOnly,
            f: Box::new(move |s, _| {
                let v: $V = m.read_be(s);
                let mut o = vec![0u8; $size];
                v.write_le(&mut o);
                o
            }),
            aux: None,
        });
        $apis.push(Api {
            name: format!("{}::{}::write_le", $mname, $vn),
            family: "storebytes",
            kind: Kind::Out,
            fixed: Some($size),
            pres: vec![0],
            coq: CoqKind::Copy,
            f: Box::new(move |s, _| {
                let v: $V = m.read_le(&pattern($size, 0x51));
                v.write_le(s);
                vec![]
            }),
            aux: Some(Box::new(|_, _| pattern($size, 0x51))),
        });
        $apis.push(Api {
            name: format!("{}::{}::write_be", $mname, $vn),
            family: "storebytes",
            kind: Kind::Out,
            fixed: Some($size),
            pres: vec![0],
            coq: CoqKind::Bswap($w),
            f: Box::new(move |s, _| {
                let v: $V = m.read_le(&pattern($size, 0x52));
                v.write_be(s);
                vec![]
            }),
            aux: Some(Box::new(|_, _| pattern($size, 0x52))),
        });
    }};
}

/// the five vector types whose `StoreBytes` the Machine bounds promise
fn sb_apis<M: Machine + 'static>(m: M, mname: &str, apis: &mut Vec<Api>) {
    sb_ty!(apis, m, mname, M::u32x4, "u32x4", 16, 4);
    sb_ty!(apis, m, mname, M::u32x4x2, "u32x4x2", 32, 4);
    sb_ty!(apis, m, mname, M::u64x2x2, "u64x2x2", 32, 8);
    sb_ty!(apis, m, mname, M::u64x4, "u64x4", 32, 8);
    sb_ty!(apis, m, mname, M::u32x4x4, "u32x4x4", 64, 4);
}
/// `StoreBytes` impls beyond the Machine bounds that both back-end families have (the x2/x4
/// wrappers of soft.rs forward to them; they are also callable directly)
fn sb_apis_more<M: Machine + 'static>(m: M, mname: &str, apis: &mut Vec<Api>)
where
    M::u64x2: StoreBytes,
    M::u64x2x4: StoreBytes,
{
    sb_ty!(apis, m, mname, M::u64x2, "u64x2", 16, 8);
    sb_ty!(apis, m, mname, M::u64x2x4, "u64x2x4", 64, 8);
}
/// ... and those only the x86 types have (u128x1_generic has no StoreBytes)
fn sb_apis_u128<M: Machine + 'static>(m: M, mname: &str, apis: &mut Vec<Api>)
where
    M::u128x1: StoreBytes,
    M::u128x2: StoreBytes,
    M::u128x4: StoreBytes,
{
    sb_ty!(apis, m, mname, M::u128x1, "u128x1", 16, 16);
    sb_ty!(apis, m, mname, M::u128x2, "u128x2", 32, 16);
    sb_ty!(apis, m, mname, M::u128x4, "u128x4", 64, 16);
}

fn build_apis(families: &HashSet<String>) -> Vec<Api> {
    let mut apis = Vec::new();
    let want = |f: &str| families.is_empty() || families.contains(f);
    if want("chacha") {
        use c2_chacha::{ChaCha12, ChaCha20, ChaCha8, Ietf, XChaCha12, XChaCha20, XChaCha8};
        chacha_apis::<ChaCha8>("ChaCha8", &mut apis);
        chacha_apis::<ChaCha12>("ChaCha12", &mut apis);
        chacha_apis::<ChaCha20>("ChaCha20", &mut apis);
        chacha_apis::<Ietf>("Ietf", &mut apis);
        chacha_apis::<XChaCha8>("XChaCha8", &mut apis);
        chacha_apis::<XChaCha12>("XChaCha12", &mut apis);
        chacha_apis::<XChaCha20>("XChaCha20", &mut apis);
    }
    if want("hash") {
        use blake_hash::{Blake224, Blake256, Blake384, Blake512};
        use groestl_aesni::{Groestl224, Groestl256, Groestl384, Groestl512};
        use jh_x86_64::{Jh224, Jh256, Jh384, Jh512};
        use skein_hash::{Skein1024, Skein256, Skein512};
        hash_apis::<Groestl224>("Groestl224", &mut apis);
        hash_apis::<Groestl256>("Groestl256", &mut apis);
        hash_apis::<Groestl384>("Groestl384", &mut apis);
        hash_apis::<Groestl512>("Groestl512", &mut apis);
        hash_apis::<Jh224>("Jh224", &mut apis);
        hash_apis::<Jh256>("Jh256", &mut apis);
        hash_apis::<Jh384>("Jh384", &mut apis);
        hash_apis::<Jh512>("Jh512", &mut apis);
        hash_apis::<Blake224>("Blake224", &mut apis);
        hash_apis::<Blake256>("Blake256", &mut apis);
        hash_apis::<Blake384>("Blake384", &mut apis);
        hash_apis::<Blake512>("Blake512", &mut apis);
        hash_apis::<Skein256<U32>>("Skein256<U32>", &mut apis);
        hash_apis::<Skein512<U64>>("Skein512<U64>", &mut apis);
        hash_apis::<Skein1024<U128>>("Skein1024<U128>", &mut apis);
    }
    if want("threefish") {
        tf_apis(&mut apis);
    }
    if want("storebytes") {
        #[cfg(not(feature = "no_simd"))]
        unsafe {
            use ppv_lite86::x86_64::{AVX2, SSE2, SSE41, SSSE3};
            macro_rules! all3 {
                ($M:ident, $n:expr) => {{
                    sb_apis($M::instance(), $n, &mut apis);
                    sb_apis_more($M::instance(), $n, &mut apis);
                    sb_apis_u128($M::instance(), $n, &mut apis);
                }};
            }
            all3!(SSE2, "SSE2");
            if is_x86_feature_detected!("ssse3") {
                all3!(SSSE3, "SSSE3");
            }
            if is_x86_feature_detected!("sse4.1") {
                all3!(SSE41, "SSE41/AVX");
            }
            if is_x86_feature_detected!("avx2") {
                all3!(AVX2, "AVX2");
            }
        }
        #[cfg(feature = "no_simd")]
        unsafe {
            use ppv_lite86::generic::GenericMachine;
            sb_apis(GenericMachine::instance(), "Generic", &mut apis);
            sb_apis_more(GenericMachine::instance(), "Generic", &mut apis);
        }
    }
    apis
}

// ---------------------------------------------------------------------------------------------
// cases
// ---------------------------------------------------------------------------------------------

#[derive(Clone, Copy, PartialEq, Eq, Hash, Debug)]
struct Case {
    api: usize,
    tail: bool,
    a: usize,
    len: usize,
    pre: usize,
}

impl Case {
    fn off(&self, size: usize) -> usize {
        if self.tail {
            size - self.a - self.len
        } else {
            self.a
        }
    }
    fn json(&self, apis: &[Api], size: usize, outcome: &str) -> String {
        format!(
            "{{\"api\":{},\"placement\":{},\"a\":{},\"len\":{},\"pre\":{},\"start_mod_64\":{},\"end_mod_64\":{},\"abuts_unmapped\":{},\"outcome\":{}}}",
            jstr(&apis[self.api].name),
            jstr(if self.tail { "tail" } else { "head" }),
            self.a,
            self.len,
            self.pre,
            self.off(size) % 64,
            (self.off(size) + self.len) % 64,
            self.a == 0,
            jstr(outcome)
        )
    }
}

fn gen_cases(apis: &[Api], quick: bool, nalign: usize) -> Vec<Case> {
    let classes: Vec<usize> = if quick {
        vec![0, 1, 15, 16, 17, 63, 64, 65, 127, 128, 129, 255, 256, 257, 511, 512, 513, 1000, 1024]
    } else {
        vec![0, 1, 15, 16, 17, 31, 32, 33, 63, 64, 65, 127, 128, 129, 191, 192, 193, 255, 256, 257, 319, 320, 321,
             511, 512, 513, 767, 768, 769, 1000, 1023, 1024, 1025, 4095, 4096, 4097, 8000]
    };
    // sweeps at the guard pages: every length L + d, d = 0..63, so that the free end of the slice
    // (head placement) / its start (tail placement) takes every alignment while the other end
    // abuts the unmapped page
    let sweep_bases: Vec<usize> = if quick { vec![0, 64, 128, 192, 256, 448, 1000] } else { vec![0, 64, 128, 192, 256, 320, 448, 512, 704, 1000, 4032, 4096] };
    // quick tier, large inputs (>= 2 KiB: batching / prefetching code would first show here; 4096 and 4097
    // span a whole page and cross the page boundary inside the mapped region): a thinned set of
    // placements (both ends of the alignment range and the 16/32-byte boundaries) ...
    let big_classes: Vec<usize> = if quick { vec![2048, 4096, 4097] } else { vec![] };
    let big_aligns: [usize; 8] = [0, 1, 15, 16, 31, 32, 33, 63];
    // ... and one sweep 4032..4095 ending at the last mapped byte (the start takes every alignment)
    let tail_sweep_bases: Vec<usize> = if quick { vec![4032] } else { vec![] };
    // Added after the mutation campaign (M27: an over-read guarded by `data.len() >= 8192` was invisible, the lengths
    // stopped at 4097): 8 KiB, 16 KiB + 1 and 64 KiB for every variable-length API, only with the slice ENDING a bytes
    // before the unmapped page (a = 0 abuts it), a in {0, 1, 63}. These cases live in the second, 17-page arena.
    let huge_classes: [usize; 3] = [8192, 16385, 65536];
    let huge_aligns: [usize; 3] = [0, 1, 63];
    let mut seen = HashSet::new();
    let mut out = Vec::new();
    let mut push = |c: Case, out: &mut Vec<Case>| {
        if seen.insert(c) {
            out.push(c);
        }
    };
    for (i, api) in apis.iter().enumerate() {
        for &pre in &api.pres {
            match api.fixed {
                None => {
                    for tail in [false, true] {
                        for a in 0..nalign {
                            for &len in &classes {
                                push(Case { api: i, tail, a, len, pre }, &mut out);
                            }
                        }
                        for &b in &sweep_bases {
                            for d in 0..64 {
                                push(Case { api: i, tail, a: 0, len: b + d, pre }, &mut out);
                            }
                        }
                        for &len in &big_classes {
                            for &a in big_aligns.iter().filter(|&&a| a < nalign.max(1)) {
                                push(Case { api: i, tail, a, len, pre }, &mut out);
                            }
                        }
                        if tail {
                            for &b in &tail_sweep_bases {
                                for d in 0..64 {
                                    push(Case { api: i, tail, a: 0, len: b + d, pre }, &mut out);
                                }
                            }
                            for &len in &huge_classes {
                                for &a in huge_aligns.iter().filter(|&&a| a < nalign.max(1)) {
                                    push(Case { api: i, tail, a, len, pre }, &mut out);
                                }
                            }
                        }
                    }
                }
                Some(n) => {
                    for tail in [false, true] {
                        for a in 0..nalign {
                            push(Case { api: i, tail, a, len: n, pre }, &mut out);
                        }
                        // wrong lengths: the explicit length assertion must fire (panic) before any
                        // access; GenericArray::from_slice asserts likewise
                        for a in [0usize, 1, 7] {
                            for len in [0usize, n - 1, n + 1, 2 * n] {
                                push(Case { api: i, tail, a, len, pre }, &mut out);
                            }
                        }
                    }
                }
            }
        }
    }
    out
}

// ---------------------------------------------------------------------------------------------
// one case
// ---------------------------------------------------------------------------------------------

enum Res {
    Ok,
    OkEmit(String, String), // Coq term, json
    Fail(String),           // outcome text
}

/// Pages of the second arena (cases that do not fit the small one): 65536 + 63 bytes need 17.
const HUGE_PAGES: usize = 17;

/// The arena a case is placed in: the small one whenever the slice fits it (so every older case keeps its
/// placement and its cost: the whole arena is painted and inspected per case), the 17-page one otherwise.
struct Arenas {
    small: Arena,
    huge: Arena,
}

impl Arenas {
    fn of(&self, c: &Case) -> &Arena {
        if c.a + c.len <= self.small.size {
            &self.small
        } else {
            &self.huge
        }
    }
}

fn run_one(arenas: &Arenas, apis: &[Api], c: &Case, idx: usize, emit: bool) -> Res {
    let arena = arenas.of(c);
    let api = &apis[c.api];
    let size = arena.size;
    let input = match api.kind {
        Kind::Out => vec![0xEEu8; c.len],
        _ => pattern(c.len, (idx as u64) << 8 | 1),
    };
    // reference: ordinary aligned heap buffer
    let mut rb = Aligned::new(&input);
    let ref_ret = catch_unwind(AssertUnwindSafe(|| (api.f)(rb.slice(), c.pre))).ok();
    let ref_after = rb.slice().to_vec();
    // arena
    let all = arena.all();
    for (i, b) in all.iter_mut().enumerate() {
        *b = canary(i);
    }
    let off = c.off(size);
    all[off..off + c.len].copy_from_slice(&input);
    let (w0, w1) = (off.saturating_sub(24), (off + c.len + 24).min(size));
    let before: Vec<u8> = if emit { all[w0..w1].to_vec() } else { Vec::new() };
    let s = unsafe { std::slice::from_raw_parts_mut(arena.base.add(off), c.len) };
    let ret = catch_unwind(AssertUnwindSafe(|| (api.f)(s, c.pre))).ok();
    let all = arena.all();
    // writes only inside the slice
    for i in (0..off).chain(off + c.len..size) {
        if all[i] != canary(i) {
            return Res::Fail(format!(
                "memory outside the slice was modified at slice offset {} (mapped offset {})",
                i as i64 - off as i64,
                i
            ));
        }
    }
    if api.kind == Kind::In && all[off..off + c.len] != input[..] {
        return Res::Fail("input slice was modified".into());
    }
    // a call with a valid length must not panic at any placement: a bounds-check panic is the
    // language stopping an access outside the slice
    let wrong_len = api.fixed.map_or(false, |n| n != c.len);
    if ret.is_none() && ref_ret.is_none() && !wrong_len {
        return Res::Fail("panic on a slice of valid length (also on the aligned buffer)".into());
    }
    match (&ret, &ref_ret) {
        (None, Some(_)) => return Res::Fail("panic (aligned buffer: ok)".into()),
        (Some(_), None) => return Res::Fail("ok (aligned buffer: panic)".into()),
        (Some(x), Some(y)) if x != y => {
            return Res::Fail(format!("result differs from the aligned-buffer result: {} vs {}", hex(x), hex(y)))
        }
        _ => {}
    }
    if all[off..off + c.len] != ref_after[..] {
        return Res::Fail(format!(
            "slice content differs from the aligned-buffer run: {} vs {}",
            hex(&all[off..off + c.len]),
            hex(&ref_after)
        ));
    }
    if !emit {
        return Res::Ok;
    }
    // Coq window case. oracle bytes:
    let (kind, w, aux, have): (u64, u64, Vec<u8>, usize) = if ret.is_none() {
        // panicked (length assertion): nothing may have changed outside; the slice itself is
        // whatever the aligned run left
        (1, 0, ref_after.clone(), 0)
    } else {
        match api.coq {
            CoqKind::Xor => {
                let mut z = Aligned::new(&vec![0u8; c.len]);
                let _ = (api.f)(z.slice(), c.pre);
                (0, 0, z.slice().to_vec(), (64 - chacha_pos(c.pre) % 64) % 64)
            }
            CoqKind::Copy => (1, 0, api.aux.as_ref().map(|g| g(c.len, c.pre)).unwrap_or_else(|| ref_after.clone()), 0),
            CoqKind::Bswap(w) => (2, w, api.aux.as_ref().map(|g| g(c.len, c.pre)).unwrap(), 0),
            CoqKind::ReadOnly => (3, 0, Vec::new(), 0),
        }
    };
    let after = all[w0..w1].to_vec();
    let coq = format!(
        "MC {} {} {} {} {} {} {} {} {}",
        kind,
        w,
        off - w0,
        c.len,
        w1 - w0,
        nlit(&before),
        nlit(&after),
        nlit(&aux),
        have
    );
    let js = format!(
        "{{\"api\":{},\"placement\":{},\"a\":{},\"len\":{},\"pre\":{},\"kind\":{},\"window_offset\":{},\"before\":{},\"after\":{},\"oracle\":{}}}",
        jstr(&api.name),
        jstr(if c.tail { "tail" } else { "head" }),
        c.a,
        c.len,
        c.pre,
        kind,
        off - w0,
        jstr(&hex(&before)),
        jstr(&hex(&after)),
        jstr(&hex(&aux))
    );
    Res::OkEmit(coq, js)
}

// ---------------------------------------------------------------------------------------------
// child processes
// ---------------------------------------------------------------------------------------------

fn write_all(fd: i32, mut b: &[u8]) {
    while !b.is_empty() {
        let n = unsafe { libc::write(fd, b.as_ptr() as *const _, b.len()) };
        if n <= 0 {
            unsafe { libc::_exit(3) };
        }
        b = &b[n as usize..];
    }
}

fn signame(s: i32) -> String {
    let n = match s {
        libc::SIGSEGV => "SIGSEGV",
        libc::SIGBUS => "SIGBUS",
        libc::SIGILL => "SIGILL",
        libc::SIGALRM => "SIGALRM (timeout)",
        libc::SIGABRT => "SIGABRT",
        libc::SIGFPE => "SIGFPE",
        _ => "signal",
    };
    format!("{} ({})", n, s)
}

/// Runs cases[lo..hi) in forked children; returns per case (status text or None for ok, emitted case)
fn run_range(
    arena: &Arenas,
    apis: &[Api],
    cases: &[Case],
    emit: &[bool],
    level: u8,
    maxkills: usize,
) -> (Vec<Option<String>>, Vec<(usize, String, String)>, BTreeMap<String, usize>) {
    let mut outcome: Vec<Option<String>> = vec![None; cases.len()];
    let mut emitted = Vec::new();
    let mut signals: BTreeMap<String, usize> = BTreeMap::new();
    let mut next = 0usize;
    let mut kills = 0usize;
    while next < cases.len() {
        if kills >= maxkills {
            // enough evidence; keep the run time bounded on a badly broken tree
            *signals.entry(format!("not run after {} killed cases", kills)).or_insert(0) += cases.len() - next;
            break;
        }
        let mut fds = [0i32; 2];
        assert_eq!(unsafe { libc::pipe(fds.as_mut_ptr()) }, 0);
        let pid = unsafe { libc::fork() };
        assert!(pid >= 0, "fork failed");
        if pid == 0 {
            unsafe {
                libc::close(fds[0]);
                libc::alarm(600);
            }
            set_level(level);
            for i in next..cases.len() {
                let r = run_one(arena, apis, &cases[i], i, emit[i]);
                let mut frame = Vec::new();
                let (st, payload) = match r {
                    Res::Ok => (0u8, Vec::new()),
                    Res::OkEmit(c, j) => (1u8, [c.as_bytes(), &[0u8], j.as_bytes()].concat()),
                    Res::Fail(t) => (2u8, t.into_bytes()),
                };
                frame.push(st);
                frame.extend_from_slice(&(payload.len() as u32).to_le_bytes());
                frame.extend_from_slice(&payload);
                write_all(fds[1], &frame);
            }
            unsafe { libc::_exit(0) };
        }
        unsafe { libc::close(fds[1]) };
        // read everything the child sends
        let mut buf = Vec::new();
        let mut tmp = vec![0u8; 1 << 16];
        loop {
            let n = unsafe { libc::read(fds[0], tmp.as_mut_ptr() as *mut _, tmp.len()) };
            if n <= 0 {
                break;
            }
            buf.extend_from_slice(&tmp[..n as usize]);
        }
        unsafe { libc::close(fds[0]) };
        let mut status = 0i32;
        unsafe { libc::waitpid(pid, &mut status, 0) };
        // parse complete frames
        let mut p = 0usize;
        let mut done = 0usize;
        while p + 5 <= buf.len() {
            let st = buf[p];
            let l = u32::from_le_bytes([buf[p + 1], buf[p + 2], buf[p + 3], buf[p + 4]]) as usize;
            if p + 5 + l > buf.len() {
                break;
            }
            let payload = &buf[p + 5..p + 5 + l];
            let i = next + done;
            match st {
                1 => {
                    let z = payload.iter().position(|&b| b == 0).unwrap();
                    emitted.push((
                        i,
                        String::from_utf8_lossy(&payload[..z]).to_string(),
                        String::from_utf8_lossy(&payload[z + 1..]).to_string(),
                    ));
                }
                2 => outcome[i] = Some(String::from_utf8_lossy(payload).to_string()),
                _ => {}
            }
            done += 1;
            p += 5 + l;
        }
        let clean = libc::WIFEXITED(status) && libc::WEXITSTATUS(status) == 0;
        if clean && next + done == cases.len() {
            break;
        }
        // the child died while running case next+done
        let i = next + done;
        if i < cases.len() {
            let why = if libc::WIFSIGNALED(status) {
                signame(libc::WTERMSIG(status))
            } else {
                format!("child exited with status {}", libc::WEXITSTATUS(status))
            };
            *signals.entry(why.clone()).or_insert(0) += 1;
            outcome[i] = Some(format!("killed: {}", why));
            kills += 1;
        }
        next = i + 1;
    }
    (outcome, emitted, signals)
}

#[cfg(feature = "h1")]
fn set_level(l: u8) {
    ppv_lite86::x86_64::verif::set_level(l);
}
#[cfg(not(feature = "h1"))]
fn set_level(_l: u8) {}

fn mem(a: &Args) {
    let seed = a.u64("seed", 1);
    let shards = a.u64("shards", 16) as usize;
    let out = a.str("out", "/tmp/h_mem");
    let quick = a.u64("quick", 1) != 0;
    let level = a.u64("level", 0) as u8;
    let coqcases = a.u64("coqcases", 480) as usize;
    let nalign = a.u64("alignments", 64) as usize;
    let fams: HashSet<String> = a.str("families", "").split(',').filter(|s| !s.is_empty()).map(|s| s.to_string()).collect();
    let pages = if quick { 2 } else { 3 };
    std::panic::set_hook(Box::new(|_| {}));
    let arenas = Arenas { small: Arena::new(pages), huge: Arena::new(HUGE_PAGES) };
    let apis = build_apis(&fams);
    let cases = gen_cases(&apis, quick, nalign);
    // which cases go to Coq: an even stride over the cases that are short enough, rotated by the seed
    let eligible: Vec<usize> = (0..cases.len()).filter(|&i| cases[i].len <= 320).collect();
    let mut emit = vec![false; cases.len()];
    let mut sample_desc = String::from("{}");
    if coqcases > 0 && !eligible.is_empty() {
        let stride = (eligible.len() / coqcases).max(1);
        let rot = (seed as usize) % stride;
        sample_desc = format!(
            "{{\"eligible_cases_len_le_320\":{},\"stride\":{},\"rotation_seed_mod_stride\":{},\"note\":\"every guarded run is compared with the aligned run in the harness; only this even sub-sample is re-computed by the Coq window model\"}}",
            eligible.len(), stride, rot
        );
        for (k, &i) in eligible.iter().enumerate() {
            if k % stride == rot {
                emit[i] = true;
            }
        }
    }
    let (outcome, emitted, signals) = run_range(&arenas, &apis, &cases, &emit, level, a.u64("maxkills", 2000) as usize);

    let mut direct = Vec::new();
    let mut nfail = 0usize;
    let mut by_family: BTreeMap<&str, usize> = BTreeMap::new();
    let mut start_align: [BTreeSet<usize>; 2] = [BTreeSet::new(), BTreeSet::new()];
    let mut abut_start_align: [BTreeSet<usize>; 2] = [BTreeSet::new(), BTreeSet::new()];
    let mut lens: BTreeSet<usize> = BTreeSet::new();
    let mut placements: BTreeMap<&str, usize> = BTreeMap::new();
    let mut distinct = HashSet::new();
    for (i, c) in cases.iter().enumerate() {
        *by_family.entry(apis[c.api].family).or_insert(0) += 1;
        let t = c.tail as usize;
        let arena = arenas.of(c);
        start_align[t].insert(c.off(arena.size) % 64);
        if c.a == 0 {
            // alignment of the end that does not abut the guard page
            abut_start_align[t].insert(if c.tail { c.off(arena.size) % 64 } else { (c.off(arena.size) + c.len) % 64 });
        }
        lens.insert(c.len);
        let pk = match (c.tail, c.a == 0) {
            (false, true) => "starts_at_first_mapped_byte",
            (true, true) => "ends_at_last_mapped_byte",
            (false, false) => "head_plus_a",
            (true, false) => "tail_minus_a",
        };
        *placements.entry(pk).or_insert(0) += 1;
        if c.len > 0 {
            distinct.insert(*c);
        }
        if let Some(o) = &outcome[i] {
            nfail += 1;
            if direct.len() < 12 {
                direct.push(c.json(&apis, arena.size, o));
            }
        }
    }
    // Coq cases
    let coq: Vec<String> = emitted.iter().map(|e| e.1.clone()).collect();
    write_shards(
        &out,
        shards,
        "From Coq Require Import NArith List.\nFrom CC Require Import Run.Runner Run.SliceApi.",
        "memcase",
        "run_mem",
        &coq,
    );
    let all: Vec<String> = emitted.iter().map(|e| e.2.clone()).collect();
    std::fs::write(format!("{}/cases.json", out), format!("[{}]", all.join(",\n"))).unwrap();
    let samples: Vec<String> = [0usize, cases.len() / 3, cases.len() - 1]
        .iter()
        .map(|&i| cases[i].json(&apis, arenas.of(&cases[i]).size, outcome[i].as_deref().unwrap_or("ok: equal to the aligned-buffer run, canary intact")))
        .collect();
    let setj = |s: &BTreeSet<usize>| format!("[{}]", s.iter().map(|x| x.to_string()).collect::<Vec<_>>().join(","));
    let mapj = |m: &BTreeMap<&str, usize>| {
        format!("{{{}}}", m.iter().map(|(k, v)| format!("{}:{}", jstr(k), v)).collect::<Vec<_>>().join(","))
    };
    println!(
        "{{\"evaluations\":{},\"distinct_nontrivial\":{},\"direct_failures\":[{}],\"failing_cases\":{},\"samples\":[{}],\"coq_window_cases\":{},\"coq_sample\":{},\"cases_len_ge_2048\":{},\"cases_len_ge_8192\":{},\"mapped_pages_for_cases_that_do_not_fit\":{},\"apis\":{},\"api_names\":[{}],\"by_family\":{},\"placements\":{},\"start_alignments_head\":{},\"start_alignments_tail\":{},\"free_end_alignments_at_first_mapped_byte\":{},\"start_alignments_ending_at_last_mapped_byte\":{},\"distinct_lengths\":{},\"max_length\":{},\"mapped_pages\":{},\"guard_pages\":2,\"signals\":{},\"backend_level\":{},\"backend\":{},\"profile\":{},\"children\":\"fork per run, restarted behind a killed case\"}}",
        cases.len(),
        distinct.len(),
        direct.join(","),
        nfail,
        samples.join(","),
        coq.len(),
        sample_desc,
        cases.iter().filter(|c| c.len >= 2048).count(),
        cases.iter().filter(|c| c.len >= 8192).count(),
        HUGE_PAGES,
        apis.len(),
        apis.iter().map(|a| jstr(&a.name)).collect::<Vec<_>>().join(","),
        mapj(&by_family),
        mapj(&placements),
        setj(&start_align[0]),
        setj(&start_align[1]),
        setj(&abut_start_align[0]),
        setj(&abut_start_align[1]),
        lens.len(),
        lens.iter().max().unwrap_or(&0),
        pages,
        format!("{{{}}}", signals.iter().map(|(k, v)| format!("{}:{}", jstr(k), v)).collect::<Vec<_>>().join(",")),
        level,
        jstr(if cfg!(feature = "no_simd") { "portable (no_simd)" } else if level == 0 { "host (run-time detection)" } else { "forced through hook H1" }),
        jstr(if cfg!(debug_assertions) { "debug" } else { "release" }),
    );
}

/// self-test of the guard-page machinery: a deliberate one-byte over-read/over-write must be
/// reported as a killed case / canary damage
fn selftest() {
    std::panic::set_hook(Box::new(|_| {}));
    let arena = Arenas { small: Arena::new(2), huge: Arena::new(HUGE_PAGES) };
    let apis: Vec<Api> = vec![
        Api {
            name: "selftest::read_one_past_end".into(),
            family: "selftest",
            kind: Kind::In,
            fixed: None,
            pres: vec![0],
            coq: CoqKind::ReadOnly,
            f: Box::new(|s, _| vec![unsafe { std::ptr::read_volatile(s.as_ptr().add(s.len())) }]),
            aux: None,
        },
        Api {
            name: "selftest::write_one_before_start".into(),
            family: "selftest",
            kind: Kind::InOut,
            fixed: None,
            pres: vec![0],
            coq: CoqKind::Copy,
            f: Box::new(|s, _| {
                unsafe { std::ptr::write_volatile(s.as_mut_ptr().offset(-1), 0) };
                vec![]
            }),
            aux: None,
        },
        Api {
            name: "selftest::aligned_load".into(),
            family: "selftest",
            kind: Kind::In,
            fixed: None,
            pres: vec![0],
            coq: CoqKind::ReadOnly,
            f: Box::new(|s, _| unsafe {
                let v = core::arch::x86_64::_mm_load_si128(s.as_ptr() as *const _);
                let mut o = vec![0u8; 16];
                core::arch::x86_64::_mm_storeu_si128(o.as_mut_ptr() as *mut _, v);
                o
            }),
            aux: None,
        },
    ];
    let cases = vec![
        Case { api: 0, tail: true, a: 0, len: 16, pre: 0 },  // SIGSEGV
        Case { api: 0, tail: true, a: 1, len: 16, pre: 0 },  // reads canary: result differs
        Case { api: 1, tail: false, a: 0, len: 16, pre: 0 }, // SIGSEGV
        Case { api: 1, tail: false, a: 1, len: 16, pre: 0 }, // canary damaged
        Case { api: 2, tail: false, a: 3, len: 16, pre: 0 }, // SIGSEGV (#GP on misaligned movdqa)
        Case { api: 2, tail: false, a: 16, len: 16, pre: 0 }, // ok
        Case { api: 0, tail: true, a: 0, len: 65536, pre: 0 }, // second (17-page) arena: SIGSEGV
        Case { api: 0, tail: true, a: 1, len: 16385, pre: 0 }, // second arena, reads canary: result differs
    ];
    let emit = vec![false; cases.len()];
    let (outcome, _, _) = run_range(&arena, &apis, &cases, &emit, 0, 100);
    let got: Vec<String> = outcome.iter().map(|o| o.clone().unwrap_or_else(|| "ok".into())).collect();
    let ok = got[0].starts_with("killed: SIGSEGV")
        && got[1].starts_with("result differs")
        && got[2].starts_with("killed: SIGSEGV")
        && got[3].starts_with("memory outside")
        && got[4].starts_with("killed")
        && got[5] == "ok"
        && got[6].starts_with("killed: SIGSEGV")
        && got[7].starts_with("result differs");
    println!(
        "{{\"selftest_ok\":{},\"outcomes\":[{}]}}",
        ok,
        got.iter().map(|s| jstr(s)).collect::<Vec<_>>().join(",")
    );
}

fn main() {
    let argv: Vec<String> = std::env::args().collect();
    if argv.len() < 2 {
        eprintln!("usage: h_mem <mem|selftest> [--key value]...");
        std::process::exit(2);
    }
    let args = Args::parse(&argv[2..]);
    match argv[1].as_str() {
        "mem" => mem(&args),
        "selftest" => selftest(),
        other => {
            eprintln!("unknown subcommand {}", other);
            std::process::exit(2);
        }
    }
}
