//! ChaCha harness (C01, C02, C11, C14, C15).
#![allow(dead_code)]
#[path = "../util.rs"]
mod util;
use util::*;

use c2_chacha::guts::ChaCha;
use c2_chacha::{ChaCha12, ChaCha20, ChaCha8, Ietf, XChaCha12, XChaCha20, XChaCha8};
use cipher::generic_array::GenericArray;
use cipher::{NewCipher, StreamCipher, StreamCipherSeek};
use std::collections::{BTreeMap, HashSet};
use std::panic::{catch_unwind, AssertUnwindSafe};

#[derive(Clone, Copy, PartialEq, Eq, Debug)]
struct Variant {
    name: &'static str,
    v: u8, // 0 djb, 1 ietf, 2 x
    drounds: u32,
    nonce_len: usize,
}
const VARIANTS: [Variant; 7] = [
    Variant { name: "ChaCha8", v: 0, drounds: 4, nonce_len: 8 },
    Variant { name: "ChaCha12", v: 0, drounds: 6, nonce_len: 8 },
    Variant { name: "ChaCha20", v: 0, drounds: 10, nonce_len: 8 },
    Variant { name: "Ietf", v: 1, drounds: 10, nonce_len: 12 },
    Variant { name: "XChaCha8", v: 2, drounds: 4, nonce_len: 24 },
    Variant { name: "XChaCha12", v: 2, drounds: 6, nonce_len: 24 },
    Variant { name: "XChaCha20", v: 2, drounds: 10, nonce_len: 24 },
];

/// seek argument / current_pos type
#[derive(Clone, Copy, Debug, PartialEq, Eq)]
enum Ty {
    U8,
    U16,
    U32,
    U64,
    U128,
    Usize,
    I32,
}
const TYS: [Ty; 7] = [Ty::U8, Ty::U16, Ty::U32, Ty::U64, Ty::U128, Ty::Usize, Ty::I32];
impl Ty {
    fn max(self) -> i128 {
        match self {
            Ty::U8 => u8::MAX as i128,
            Ty::U16 => u16::MAX as i128,
            Ty::U32 => u32::MAX as i128,
            Ty::U64 | Ty::Usize => u64::MAX as i128,
            Ty::U128 => i128::MAX, // values used stay below 2^100
            Ty::I32 => i32::MAX as i128,
        }
    }
    fn min(self) -> i128 {
        match self {
            Ty::I32 => i32::MIN as i128,
            _ => 0,
        }
    }
    fn name(self) -> &'static str {
        match self {
            Ty::U8 => "u8",
            Ty::U16 => "u16",
            Ty::U32 => "u32",
            Ty::U64 => "u64",
            Ty::U128 => "u128",
            Ty::Usize => "usize",
            Ty::I32 => "i32",
        }
    }
    /// T::MAX as seen by try_from(u128)
    fn tmax_z(self) -> String {
        match self {
            Ty::U128 => format!("({})%Z", u128::MAX),
            t => format!("({})%Z", t.max()),
        }
    }
}

/// Mathematical value of a seek argument. `Ty::U128` carries values >= 2^127 as a negative i128
/// (two's complement; `v as u128` is the value that reaches `try_seek::<u128>`), every other type
/// carries the value itself.
fn seek_math(ty: Ty, v: i128) -> String {
    if ty == Ty::U128 {
        format!("{}", v as u128)
    } else {
        format!("{}", v)
    }
}
/// the same value when it is a u64 (the only values `try_seek` may accept)
fn seek_u64(ty: Ty, v: i128) -> Option<u64> {
    if ty == Ty::U128 {
        let u = v as u128;
        if u <= u64::MAX as u128 { Some(u as u64) } else { None }
    } else if v >= 0 && v <= u64::MAX as i128 {
        Some(v as u64)
    } else {
        None
    }
}

#[derive(Clone, Copy, PartialEq, Eq, Debug)]
enum Res {
    Ok,
    Err,
    Panic,
}
impl Res {
    fn code(self) -> u8 {
        match self {
            Res::Ok => 0,
            Res::Err => 1,
            Res::Panic => 2,
        }
    }
    fn s(self) -> &'static str {
        match self {
            Res::Ok => "ok",
            Res::Err => "err",
            Res::Panic => "panic",
        }
    }
}

enum AnyCipher {
    C8(ChaCha8),
    C12(ChaCha12),
    C20(ChaCha20),
    I(Ietf),
    X8(XChaCha8),
    X12(XChaCha12),
    X20(XChaCha20),
}
macro_rules! each {
    ($self:expr, $c:ident => $e:expr) => {
        match $self {
            AnyCipher::C8($c) => $e,
            AnyCipher::C12($c) => $e,
            AnyCipher::C20($c) => $e,
            AnyCipher::I($c) => $e,
            AnyCipher::X8($c) => $e,
            AnyCipher::X12($c) => $e,
            AnyCipher::X20($c) => $e,
        }
    };
}
impl AnyCipher {
    fn new(var: &Variant, key: &[u8], nonce: &[u8]) -> Self {
        let k = GenericArray::from_slice(key);
        match var.name {
            "ChaCha8" => AnyCipher::C8(ChaCha8::new(k, GenericArray::from_slice(nonce))),
            "ChaCha12" => AnyCipher::C12(ChaCha12::new(k, GenericArray::from_slice(nonce))),
            "ChaCha20" => AnyCipher::C20(ChaCha20::new(k, GenericArray::from_slice(nonce))),
            "Ietf" => AnyCipher::I(Ietf::new(k, GenericArray::from_slice(nonce))),
            "XChaCha8" => AnyCipher::X8(XChaCha8::new(k, GenericArray::from_slice(nonce))),
            "XChaCha12" => AnyCipher::X12(XChaCha12::new(k, GenericArray::from_slice(nonce))),
            _ => AnyCipher::X20(XChaCha20::new(k, GenericArray::from_slice(nonce))),
        }
    }
    /// constructor under catch_unwind: a panicking constructor is an outcome, not a dead harness
    fn try_new(var: &Variant, key: &[u8], nonce: &[u8]) -> Option<Self> {
        catch_unwind(AssertUnwindSafe(|| AnyCipher::new(var, key, nonce))).ok()
    }
    /// A second object in exactly the state of this one: a new instance whose (public) `Buffer`
    /// is replaced by a clone of ours (`ChaChaAny` itself is not `Clone` for the exported types,
    /// its marker types do not implement it). Used to look at what an object would do next
    /// without touching it; also the only place `Buffer::clone` of a mid-block state is run.
    fn fork(&self, var: &Variant, key: &[u8], nonce: &[u8]) -> Option<Self> {
        catch_unwind(AssertUnwindSafe(|| {
            let mut n = AnyCipher::new(var, key, nonce);
            match (self, &mut n) {
                (AnyCipher::C8(a), AnyCipher::C8(b)) => b.state = a.state.clone(),
                (AnyCipher::C12(a), AnyCipher::C12(b)) => b.state = a.state.clone(),
                (AnyCipher::C20(a), AnyCipher::C20(b)) => b.state = a.state.clone(),
                (AnyCipher::I(a), AnyCipher::I(b)) => b.state = a.state.clone(),
                (AnyCipher::X8(a), AnyCipher::X8(b)) => b.state = a.state.clone(),
                (AnyCipher::X12(a), AnyCipher::X12(b)) => b.state = a.state.clone(),
                (AnyCipher::X20(a), AnyCipher::X20(b)) => b.state = a.state.clone(),
                _ => unreachable!(),
            }
            n
        }))
        .ok()
    }
    fn apply(&mut self, data: &mut [u8]) -> Res {
        let r = catch_unwind(AssertUnwindSafe(|| each!(self, c => c.try_apply_keystream(data).is_ok())));
        match r {
            Ok(true) => Res::Ok,
            Ok(false) => Res::Err,
            Err(_) => Res::Panic,
        }
    }
    /// seek with the value `v` converted to type `ty` (caller guarantees it fits)
    fn seek(&mut self, ty: Ty, v: i128) -> Res {
        let r = catch_unwind(AssertUnwindSafe(|| {
            each!(self, c => match ty {
                Ty::U8 => c.try_seek(v as u8).is_ok(),
                Ty::U16 => c.try_seek(v as u16).is_ok(),
                Ty::U32 => c.try_seek(v as u32).is_ok(),
                Ty::U64 => c.try_seek(v as u64).is_ok(),
                Ty::U128 => c.try_seek(v as u128).is_ok(),
                Ty::Usize => c.try_seek(v as usize).is_ok(),
                Ty::I32 => c.try_seek(v as i32).is_ok(),
            })
        }));
        match r {
            Ok(true) => Res::Ok,
            Ok(false) => Res::Err,
            Err(_) => Res::Panic,
        }
    }
    /// current position as type `ty`: (result, value)
    fn pos(&self, ty: Ty) -> (Res, i128) {
        let r = catch_unwind(AssertUnwindSafe(|| {
            each!(self, c => match ty {
                Ty::U8 => c.try_current_pos::<u8>().map(|x| x as i128).ok(),
                Ty::U16 => c.try_current_pos::<u16>().map(|x| x as i128).ok(),
                Ty::U32 => c.try_current_pos::<u32>().map(|x| x as i128).ok(),
                Ty::U64 => c.try_current_pos::<u64>().map(|x| x as i128).ok(),
                Ty::U128 => c.try_current_pos::<u128>().map(|x| x as i128).ok(),
                Ty::Usize => c.try_current_pos::<usize>().map(|x| x as i128).ok(),
                Ty::I32 => c.try_current_pos::<i32>().map(|x| x as i128).ok(),
            })
        }));
        match r {
            Ok(Some(v)) => (Res::Ok, v),
            Ok(None) => (Res::Err, 0),
            Err(_) => (Res::Panic, 0),
        }
    }
}

/// Input data of the large calls: high bytes of x, 5x + 12345, ... (mod 2^16). `Run/ChaCha.v Pat`
/// computes the same bytes, so the case file carries `(Pat len seed)` instead of a literal (coqc
/// spends ~80 us per literal byte, 1.3 s for 16 KiB).
fn lcg_fill(buf: &mut [u8], seed: u16) {
    let mut x = seed as u32;
    for b in buf.iter_mut() {
        *b = (x >> 8) as u8;
        x = (x * 5 + 12345) & 0xffff;
    }
}
/// the seed if `data` (1 KiB or more) is such a sequence
fn pat_seed(data: &[u8]) -> Option<u16> {
    if data.len() < 1024 {
        return None;
    }
    let mut t = vec![0u8; data.len()];
    for lo in 0..256u16 {
        let seed = (data[0] as u16) << 8 | lo;
        lcg_fill(&mut t[..8], seed);
        if t[..8] == data[..8] {
            lcg_fill(&mut t, seed);
            if t == data {
                return Some(seed);
            }
        }
    }
    None
}
/// Coq term (type N) whose little-endian encoding is `b`: from 16 bytes on a list of primitive
/// integer literals, seven bytes each, joined by `Run/ChaCha.v W` (coqc reads these natively; a
/// hexadecimal N literal costs it ~80 us per byte)
fn blit(b: &[u8]) -> String {
    if b.len() < 16 {
        return nlit(b);
    }
    let ws: Vec<String> = b
        .chunks(7)
        .map(|c| {
            let mut w = 0u64;
            for (j, x) in c.iter().enumerate() {
                w |= (*x as u64) << (8 * j);
            }
            format!("{}", w)
        })
        .collect();
    format!("(W [{}]%uint63)", ws.join("; "))
}
/// Coq term for the input bytes of a call
fn dlit(data: &[u8]) -> String {
    match pat_seed(data) {
        Some(seed) => format!("(Pat {} {})", data.len(), seed),
        None => blit(data),
    }
}
const CASE_HEADER: &str = "From Coq Require Import NArith ZArith List Uint63.\nFrom CC Require Import Run.Runner Run.ChaCha.";
/// input bytes of a call: random, from 2 KiB on the computable sequence
fn gen_data(rng: &mut Rng, n: usize) -> Vec<u8> {
    let mut d = vec![0u8; n];
    if n >= 2048 {
        lcg_fill(&mut d, rng.below(1 << 16) as u16);
    } else {
        rng.fill(&mut d);
    }
    d
}

fn rd32(b: &[u8]) -> u32 {
    u32::from_le_bytes([b[0], b[1], b[2], b[3]])
}

/// d words of the state for block `k`
fn dwords(var: &Variant, nonce: &[u8], k: u128) -> [u32; 4] {
    match var.v {
        1 => [k as u32, rd32(&nonce[0..4]), rd32(&nonce[4..8]), rd32(&nonce[8..12])],
        0 => [k as u32, (k >> 32) as u32, rd32(&nonce[0..4]), rd32(&nonce[4..8])],
        _ => [k as u32, (k >> 32) as u32, rd32(&nonce[16..20]), rd32(&nonce[20..24])],
    }
}
fn dkey(d: &[u32; 4]) -> u128 {
    d[0] as u128 | (d[1] as u128) << 32 | (d[2] as u128) << 64 | (d[3] as u128) << 96
}
fn dlist(d: &[u32; 4]) -> String {
    format!("[{}; {}; {}; {}]", nlit_u64(d[0] as u64), nlit_u64(d[1] as u64), nlit_u64(d[2] as u64), nlit_u64(d[3] as u64))
}

/// the implementation's own key-stream block `k`, from a fresh instance
fn oracle_block(var: &Variant, key: &[u8], nonce: &[u8], k: u128) -> Option<Vec<u8>> {
    let total: u128 = if var.v == 1 { 1 << 32 } else { 1 << 64 };
    if k >= total {
        return None;
    }
    let mut c = AnyCipher::new(var, key, nonce);
    let r = catch_unwind(AssertUnwindSafe(|| {
        if k < (1u128 << 58) {
            if c.seek(Ty::U64, (k * 64) as i128) != Res::Ok {
                return None;
            }
            let mut b = vec![0u8; 64];
            if c.apply(&mut b) != Res::Ok {
                return None;
            }
            Some(b)
        } else {
            // beyond what a u64 byte position can address: run on from the last addressable block
            let first = (1u128 << 58) - 1;
            // (several large calls in a row past 2^64 bytes: each block costs k - first blocks here)
            if k - first > 3000 {
                return None;
            }
            if c.seek(Ty::U64, (first * 64) as i128) != Res::Ok {
                return None;
            }
            let mut b = vec![0u8; 64 * (k - first + 1) as usize];
            if c.apply(&mut b) != Res::Ok {
                return None;
            }
            Some(b[b.len() - 64..].to_vec())
        }
    }));
    r.ok().flatten()
}

fn limit(var: &Variant) -> u128 {
    if var.v == 1 {
        1 << 38
    } else {
        1 << 70
    }
}

/// Large-input class: 2..16 KiB in one call (8..64 iterations of the 256-byte wide loop), every
/// tail shape: whole wide iterations only, a tail of whole blocks, a partial last block.
fn gen_len_large(rng: &mut Rng) -> usize {
    match rng.below(8) {
        0 => 2048,
        1 => 4096,
        2 => 16384,
        3 => 2048 + 256 * rng.below(57) as usize,                       // whole wide iterations
        4 => rng.range(2049, 4200) as usize,
        5 => 4096 + 64 * rng.below(4) as usize + rng.below(64) as usize, // every tail residue
        6 => rng.range(8000, 16384) as usize,
        _ => rng.range(2048, 16384) as usize,
    }
}

/// `large` = chance in 1000 of a length from the 2-16 KiB class (0: the stream is the one without it)
fn gen_len(rng: &mut Rng, big: bool, large: u64) -> usize {
    if large > 0 && rng.below(1000) < large {
        return gen_len_large(rng);
    }
    match rng.below(12) {
        0 => 0,
        1 => 1,
        2 => rng.range(2, 63) as usize,
        3 => 64,
        4 => rng.range(65, 127) as usize,
        5 => rng.range(128, 255) as usize,
        6 => 256,
        7 => rng.range(257, 320) as usize,
        8 => {
            if big {
                rng.range(500, 1100) as usize
            } else {
                rng.range(1, 40) as usize
            }
        }
        9 => 63,
        10 => 65,
        _ => rng.range(1, 200) as usize,
    }
}

fn len_class(n: usize) -> &'static str {
    match n {
        0 => "0",
        1..=63 => "1-63",
        64 => "64",
        65..=255 => "65-255",
        256 => "256",
        257..=511 => "257-511",
        512..=2047 => "512-2047",
        2048..=4095 => "2048-4095",
        4096..=8191 => "4096-8191",
        _ => ">=8192",
    }
}

/// a multiple k >= 2 of 2^32 blocks whose byte position still fits u64: k = 2, 3, or a random
/// (mostly odd) high counter word below 2^26
fn high_word(rng: &mut Rng) -> u128 {
    match rng.below(4) {
        0 => 2,
        1 => 3,
        2 => (rng.below((1 << 26) - 3) as u128 + 2) | 1,
        _ => (1 << 26) - 1,
    }
}

/// positions near the interesting boundaries
fn gen_pos(rng: &mut Rng, var: &Variant) -> u128 {
    let near = |rng: &mut Rng, c: u128| -> u128 {
        let span = 4 * 64u128;
        let lo = c.saturating_sub(span);
        lo + rng.below((2 * span + 1) as u64) as u128
    };
    if var.v == 1 {
        match rng.below(8) {
            0 | 1 => rng.below(300) as u128,
            2 | 3 | 4 => {
                let p = near(rng, 1 << 38);
                p.min((1 << 38) + 70)
            }
            5 => (1u128 << 38) - rng.below(3) as u128 * 64,
            6 => rng.u64() as u128 % (1 << 38),
            _ => 64 * rng.below(8) as u128,
        }
    } else {
        match rng.below(12) {
            0 | 1 => rng.below(300) as u128,
            2 | 3 => near(rng, 1 << 38),                 // block counter low word carries at 2^32 blocks
            4 | 5 => near(rng, 1 << 64).min(u64::MAX as u128), // end of u64-addressable positions
            6 => rng.u64() as u128,
            7 => 64 * rng.below(8) as u128,
            8 => (1u128 << 38) - 64 * rng.below(5) as u128,
            // the second and later carries of the low counter word: block counter next to k * 2^32,
            // k >= 2 (high word odd / all ones below 2^26)
            9 | 10 => {
                let k = high_word(rng);
                near(rng, k << 38).min(u64::MAX as u128)
            }
            _ => rng.below(1 << 20) as u128,
        }
    }
}

fn pick_ty_for(rng: &mut Rng, v: i128) -> Ty {
    // a type that can hold v, chosen at random
    let mut ok: Vec<Ty> = TYS.iter().cloned().filter(|t| v >= t.min() && v <= t.max()).collect();
    if ok.is_empty() {
        ok.push(Ty::U128);
    }
    *rng.pick(&ok)
}

/// Force the ppv-lite86 back end (hook H1) and read the level back: the value the dispatch macros
/// will see. 0 = the CPU's own detection. Returns what `verif::level()` reports (255: no hook in
/// this build, i.e. the portable back end).
fn force_level(level: u8) -> i64 {
    #[cfg(all(cryptocorrosion_verif, not(feature = "no_simd")))]
    {
        ppv_lite86::x86_64::verif::set_level(level);
        let got = ppv_lite86::x86_64::verif::level();
        if got != level {
            eprintln!("back-end level {} requested, verif::level() reports {}", level, got);
            std::process::exit(4);
        }
        got as i64
    }
    #[cfg(not(all(cryptocorrosion_verif, not(feature = "no_simd"))))]
    {
        if level != 0 {
            eprintln!("a back-end level can only be forced in the build with hook H1 and without no_simd");
            std::process::exit(4);
        }
        255
    }
}

/// Which Machine type the three dispatch macros select in THIS process after `force_level`: the
/// macros are expanded here with the same cfg flags as in c2-chacha, so a level that is stored but
/// not honoured by a macro (a dropped arm of the hook) shows up as the wrong type name.
#[cfg(not(feature = "no_simd"))]
mod probe {
    use ppv_lite86::{dispatch, dispatch_light128, Machine};
    dispatch!(m, M, {
        fn sel_dispatch(x: u32) -> &'static str {
            let _ = (m, x);
            core::any::type_name::<M>()
        }
    });
    dispatch_light128!(m, M, {
        fn sel_light128(x: u32) -> &'static str {
            let _ = (m, x);
            core::any::type_name::<M>()
        }
    });
    pub fn selected() -> (String, String) {
        (short(sel_dispatch(0)), short(sel_light128(0)))
    }
    /// "sse2" | "ssse3" | "sse41" (SSE4.1 and AVX are the same Machine type) | "avx2" | "generic" | the raw name
    fn short(name: &str) -> String {
        let n: String = name.chars().filter(|c| !c.is_whitespace()).collect();
        if n.contains("GenericMachine") {
            "generic".into()
        } else if n.contains("Avx2Machine") {
            "avx2".into()
        } else if n.contains("SseMachine") {
            match (n.contains("YesS3"), n.contains("YesS4")) {
                (false, false) => "sse2".into(),
                (true, false) => "ssse3".into(),
                (true, true) => "sse41".into(),
                _ => n,
            }
        } else {
            n
        }
    }
}
#[cfg(feature = "no_simd")]
mod probe {
    pub fn selected() -> (String, String) {
        ("generic".into(), "generic".into())
    }
}

// ---------------------------------------------------------------------------------------------
// C01
// ---------------------------------------------------------------------------------------------
/// The designated large cases of a C01 run: `large` indices >= 14 spread over the run so that no
/// two of them fall into the same Coq shard (the model costs ~3 ms per block and the spec as much).
fn large_indices(count: usize, shards: usize, large: usize) -> Vec<usize> {
    let mut v: Vec<usize> = Vec::new();
    if count <= 15 || large == 0 {
        return v;
    }
    let large = large.min(count - 14);
    let stride = ((count - 14) / large).max(1);
    let mut used = HashSet::new();
    for j in 0..large {
        let mut i = 14 + j * stride + stride / 2;
        let mut tries = 0;
        while (i >= count || v.contains(&i) || used.contains(&(i % shards.max(1)))) && tries < 4 * shards + 4 {
            i = if i + 1 >= count { 14 } else { i + 1 };
            tries += 1;
        }
        if i < count && !v.contains(&i) {
            used.insert(i % shards.max(1));
            v.push(i);
        }
    }
    v
}

/// position and length of the `shape`-th kind of large case
fn large_case(rng: &mut Rng, var: &Variant, shape: usize, max: usize) -> (u128, usize, &'static str) {
    let (p, n, what) = large_case0(rng, var, shape, max.max(2304));
    assert!(n <= max.max(2304) && n >= 2048);
    (p, n, what)
}
fn large_case0(rng: &mut Rng, var: &Variant, shape: usize, max: usize) -> (u128, usize, &'static str) {
    let b38: u128 = 1 << 38;
    let ietf = var.v == 1;
    match shape % 6 {
        0 => {
            // from a mid-block position: buffered prefix, then 8..16 wide iterations, then every tail shape
            let pos = 64 * rng.below(4) as u128 + 1 + rng.below(63) as u128;
            let n = (2048 + 256 * rng.below(9) as usize + rng.below(256) as usize).min(max - rng.below(64) as usize);
            (pos, n, "mid-block start, 8-16 wide iterations + tail")
        }
        1 => {
            // the low counter word carries in the middle of the wide run (IETF: the call ends exactly at the end)
            let n = gen_len_large(rng).min(8192).min(max);
            let pos = if ietf { b38 - n as u128 } else { b38 - rng.range(1, n as u64 - 1) as u128 };
            (pos, n, if ietf { "ends exactly at 2^38" } else { "across 2^32 blocks inside the wide run" })
        }
        2 => (64 * rng.below(1 << 20) as u128, max.min(16384), "longest (16 KiB unless capped), block aligned"),
        3 => {
            let n = gen_len_large(rng).min(6144).min(max);
            if ietf {
                (rng.u64() as u128 % (b38 - 20000), n, "random position")
            } else {
                let k = high_word(rng);
                ((k << 38) - rng.range(1, n as u64 - 1) as u128, n, "across k*2^32 blocks, k >= 2, inside the wide run")
            }
        }
        4 => {
            let n = gen_len_large(rng).min(max);
            let pos = gen_pos(rng, var);
            let pos = if ietf { pos.min(b38 - n as u128) } else { pos };
            (pos, n, "boundary-directed position")
        }
        _ => {
            let n = gen_len_large(rng).min(6144).min(max);
            if ietf {
                // one byte more than the stream has: Err, nothing written, after the wide path was in reach
                (b38 + 1 - n as u128, n, "one byte past 2^38: atomic Err")
            } else {
                (u64::MAX as u128 - rng.below(n as u64) as u128, n, "across 2^64 bytes")
            }
        }
    }
}

fn run_c01(a: &Args) {
    let seed = a.u64("seed", 1);
    let count = a.u64("count", 100) as usize;
    let shards = a.u64("shards", 16) as usize;
    let out = a.str("out", "/tmp/c01");
    let big = a.u64("big", 0) == 1;
    // number of designated 2-16 KiB cases (spread over the shards) and chance in 1000 of such a
    // length in every other case
    let large = a.u64("large", 3) as usize;
    let large_pm = a.u64("large-permille", 0);
    let large_max = a.u64("large-max", 16384) as usize; // cap of the designated cases (Coq: ~20 ms per block, model + spec)
    // back end: 0 = whatever the CPU detection picks, 1..5 = SSE2, SSSE3, SSE4.1, AVX, AVX2 (hook H1)
    let level = a.u64("level", 0) as u8;
    let readback = force_level(level);
    let mut rng = Rng::new(seed ^ 0xc01);
    let mut cases = Vec::new();
    let mut js = Vec::new();
    let mut distinct = HashSet::new();
    let mut by_variant: BTreeMap<&str, usize> = BTreeMap::new();
    let mut res_count = [0usize; 3];
    let mut len_hist: BTreeMap<&str, usize> = BTreeMap::new();
    let mut seek_types: BTreeMap<&str, usize> = BTreeMap::new();
    let mut direct = Vec::new();
    let mut n_prefixed = 0usize;
    let mut n_high_carry = 0usize;
    let mut max_wide_iters = 0usize;
    let mut large_js = Vec::new();
    let large_at = large_indices(count, shards, large);
    for i in 0..count {
        let var = &VARIANTS[i % 7];
        *by_variant.entry(var.name).or_default() += 1;
        let key = if i < 7 { (0..32).map(|j| j as u8).collect() } else { rng.bytes(32) };
        let nonce = if i < 7 { (0..var.nonce_len).map(|j| (j * 7 + 1) as u8).collect() } else { rng.bytes(var.nonce_len) };
        let large_j = large_at.iter().position(|x| *x == i);
        let (pos, n) = if let Some(j) = large_j {
            let (p, n, what) = large_case(&mut rng, var, j + (seed % 6) as usize, large_max);
            large_js.push(format!("{{\"case\":{},\"variant\":{},\"pos\":\"{}\",\"len\":{},\"shape\":{}}}", i, jstr(var.name), p, n, jstr(what)));
            (p, n)
        } else {
            let pos = if i < 7 { 0 } else if i < 14 { 64 } else { gen_pos(&mut rng, var) };
            // C01 is about positions that can be seeked to (seek errors belong to C11): the IETF
            // variant accepts positions up to and including 2^38
            let pos = if var.v == 1 { pos.min(1u128 << 38) } else { pos };
            let n = if i < 14 { 130 } else { gen_len(&mut rng, big, large_pm) };
            (pos, n)
        };
        *len_hist.entry(len_class(n)).or_default() += 1;
        {
            // block counter within 5 blocks of k * 2^32, k >= 2, somewhere in the call
            let (b0, b1) = (pos / 64, (pos + n as u128) / 64);
            let k = (b1 + 5) >> 32;
            if k >= 2 && k < (1 << 26) && (k << 32) + 5 >= b0 {
                n_high_carry += 1;
            }
        }
        let data = gen_data(&mut rng, n);
        let mut c = match AnyCipher::try_new(var, &key, &nonce) {
            Some(c) => c,
            None => {
                direct.push(format!("{{\"variant\":{},\"key\":{},\"nonce\":{},\"what\":\"the constructor panicked\"}}", jstr(var.name), jstr(&hex(&key)), jstr(&hex(&nonce))));
                res_count[2] += 1;
                js.push(format!("{{\"variant\":{},\"key\":{},\"nonce\":{},\"constructor\":\"panic\"}}", jstr(var.name), jstr(&hex(&key)), jstr(&hex(&nonce))));
                cases.push(format!(
                    "C01 {} {} {} {} {} {} {} {} {} {}",
                    var.v, var.drounds, blit(&key), var.nonce_len, blit(&nonce), nlit_u128(pos), n, dlit(&data), 2, dlit(&data)
                ));
                continue;
            }
        };
        // every third case from 14 on: the instance has a past. A boundary-directed or random
        // history (seeks of every type, applies that reach / overshoot the end of the key stream,
        // failed calls, multi-KiB applies) runs first; the measured seek + apply must still give the
        // specified bytes ("at every position", whatever was done before). The prefix is recorded
        // for the replay. A panic inside the prefix is a failure of its own, not a skipped case.
        let mut prefix_js = String::from("[]");
        if i >= 14 && i % 3 == 2 {
            let ops = if (i / 3) % 2 == 0 { boundary_history(&mut rng, var, i / 6) } else { gen_history(&mut rng, var, "c02", 6, false, 30) };
            let mut pj = Vec::new();
            let mut panicked: Option<String> = None;
            for op in ops.iter() {
                let r = match op {
                    Op::Seek(t, v) => {
                        pj.push(format!("{{\"seek\":\"{}\",\"type\":\"{:?}\"}}", seek_math(*t, *v), t));
                        c.seek(*t, *v)
                    }
                    Op::Apply(d) => {
                        let mut b = d.clone();
                        pj.push(format!("{{\"apply\":{}}}", d.len()));
                        c.apply(&mut b)
                    }
                    Op::Pos(t) => {
                        pj.push(format!("{{\"current_pos\":\"{:?}\"}}", t));
                        c.pos(*t).0
                    }
                };
                if r == Res::Panic && panicked.is_none() {
                    panicked = Some(pj.last().unwrap().clone());
                }
            }
            prefix_js = format!("[{}]", pj.join(","));
            if let Some(op) = panicked {
                direct.push(format!(
                    "{{\"variant\":{},\"key\":{},\"nonce\":{},\"prefix_history\":{},\"what\":\"an operation of the prefix history panicked\",\"op\":{}}}",
                    jstr(var.name), jstr(&hex(&key)), jstr(&hex(&nonce)), prefix_js, op
                ));
            }
            n_prefixed += 1;
        }
        // the measured seek: any SeekNum type that can hold the position (u8 ... u128, usize, i32)
        let ty = if i < 14 { Ty::U64 } else { pick_ty_for(&mut rng, pos as i128) };
        *seek_types.entry(ty.name()).or_default() += 1;
        let sr = c.seek(ty, pos as i128);
        let mut buf = data.clone();
        let (res, outb) = if sr != Res::Ok {
            (Res::Panic, data.clone())
        } else {
            let r = c.apply(&mut buf);
            (r, buf.clone())
        };
        res_count[res.code() as usize] += 1;
        // direct statement: ok iff within the limit; on error the data is unchanged; afterwards the
        // object stands at pos + n (ok) or still at pos (err)
        let expect_ok = pos + n as u128 <= limit(var);
        let after = c.pos(Ty::U128);
        let expect_after = if res == Res::Ok { pos + n as u128 } else { pos };
        let after_ok = sr != Res::Ok || after == (Res::Ok, expect_after as i128);
        if (res == Res::Ok) != expect_ok || res == Res::Panic || (res == Res::Err && outb != data) || !after_ok {
            direct.push(format!(
                "{{\"variant\":{},\"key\":{},\"nonce\":{},\"prefix_history\":{},\"seek_type\":{},\"pos\":\"{}\",\"len\":{},\"seek_result\":{},\"result\":{},\"expected_ok\":{},\"current_pos_u128_after\":\"{} {}\",\"expected_position_after\":\"{}\"}}",
                jstr(var.name), jstr(&hex(&key)), jstr(&hex(&nonce)), prefix_js, jstr(ty.name()), pos, n, jstr(sr.s()), jstr(res.s()), expect_ok, after.0.s(), after.1, expect_after
            ));
        }
        if res == Res::Ok {
            // iterations of the 256-byte loop in this call (the pending block of a mid-block seek is consumed first)
            let head = ((64 - (pos % 64)) % 64) as usize;
            max_wide_iters = max_wide_iters.max(n.saturating_sub(head) / 256);
        }
        if n > 0 {
            distinct.insert((var.name, key.clone(), nonce.clone(), pos, data.clone()));
        }
        js.push(format!(
            "{{\"variant\":{},\"key\":{},\"nonce\":{},\"prefix_history\":{},\"seek_type\":{},\"pos\":\"{}\",\"len\":{},\"data\":{},\"result\":{},\"out\":{}}}",
            jstr(var.name), jstr(&hex(&key)), jstr(&hex(&nonce)), prefix_js, jstr(ty.name()), pos, n, jstr(&hex(&data)), jstr(res.s()), jstr(&hex(&outb))
        ));
        cases.push(format!(
            "C01 {} {} {} {} {} {} {} {} {} {}",
            var.v, var.drounds, blit(&key), var.nonce_len, blit(&nonce), nlit_u128(pos), n, dlit(&data), res.code(), blit(&outb)
        ));
    }
    // ONE call far longer than the designated large cases (they stop at 16 KiB = 64 iterations of the
    // 256-byte loop): 64 KiB + 256 .. + 4255 bytes, more than 256 wide iterations and more than 2^16
    // bytes in one call. Comparing all of it with the spec would cost coqc ~10 s, so (i) three
    // 512-byte WINDOWS of the output (around the 65th wide iteration, around byte 2^16 of the wide
    // run, the last 512 bytes) go to Coq as ordinary cases "seek(pos + offset), apply(512 bytes)":
    // the spec at the right block index; (ii) the WHOLE output must be what the same object type
    // gives for the same data in 4 KiB calls (each of those is a shape the other cases compare with
    // the spec). Appended after the `count` ordinary cases; `--long 0` switches it off.
    let mut long_js = String::from("null");
    let mut long_direct: Vec<String> = Vec::new();
    let mut n_cases = count;
    if a.u64("long", 1) > 0 {
        let var = &VARIANTS[((seed / 3) % 7) as usize];
        let key = rng.bytes(32);
        let nonce = rng.bytes(var.nonce_len);
        let n = 65536 + 256 + rng.below(4000) as usize;
        let b38: u128 = 1 << 38;
        let (pos, shape): (u128, &str) = match seed % 3 {
            0 => (64 * rng.below(4) as u128 + 1 + rng.below(63) as u128, "mid-block start near 0"),
            1 => {
                if var.v == 1 {
                    (b38 - n as u128, "ends exactly at 2^38")
                } else {
                    (b38 - rng.range(17000, n as u64 - 600) as u128, "across 2^32 blocks after more than 64 wide iterations")
                }
            }
            _ => ((rng.u64() as u128 % (b38 - 80000)) | 1, "random odd position"),
        };
        let data = gen_data(&mut rng, n);
        let pseed = pat_seed(&data).map(|s| s as i64).unwrap_or(-1);
        *by_variant.entry(var.name).or_default() += 1;
        *len_hist.entry(len_class(n)).or_default() += 1;
        let head = ((64 - (pos % 64)) % 64) as usize;
        let iters = (n - head) / 256;
        let ident = format!("\"variant\":{},\"key\":{},\"nonce\":{},\"pos\":\"{}\",\"len\":{},\"data\":\"Pat(len, {}): high bytes of x, 5x+12345 mod 2^16 from that seed\"", jstr(var.name), jstr(&hex(&key)), jstr(&hex(&nonce)), pos, n, pseed);
        let one = catch_unwind(AssertUnwindSafe(|| {
            let mut c = AnyCipher::new(var, &key, &nonce);
            let sr = c.seek(Ty::U64, pos as i128);
            let mut buf = data.clone();
            let r = if sr == Res::Ok { c.apply(&mut buf) } else { Res::Panic };
            (sr, r, buf, c.pos(Ty::U128))
        }));
        let mut windows: Vec<usize> = Vec::new();
        let mut same_4k = false;
        match one {
            Ok((sr, r, buf, after)) if sr == Res::Ok && r == Res::Ok => {
                res_count[0] += 1;
                max_wide_iters = max_wide_iters.max(iters);
                if after != (Res::Ok, (pos + n as u128) as i128) {
                    long_direct.push(format!("{{{},\"what\":\"after the one call current_pos::<u128>() is {} {}, expected {}\"}}", ident, after.0.s(), after.1, pos + n as u128));
                }
                // (ii) the same bytes in 4 KiB calls
                let mut c = AnyCipher::new(var, &key, &nonce);
                let mut b2 = data.clone();
                let mut ok4 = c.seek(Ty::U64, pos as i128) == Res::Ok;
                for piece in b2.chunks_mut(4096) {
                    ok4 &= c.apply(piece) == Res::Ok;
                }
                same_4k = ok4 && b2 == buf;
                if !same_4k {
                    let at = b2.iter().zip(buf.iter()).position(|(x, y)| x != y).unwrap_or(n);
                    long_direct.push(format!(
                        "{{{},\"what\":\"one apply_keystream call of {} bytes ({} wide iterations) gives other bytes than the same data in 4 KiB calls on a second object seeked to the same position (all calls ok: {}); first differing byte {} (wide iteration {}): one call {}, 4 KiB calls {}\"}}",
                        ident, n, iters, ok4, at, at.saturating_sub(head) / 256 + 1,
                        hex(&buf[at.min(n - 1)..(at + 16).min(n)]), hex(&b2[at.min(n - 1)..(at + 16).min(n)])
                    ));
                }
                // (i) windows of the one call's output against model and spec
                windows = vec![head + 64 * 256 - 128, head + 65536 - 256, n - 512];
                for off in windows.iter() {
                    let (wd, wo) = (&data[*off..*off + 512], &buf[*off..*off + 512]);
                    let wpos = pos + *off as u128;
                    distinct.insert((var.name, key.clone(), nonce.clone(), wpos, wd.to_vec()));
                    js.push(format!(
                        "{{\"variant\":{},\"key\":{},\"nonce\":{},\"prefix_history\":[],\"seek_type\":\"u64\",\"pos\":\"{}\",\"len\":512,\"data\":{},\"result\":\"ok\",\"out\":{},\"window_of_one_call\":{{{},\"offset\":{},\"note\":\"data/out are bytes offset..offset+512 of ONE seek(pos) + apply_keystream(len bytes) call; the case says they are the key stream at pos+offset\"}}}}",
                        jstr(var.name), jstr(&hex(&key)), jstr(&hex(&nonce)), wpos, jstr(&hex(wd)), jstr(&hex(wo)), ident, off
                    ));
                    cases.push(format!(
                        "C01 {} {} {} {} {} {} {} {} {} {}",
                        var.v, var.drounds, blit(&key), var.nonce_len, blit(&nonce), nlit_u128(wpos), 512, blit(wd), 0, blit(wo)
                    ));
                    n_cases += 1;
                }
            }
            Ok((sr, r, _, _)) => {
                res_count[r.code() as usize] += 1;
                long_direct.push(format!("{{{},\"what\":\"the one call is within the key stream but seek returned {} and apply_keystream {}\"}}", ident, sr.s(), r.s()));
            }
            Err(_) => {
                res_count[2] += 1;
                long_direct.push(format!("{{{},\"what\":\"constructor / seek / apply_keystream of the one long call panicked\"}}", ident));
            }
        }
        long_js = format!(
            "{{{},\"shape\":{},\"wide_iterations\":{},\"window_offsets_compared_with_model_and_spec\":{:?},\"window_cases\":[{},{}],\"whole_output_same_as_4KiB_calls\":{}}}",
            ident, jstr(shape), iters, windows, count, n_cases, same_4k
        );
    }
    write_shards(&out, shards, CASE_HEADER, "c01case", "run_c01", &cases);
    std::fs::write(format!("{}/cases.json", out), format!("[{}]", js.join(",\n"))).unwrap();
    let bv: Vec<String> = by_variant.iter().map(|(k, v)| format!("{}:{}", jstr(k), v)).collect();
    let lh: Vec<String> = len_hist.iter().map(|(k, v)| format!("{}:{}", jstr(k), v)).collect();
    let st: Vec<String> = seek_types.iter().map(|(k, v)| format!("{}:{}", jstr(k), v)).collect();
    // (failures of the long call first: the report is capped)
    long_direct.extend(direct);
    let mut direct = long_direct;
    direct.truncate(5);
    // samples: two small cases (the large ones are in `large_cases` by position and length only)
    let samples: Vec<String> = js.iter().skip(14).filter(|j| j.len() < 3000).take(2).cloned().collect();
    println!(
        "{{\"evaluations\":{},\"distinct_nontrivial\":{},\"backend_level\":{},\"backend_level_read_back\":{},\"cases_after_a_prefix_history\":{},\"by_variant\":{{{}}},\"length_classes\":{{{}}},\"large_cases\":[{}],\"max_wide_loop_iterations_in_one_call\":{},\"measured_seek_types\":{{{}}},\"calls_next_to_k_2^32_blocks_k_ge_2\":{},\"results\":{{\"ok\":{},\"err\":{},\"panic\":{}}},\"long_call\":{},\"direct_failures\":[{}],\"samples\":[{}]}}",
        n_cases, distinct.len(), level, readback, n_prefixed, bv.join(","), lh.join(","), large_js.join(","), max_wide_iters, st.join(","), n_high_carry,
        res_count[0], res_count[1], res_count[2], long_js, direct.join(","), samples.join(",")
    );
}

// ---------------------------------------------------------------------------------------------
// C02 / C11: histories
// ---------------------------------------------------------------------------------------------
#[derive(Clone, Debug)]
enum Op {
    Seek(Ty, i128),
    Apply(Vec<u8>),
    Pos(Ty),
}

/// `large` = chance in 1000 that an apply takes its length from the 2-16 KiB class
fn gen_history(rng: &mut Rng, var: &Variant, mode: &str, maxops: usize, big: bool, large: u64) -> Vec<Op> {
    let nops = rng.range(3, maxops as u64) as usize;
    let mut ops = Vec::new();
    for j in 0..nops {
        let k = rng.below(100);
        if (j == 0 && rng.chance(2, 3)) || k < 30 {
            // seek
            let r = rng.below(20);
            let before = ops.len();
            if r == 0 {
                // negative i32
                ops.push(Op::Seek(Ty::I32, -(rng.below(1000) as i128) - 1));
            } else if r == 1 {
                // beyond u64: just past 2^64, far past it, and the upper half of u128 (carried as a negative i128)
                let v: i128 = match rng.below(5) {
                    0 | 1 => (1i128 << 64) + rng.below(1000) as i128,
                    2 => (1i128 << 64) << rng.below(63),
                    3 => i128::MAX - rng.below(3) as i128,
                    _ => -1 - ((rng.u64() as i128) << rng.below(63)), // 2^128 - 1 - x: top bit set
                };
                ops.push(Op::Seek(Ty::U128, v));
            } else if (r == 2 || r == 3) && var.v == 1 {
                // IETF: past the end, near and far: a range test done on a truncated block count
                // (or on the low 32 bits of the block count) accepts 2^39, 3*2^38, k*2^38 ...
                let b38 = 1i128 << 38;
                let v: i128 = match rng.below(10) {
                    0 | 1 => b38 + 1 + rng.below(200) as i128,
                    2 => b38 + (1 << 12) + rng.below(64) as i128,
                    3 => 1i128 << 39,
                    4 => 3 * b38 + rng.below(2) as i128 * rng.below(64) as i128,
                    5 => (2 + rng.below(1 << 20) as i128) * b38 + rng.below(130) as i128, // block count = 0 mod 2^32
                    6 => 1i128 << 63,
                    7 => u64::MAX as i128 - rng.below(2) as i128 * rng.below(64) as i128,
                    8 => (rng.u64() as i128) | (1i128 << (39 + rng.below(25))),
                    _ => (1i128 << 64) + (rng.below(1 << 38) as i128), // u128 whose low 64 bits are in range
                };
                ops.push(Op::Seek(if v > u64::MAX as i128 { Ty::U128 } else if rng.chance(1, 4) { Ty::U128 } else if rng.chance(1, 3) { Ty::Usize } else { Ty::U64 }, v));
            } else {
                let mut p = gen_pos(rng, var) as i128;
                if mode == "c11" && var.v != 1 && rng.chance(1, 2) {
                    p = (u64::MAX as i128) - rng.below(300) as i128;
                }
                let ty = pick_ty_for(rng, p);
                ops.push(Op::Seek(ty, p));
                if rng.chance(1, 5) {
                    ops.push(Op::Apply(Vec::new())); // empty request right after a seek
                }
            }
            if ops.len() == before + 1 && r <= 3 && rng.chance(1, 2) {
                // what current_pos says right after a seek that was (probably) refused
                ops.push(Op::Pos(*rng.pick(&[Ty::U64, Ty::U128, Ty::Usize, Ty::U32])));
            }
        } else if k < 85 {
            let n = gen_len(rng, big, large);
            ops.push(Op::Apply(gen_data(rng, n)));
        } else {
            ops.push(Op::Pos(*rng.pick(&TYS)));
        }
    }
    ops
}

/// Boundary-directed histories (deterministic apart from the data bytes): every boundary the
/// design lists, for the given variant. `sel` picks one of them.
const NKINDS: usize = 14;
/// `hist --long-apply 1` (default: runs of 200 histories or more): the first kind-12 history of the run ends with
/// ONE apply of ~66 KiB. Its Coq case is ~460 KB of text (block oracle + output; ~3 s of coqc for that shard), so
/// the short forced-back-end runs leave it out (C01 has a long call in every configuration).
static LONG_APPLY: std::sync::atomic::AtomicBool = std::sync::atomic::AtomicBool::new(false);
fn boundary_history(rng: &mut Rng, var: &Variant, sel: usize) -> Vec<Op> {
    let fill = |rng: &mut Rng, n: usize| Op::Apply(gen_data(rng, n));
    let b38: i128 = 1 << 38; // 2^32 blocks: end of the IETF stream, low counter word carry elsewhere
    let ietf = var.v == 1;
    let mut ops = Vec::new();
    let sub = sel / NKINDS; // second selector: varies what a kind does from one round to the next
    match sel % NKINDS {
        0 => {
            // position 0, every type, empty and one-byte applies
            for t in TYS.iter() {
                ops.push(Op::Seek(*t, 0));
                ops.push(Op::Pos(*t));
            }
            ops.push(fill(rng, 0));
            ops.push(fill(rng, 1));
            ops.push(Op::Pos(Ty::U8));
        }
        1 => {
            // mid-block seeks into block 0 with every seek type; short applies that stay in / leave the block
            let r = 1 + rng.below(63) as i128;
            let t = TYS[sub % 7];
            ops.push(Op::Seek(t, r));
            ops.push(Op::Pos(Ty::U16));
            if sub % 2 == 1 {
                ops.push(fill(rng, 0)); // an empty request while the block of the seek is still pending
                ops.push(Op::Pos(Ty::U16));
            }
            ops.push(fill(rng, 1));
            ops.push(fill(rng, (64 - r - 1) as usize)); // exactly to the end of block 0
            ops.push(Op::Pos(Ty::I32));
            ops.push(fill(rng, 65));
            ops.push(Op::Seek(Ty::U8, 63));
            ops.push(fill(rng, 2));
            ops.push(Op::Pos(Ty::U8));
        }
        2 => {
            // negative / too large arguments never move the position
            ops.push(fill(rng, 5));
            ops.push(Op::Seek(Ty::I32, -1));
            ops.push(Op::Seek(Ty::I32, i32::MIN as i128));
            ops.push(Op::Seek(Ty::U128, 1i128 << 64));
            ops.push(Op::Seek(Ty::U128, i128::MAX));
            ops.push(Op::Seek(Ty::U128, -1));              // u128::MAX
            ops.push(Op::Seek(Ty::U128, i128::MIN));       // 2^127
            ops.push(Op::Seek(Ty::U128, -(1i128 << 64)));  // 2^128 - 2^64: low 64 bits zero
            ops.push(Op::Pos(Ty::U64));
            ops.push(fill(rng, 70));
            ops.push(Op::Seek(Ty::I32, i32::MAX as i128));
            ops.push(fill(rng, 3));
            ops.push(Op::Pos(Ty::I32));
            ops.push(Op::Pos(Ty::U32));
        }
        3 => {
            // across 2^32 blocks (2^38 bytes): mid-block, then over the boundary
            let back = 1 + rng.below(130) as i128;
            ops.push(Op::Seek(Ty::U64, b38 - back));
            ops.push(fill(rng, back as usize)); // exactly to the boundary
            ops.push(Op::Pos(Ty::U64));
            ops.push(fill(rng, 0));
            ops.push(fill(rng, 1)); // IETF: one past the end
            ops.push(Op::Pos(Ty::U128));
            ops.push(Op::Seek(Ty::U64, b38 - 128));
            ops.push(fill(rng, 64)); // after the final IETF block was produced: same nonce?
            ops.push(Op::Pos(Ty::U64));
        }
        4 => {
            // one past the end in one call, through the wide path, then exactly to the end
            let back = 257 + rng.below(600) as i128;
            ops.push(Op::Seek(Ty::U64, b38 - back));
            ops.push(fill(rng, back as usize + 1));
            ops.push(Op::Pos(Ty::U64));
            ops.push(fill(rng, back as usize));
            ops.push(Op::Pos(Ty::U64));
            ops.push(fill(rng, 1));
            ops.push(fill(rng, 0));
        }
        5 => {
            // seek to the end, past the end, and back
            ops.push(Op::Seek(Ty::U64, b38));
            ops.push(fill(rng, 0));
            ops.push(fill(rng, 1));
            ops.push(Op::Pos(Ty::U64));
            ops.push(Op::Seek(Ty::U64, b38 + 1));
            ops.push(Op::Seek(Ty::U128, b38 + 64));
            ops.push(Op::Pos(Ty::U64));
            // far past the end of the 32-bit-counter stream (accepted positions of the 64-bit ones):
            // values whose block count is 0 modulo 2^32, or has no low bits at all
            let far: [(Ty, i128); 6] = [
                (Ty::U64, 1 << 39),
                (Ty::U64, 3 * b38),
                (Ty::Usize, b38 + (1 << 12)),
                (Ty::U64, 1 << 63),
                (Ty::U64, u64::MAX as i128),
                (Ty::U128, (1 << 64) + 64),
            ];
            for j in 0..3 {
                let (t, v) = far[(sub + 2 * j) % 6];
                ops.push(Op::Seek(t, v));
                ops.push(Op::Pos(Ty::U128));
            }
            ops.push(Op::Seek(Ty::U64, b38 - 64));
            ops.push(fill(rng, 64));
            ops.push(fill(rng, 1));
            ops.push(Op::Seek(Ty::U64, b38 - 1));
            ops.push(fill(rng, 1));
            ops.push(Op::Pos(Ty::U64));
        }
        6 => {
            // mid-block seek into the last block before the boundary, failing apply, then what follows
            let r = 1 + rng.below(63) as i128;
            ops.push(Op::Seek(Ty::U64, b38 - 64 + r));
            if sub % 2 == 1 {
                ops.push(fill(rng, 0)); // empty request: the lazy fill of the LAST block runs here
                ops.push(Op::Pos(Ty::U64));
            }
            ops.push(fill(rng, (64 - r) as usize + 1)); // IETF: Err after the lazy fill has run
            ops.push(Op::Pos(Ty::U64));
            ops.push(fill(rng, (64 - r) as usize));
            ops.push(fill(rng, 1));
            ops.push(Op::Pos(Ty::U64));
            ops.push(Op::Seek(Ty::U64, 5));
            ops.push(fill(rng, 7));
        }
        7 => {
            // the end of the u64-addressable range (64-bit variants run on past 2^64 bytes)
            let back = rng.below(200) as i128;
            let p = if ietf { b38 - back } else { u64::MAX as i128 - back };
            ops.push(Op::Seek(Ty::U64, p));
            ops.push(fill(rng, back as usize + 1));
            ops.push(Op::Pos(Ty::U64));
            ops.push(Op::Pos(Ty::U128));
            ops.push(fill(rng, 300));
            ops.push(Op::Pos(Ty::U64));
            ops.push(Op::Pos(Ty::U128));
            ops.push(Op::Pos(Ty::Usize));
        }
        8 => {
            // current_pos at the edge of every type
            for (t, v) in [(Ty::U8, 255i128), (Ty::U16, 65535), (Ty::I32, i32::MAX as i128), (Ty::U32, u32::MAX as i128)] {
                if ietf || v <= (1 << 38) {
                    ops.push(Op::Seek(t, v));
                    ops.push(Op::Pos(t));
                    ops.push(fill(rng, 1));
                    ops.push(Op::Pos(t));
                }
            }
        }
        9 => {
            // wide path from a mid-block seek, every tail residue class
            let r = rng.below(64) as i128;
            ops.push(Op::Seek(Ty::U16, 64 * rng.below(4) as i128 + r));
            let extra = rng.below(64) as usize;
            ops.push(fill(rng, 256 + extra));
            ops.push(fill(rng, 512 + (64 - r) as usize));
            ops.push(Op::Pos(Ty::U16));
            ops.push(fill(rng, 1024));
            ops.push(fill(rng, 63));
            ops.push(Op::Pos(Ty::U32));
        }
        10 => {
            // repeated failing applies do not move anything (IETF); otherwise plain chunking
            ops.push(Op::Seek(Ty::U64, b38 - 3));
            for n in [4usize, 300, 3, 1, 0] {
                ops.push(fill(rng, n));
                ops.push(Op::Pos(Ty::U64));
            }
        }
        12 => {
            // large input from a mid-block seek: the pending block first, then 8..13 (32 every fourth round) iterations of
            // the 256-byte loop in ONE call, then a tail; a second multi-KiB call continues mid-block
            let r = 1 + rng.below(63) as i128;
            let base: i128 = match sub % 3 { 0 => 64 * rng.below(4) as i128, 1 => b38 - 64 * (20 + rng.below(80) as i128), _ => 64 * rng.below(1 << 30) as i128 };
            ops.push(Op::Seek(Ty::U64, base + r));
            let n1 = 2048 + 256 * rng.below(5) as usize + rng.below(256) as usize;
            ops.push(fill(rng, n1));
            ops.push(Op::Pos(Ty::U64));
            let n2 = if sub % 4 == 1 { 8192 + rng.below(64) as usize } else { 2048 + rng.below(1024) as usize };
            ops.push(fill(rng, n2));
            ops.push(Op::Pos(Ty::U128));
            ops.push(fill(rng, 1));
            if sub == 0 && LONG_APPLY.load(std::sync::atomic::Ordering::Relaxed) {
                // first round only (one history per run, when `hist --long-apply` is on): ONE apply of 64 KiB + 256 .. + 4255 bytes, continuing
                // mid-block: more than 256 iterations of the wide loop and more than 2^16 bytes in one call
                let n3 = 65536 + 256 + rng.below(4000) as usize;
                ops.push(fill(rng, n3));
                ops.push(Op::Pos(Ty::U64));
                ops.push(fill(rng, 1));
            }
        }
        13 => {
            // 4 KiB (and more) across 2^32 blocks. 64-bit variants: the low counter word carries in
            // the middle of the wide run. IETF: one call that would cross the end is refused whole,
            // the same call shortened to end exactly at 2^38 succeeds, one more byte is refused.
            let n = 4096 + 256 * rng.below(3) as usize + if sub % 2 == 0 { 0 } else { rng.below(256) as usize };
            let back = 1 + rng.below(n as u64 - 1) as i128;
            ops.push(Op::Seek(Ty::U64, b38 - back));
            ops.push(fill(rng, n));
            ops.push(Op::Pos(Ty::U64));
            ops.push(fill(rng, back as usize));
            ops.push(Op::Pos(Ty::U64));
            ops.push(fill(rng, 1));
            ops.push(fill(rng, 0));
            ops.push(Op::Pos(Ty::U128));
        }
        _ => {
            // seek backwards into a block already consumed, and to the same place twice
            ops.push(fill(rng, 100));
            ops.push(Op::Seek(Ty::U8, 70));
            ops.push(fill(rng, 0));
            ops.push(fill(rng, 10));
            ops.push(Op::Seek(Ty::U8, 70));
            ops.push(Op::Seek(Ty::U8, 70));
            ops.push(fill(rng, 0));
            ops.push(fill(rng, 0));
            ops.push(fill(rng, 10));
            ops.push(Op::Seek(Ty::U8, 64));
            ops.push(fill(rng, 64));
            ops.push(Op::Pos(Ty::U8));
        }
    }
    ops
}

/// The property itself, evaluated on the implementation only (no model, no oracle table):
/// the recorded history is replayed (a) with every apply split into chunks, (b) with a seek to
/// the absolute position in front of every apply, (c) applying every successful apply twice
/// (seek back in between), (d) every apply on a fresh instance seeked to the absolute position.
fn relative_checks(rng: &mut Rng, var: &Variant, key: &[u8], nonce: &[u8], ops: &[Op]) -> Vec<String> {
    let mut failures = Vec::new();
    // reference run
    let mut c = AnyCipher::new(var, key, nonce);
    let mut pos: u128 = 0;
    let mut refs: Vec<(u128, Res, Vec<u8>)> = Vec::new(); // per op: position before, result, output
    for op in ops {
        match op {
            Op::Seek(ty, v) => {
                let r = c.seek(*ty, *v);
                refs.push((pos, r, vec![]));
                if r == Res::Ok {
                    pos = *v as u128;
                }
            }
            Op::Apply(d) => {
                let mut buf = d.clone();
                let r = c.apply(&mut buf);
                refs.push((pos, r, buf));
                if r == Res::Ok {
                    pos += d.len() as u128;
                }
            }
            Op::Pos(ty) => {
                let (r, v) = c.pos(*ty);
                refs.push((pos, r, (v as u128).to_le_bytes().to_vec()));
            }
        }
    }
    let final_pos = c.pos(Ty::U128);
    // (a) re-chunked
    {
        let mut c = AnyCipher::new(var, key, nonce);
        for (j, op) in ops.iter().enumerate() {
            match op {
                Op::Seek(ty, v) => {
                    c.seek(*ty, *v);
                }
                Op::Apply(d) => {
                    if refs[j].1 != Res::Ok {
                        let mut buf = d.clone();
                        c.apply(&mut buf);
                        continue;
                    }
                    let mut buf = d.clone();
                    let mut at = 0usize;
                    let mut cuts = Vec::new();
                    let mut all_ok = true;
                    while at < buf.len() {
                        let step = match rng.below(7) {
                            0 => 1,
                            1 => 64,
                            2 => 1 + rng.below(63) as usize,
                            3 => 256,
                            4 => 512 + 256 * rng.below(3) as usize,      // several wide iterations per piece
                            5 => 1024 + rng.below(2048) as usize,
                            _ => 1 + rng.below(buf.len() as u64) as usize,
                        }
                        .min(buf.len() - at);
                        cuts.push(step);
                        if c.apply(&mut buf[at..at + step]) != Res::Ok {
                            all_ok = false;
                        }
                        at += step;
                    }
                    if !all_ok || buf != refs[j].2 {
                        failures.push(format!("{{\"op\":{},\"what\":\"re-chunking: apply({} bytes) at position {} split into pieces {:?} gives different bytes (or an error) than the single call\"}}", j, d.len(), refs[j].0, cuts));
                    }
                }
                Op::Pos(ty) => {
                    let (r, v) = c.pos(*ty);
                    if r != refs[j].1 || (v as u128).to_le_bytes().to_vec() != refs[j].2 {
                        failures.push(format!("{{\"op\":{},\"what\":\"re-chunking: current_pos::<{}>() differs after the same bytes were applied in different pieces\"}}", j, ty.name()));
                    }
                }
            }
        }
        if c.pos(Ty::U128) != final_pos {
            failures.push("{\"what\":\"re-chunking: final current_pos differs\"}".to_string());
        }
    }
    // (b) re-seeked, (c) twice, (d) fresh instance
    {
        let mut c = AnyCipher::new(var, key, nonce);
        for (j, op) in ops.iter().enumerate() {
            match op {
                Op::Seek(ty, v) => {
                    c.seek(*ty, *v);
                }
                Op::Apply(d) => {
                    let p = refs[j].0;
                    if p > u64::MAX as u128 {
                        let mut buf = d.clone();
                        c.apply(&mut buf);
                        continue;
                    }
                    if c.seek(Ty::U64, p as i128) != Res::Ok {
                        failures.push(format!("{{\"op\":{},\"what\":\"re-seeking: seek to the current position {} is rejected\"}}", j, p));
                    }
                    let mut buf = d.clone();
                    let r = c.apply(&mut buf);
                    if r != refs[j].1 || buf != refs[j].2 {
                        failures.push(format!("{{\"op\":{},\"what\":\"re-seeking: apply({} bytes) after an explicit seek to the current position {} differs from the same apply without the seek\"}}", j, d.len(), p));
                    }
                    if r == Res::Ok {
                        // (c) seek back and apply again: the data must come back
                        c.seek(Ty::U64, p as i128);
                        let mut again = buf.clone();
                        let r2 = c.apply(&mut again);
                        if r2 != Res::Ok || again != *d {
                            failures.push(format!("{{\"op\":{},\"what\":\"apply twice: seek({}), apply({} bytes), seek({}), apply again does not restore the data\"}}", j, p, d.len(), p));
                        }
                        // (d) fresh instance
                        let mut f = AnyCipher::new(var, key, nonce);
                        let ty = if rng.chance(1, 2) { Ty::U64 } else { Ty::U128 };
                        f.seek(ty, p as i128);
                        let mut fb = d.clone();
                        let r3 = f.apply(&mut fb);
                        if r3 != Res::Ok || fb != refs[j].2 {
                            failures.push(format!("{{\"op\":{},\"what\":\"history dependence: apply({} bytes) at position {} after this history differs from a fresh instance seeked to {}\"}}", j, d.len(), p, p));
                        }
                    }
                }
                Op::Pos(_) => {}
            }
        }
    }
    // (e) calls longer than 16 640 bytes (65 and more iterations of the wide loop in one call): a
    // second object seeked to the same position must give the same bytes in 4 KiB calls
    for (j, op) in ops.iter().enumerate() {
        if let Op::Apply(d) = op {
            let p = refs[j].0;
            if d.len() > 16640 && refs[j].1 == Res::Ok && p <= u64::MAX as u128 {
                let mut f = AnyCipher::new(var, key, nonce);
                let mut ok = f.seek(Ty::U64, p as i128) == Res::Ok;
                let mut fb = d.clone();
                for piece in fb.chunks_mut(4096) {
                    ok &= f.apply(piece) == Res::Ok;
                }
                if !ok || fb != refs[j].2 {
                    let at = fb.iter().zip(refs[j].2.iter()).position(|(x, y)| x != y).unwrap_or(d.len());
                    failures.insert(0, format!("{{\"op\":{},\"what\":\"one apply of {} bytes at position {} gives other bytes than the same data in 4 KiB calls on a fresh instance seeked to {} (all ok: {}); first differing byte {}\"}}", j, d.len(), p, p, ok, at));
                }
            }
        }
    }
    failures.truncate(3);
    failures
}

struct HistResult {
    coq: String,
    json: String,
    failures: Vec<String>,
    nontrivial: bool,
    nops: usize,
    errs: usize,
    max_apply: usize,
    large_applies: usize,
    empty_applies: usize,
    failed_applies: usize,
    failed_seeks: usize,
    far_ietf_seeks: usize,
    u128_top_half_seeks: usize,
    probes: usize,
}

/// blocks past the first one of a call for which the block oracle is filled in (one call of the
/// large class spans 257 blocks, the one long call of boundary kind 12 up to 1092)
const ORACLE_SPAN: u128 = 1200;

fn run_history(var: &Variant, key: &[u8], nonce: &[u8], ops: &[Op]) -> HistResult {
    let lim = limit(var);
    let mut pos: u128 = 0; // abstract position
    let mut oracle: BTreeMap<u128, Vec<u8>> = BTreeMap::new();
    let mut hops = Vec::new();
    let mut jops = Vec::new();
    let mut failures = Vec::new();
    let mut errs = 0;
    let mut applied = 0usize;
    let mut seeks_mid = false;
    let (mut max_apply, mut large_applies, mut empty_applies, mut failed_applies, mut failed_seeks) = (0usize, 0usize, 0usize, 0usize, 0usize);
    let (mut far_ietf_seeks, mut top_half, mut probes) = (0usize, 0usize, 0usize);
    let mut c = match AnyCipher::try_new(var, key, nonce) {
        Some(c) => c,
        None => {
            let json = format!("{{\"variant\":{},\"key\":{},\"nonce\":{},\"ops\":[]}}", jstr(var.name), jstr(&hex(key)), jstr(&hex(nonce)));
            return HistResult {
                coq: format!("Hist {} {} [] [HSeek 0%Z 2]", var.v == 1, dlist(&dwords(var, nonce, 0))),
                json,
                failures: vec!["{\"what\":\"the constructor panicked\"}".to_string()],
                nontrivial: false, nops: 0, errs: 1, max_apply: 0, large_applies: 0, empty_applies: 0, failed_applies: 0,
                failed_seeks: 0, far_ietf_seeks: 0, u128_top_half_seeks: 0, probes: 0,
            };
        }
    };
    let mut need = |k: u128, oracle: &mut BTreeMap<u128, Vec<u8>>| {
        if !oracle.contains_key(&k) {
            if let Some(b) = oracle_block(var, key, nonce, k) {
                oracle.insert(k, b);
            }
        }
    };
    // After a refused call nothing may have moved. current_pos is `&self`, so asking does not
    // disturb the history; what the object would do NEXT is asked of a fork (a new instance that
    // gets a clone of the Buffer): one more byte (or, at the very end, the refusal of one more
    // byte), and the bytes up to the end of the stream when that is near.
    let after_refusal = |c: &AnyCipher, j: usize, what: &str, pos: u128, oracle: &mut BTreeMap<u128, Vec<u8>>, failures: &mut Vec<String>,
                         need: &mut dyn FnMut(u128, &mut BTreeMap<u128, Vec<u8>>)| {
        let got = c.pos(Ty::U128);
        if got != (Res::Ok, pos as i128) {
            failures.push(format!("{{\"op\":{},\"what\":\"after the refused {} current_pos::<u128>() returns {} {}, the position before the call was {}\"}}", j, what, got.0.s(), got.1, pos));
        }
        let mut f = match c.fork(var, key, nonce) {
            Some(f) => f,
            None => {
                failures.push(format!("{{\"op\":{},\"what\":\"cloning the Buffer after the refused {} panicked\"}}", j, what));
                return;
            }
        };
        let room = lim - pos.min(lim);
        let m: usize = if room == 0 { 1 } else if room <= 4096 { room as usize } else { 1 };
        for k in pos / 64..=(pos + m as u128 - 1) / 64 {
            need(k, oracle);
        }
        let mut b = vec![0x3cu8; m];
        let r = f.apply(&mut b);
        if room == 0 {
            if r != Res::Err || b != vec![0x3cu8; m] {
                failures.push(format!("{{\"op\":{},\"what\":\"after the refused {} at the end of the stream, apply(1 byte) on a clone of the object returned {} (expected err, data untouched)\"}}", j, what, r.s()));
            }
        } else {
            let mut good = r == Res::Ok;
            for (i, x) in b.iter().enumerate() {
                let p = pos + i as u128;
                match oracle.get(&(p / 64)) {
                    Some(blk) => good &= *x == 0x3c ^ blk[(p % 64) as usize],
                    None => good = false,
                }
            }
            if !good {
                failures.push(format!("{{\"op\":{},\"what\":\"after the refused {} at position {}, apply({} bytes) on a clone of the object returned {} / bytes that are not the key stream from {} on\"}}", j, what, pos, m, r.s(), pos));
            }
        }
    };
    for (j, op) in ops.iter().enumerate() {
        match op {
            Op::Seek(ty, v) => {
                let r = c.seek(*ty, *v);
                let target = seek_u64(*ty, *v);
                let in_range = match target {
                    Some(t) => var.v != 1 || (t as u128) <= lim,
                    None => false,
                };
                if var.v == 1 && target.map(|t| t as u128 > lim + 256).unwrap_or(false) {
                    far_ietf_seeks += 1;
                }
                if *ty == Ty::U128 && *v < 0 {
                    top_half += 1;
                }
                let expect = if in_range { Res::Ok } else { Res::Err };
                if r != expect {
                    failures.push(format!("{{\"op\":{},\"what\":\"seek::<{}>({}) returned {}, expected {}\"}}", j, ty.name(), seek_math(*ty, *v), r.s(), expect.s()));
                }
                if r == Res::Ok {
                    pos = target.map(|t| t as u128).unwrap_or(pos);
                    if pos % 64 != 0 {
                        seeks_mid = true;
                    }
                }
                if r != Res::Ok {
                    errs += 1;
                    failed_seeks += 1;
                }
                if r == Res::Err {
                    probes += 1;
                    after_refusal(&c, j, "seek", pos, &mut oracle, &mut failures, &mut need);
                }
                hops.push(format!("HSeek ({})%Z {}", seek_math(*ty, *v), r.code()));
                jops.push(format!("{{\"seek\":\"{}\",\"type\":{},\"result\":{}}}", seek_math(*ty, *v), jstr(ty.name()), jstr(r.s())));
            }
            Op::Apply(data) => {
                let n = data.len() as u128;
                max_apply = max_apply.max(data.len());
                if data.len() >= 2048 {
                    large_applies += 1;
                }
                if data.is_empty() {
                    empty_applies += 1;
                }
                // blocks the implementation may generate (incl. the lazily pending one)
                let first = pos / 64;
                let last = (pos + n.max(1) - 1) / 64;
                for k in first..=last.min(first + ORACLE_SPAN) {
                    need(k, &mut oracle);
                }
                let mut buf = data.clone();
                let r = c.apply(&mut buf);
                let expect_ok = pos + n <= lim;
                if r == Res::Panic {
                    failures.push(format!("{{\"op\":{},\"what\":\"apply({} bytes) at position {} panicked\"}}", j, n, pos));
                } else if (r == Res::Ok) != expect_ok {
                    failures.push(format!("{{\"op\":{},\"what\":\"apply({} bytes) at position {} returned {}, expected ok={}\"}}", j, n, pos, r.s(), expect_ok));
                } else if r == Res::Err {
                    if buf != *data {
                        failures.push(format!("{{\"op\":{},\"what\":\"failed apply({} bytes) at position {} modified the data\"}}", j, n, pos));
                    }
                } else {
                    // every byte must be data xor keystream(absolute position); a block the oracle
                    // cannot produce (fresh instance, seek to the block, apply 64 bytes fails or
                    // panics) is a failure of its own, never a skipped comparison
                    for (i, b) in buf.iter().enumerate() {
                        let p = pos + i as u128;
                        match oracle.get(&(p / 64)) {
                            Some(blk) => {
                                if *b != data[i] ^ blk[(p % 64) as usize] {
                                    failures.push(format!("{{\"op\":{},\"what\":\"apply({} bytes) at position {}: byte {} is not data xor keystream[{}] (oracle: fresh instance seeked to the block)\"}}", j, n, pos, i, p));
                                    break;
                                }
                            }
                            None => {
                                failures.push(format!("{{\"op\":{},\"what\":\"apply({} bytes) at position {} succeeded, but a fresh instance cannot produce block {} (seek + apply of 64 bytes is refused or panics)\"}}", j, n, pos, p / 64));
                                break;
                            }
                        }
                    }
                    pos += n;
                    applied += data.len();
                }
                if r != Res::Ok {
                    errs += 1;
                    failed_applies += 1;
                }
                if r == Res::Err {
                    probes += 1;
                    after_refusal(&c, j, "apply", pos, &mut oracle, &mut failures, &mut need);
                }
                hops.push(format!("HApply {} {} {} {}", data.len(), dlit(data), r.code(), blit(&buf)));
                jops.push(format!("{{\"apply\":{},\"data\":{},\"result\":{},\"out\":{}}}", data.len(), jstr(&hex(data)), jstr(r.s()), jstr(&hex(&buf))));
            }
            Op::Pos(ty) => {
                let (r, v) = c.pos(*ty);
                let fits = pos as i128 <= ty.max() && pos <= i128::MAX as u128;
                let expect = if fits { Res::Ok } else { Res::Err };
                if r != expect || (r == Res::Ok && v as u128 != pos) {
                    failures.push(format!("{{\"op\":{},\"what\":\"current_pos::<{}>() returned {} {} at absolute position {}\"}}", j, ty.name(), r.s(), v, pos));
                }
                if r == Res::Panic {
                    // the model has no panic outcome for current_pos: record as error code 2 never matching
                    hops.push(format!("HPos {} false (-1)%Z", ty.tmax_z()));
                } else {
                    hops.push(format!("HPos {} {} ({})%Z", ty.tmax_z(), r == Res::Ok, v));
                }
                jops.push(format!("{{\"current_pos\":{},\"result\":{},\"value\":\"{}\"}}", jstr(ty.name()), jstr(r.s()), v));
            }
        }
    }
    // the end of every history: a clone of the Buffer (whatever is pending or left in it) continues
    // exactly like the object itself
    {
        let room = lim - pos.min(lim);
        let m = room.min(70) as usize;
        match c.fork(var, key, nonce) {
            None => failures.push("{\"what\":\"cloning the Buffer at the end of the history panicked\"}".to_string()),
            Some(mut f) => {
                let mut x = vec![0xc3u8; m];
                let mut y = x.clone();
                let rx = c.apply(&mut x);
                let ry = f.apply(&mut y);
                if rx != ry || x != y || c.pos(Ty::U128) != f.pos(Ty::U128) {
                    failures.push(format!("{{\"what\":\"at the end of the history (position {}) apply({} bytes) on a clone of the Buffer gives {} and other bytes / position than on the object itself ({})\"}}", pos, m, ry.s(), rx.s()));
                }
                probes += 1;
            }
        }
    }
    let d0 = dwords(var, nonce, 0);
    let orc: Vec<String> = oracle
        .iter()
        .map(|(k, b)| format!("({}, {})", nlit_u128(dkey(&dwords(var, nonce, *k))), blit(b)))
        .collect();
    let coq = format!(
        "Hist {} {} [{}] [{}]",
        var.v == 1,
        dlist(&d0),
        orc.join("; "),
        hops.join("; ")
    );
    let json = format!(
        "{{\"variant\":{},\"key\":{},\"nonce\":{},\"ops\":[{}]}}",
        jstr(var.name), jstr(&hex(key)), jstr(&hex(nonce)), jops.join(",")
    );
    HistResult {
        coq, json, failures, nontrivial: applied > 0 && (seeks_mid || ops.len() > 3), nops: ops.len(), errs,
        max_apply, large_applies, empty_applies, failed_applies, failed_seeks, far_ietf_seeks, u128_top_half_seeks: top_half, probes,
    }
}

fn run_hist(a: &Args) {
    let seed = a.u64("seed", 1);
    let count = a.u64("count", 100) as usize;
    let shards = a.u64("shards", 16) as usize;
    let out = a.str("out", "/tmp/hist");
    let mode = a.str("mode", "c02");
    let maxops = a.u64("maxops", 10) as usize;
    let big = a.u64("big", 0) == 1;
    // chance in 1000 that an apply of a random history is 2-16 KiB
    let large_pm = a.u64("large-permille", 12);
    let long_apply = a.u64("long-apply", if count >= 200 { 1 } else { 0 }) != 0;
    LONG_APPLY.store(long_apply, std::sync::atomic::Ordering::Relaxed);
    // back end: 0 = whatever the CPU detection picks, 1..5 = SSE2, SSSE3, SSE4.1, AVX, AVX2 (hook H1)
    let level = a.u64("level", 0) as u8;
    let readback = force_level(level);
    let mut rng = Rng::new(seed ^ 0xc02 ^ (mode.len() as u64) << 20 ^ if mode == "c11" { 0x1100 } else { 0 });
    let mut cases = Vec::new();
    let mut js = Vec::new();
    let mut direct = Vec::new();
    let mut distinct = HashSet::new();
    let mut total_ops = 0;
    let mut total_errs = 0;
    let mut by_variant: BTreeMap<&str, usize> = BTreeMap::new();
    // corpus: minimised histories of defects found earlier (D1-D4) run first
    let corpus: Vec<(usize, Vec<Op>)> = vec![
        (2, vec![Op::Seek(Ty::U8, 10), Op::Apply(vec![1, 2, 3, 4, 5]), Op::Pos(Ty::U64)]),
        (3, vec![Op::Seek(Ty::U64, (1 << 38) - 10), Op::Apply(vec![0; 10]), Op::Seek(Ty::U64, (1 << 38) - 128), Op::Apply(vec![0; 64]), Op::Pos(Ty::U64)]),
        (3, vec![Op::Seek(Ty::U64, (1 << 38) + 1), Op::Apply(vec![7; 3]), Op::Pos(Ty::U16)]),
        (3, vec![Op::Seek(Ty::U64, (1 << 38) - 10), Op::Apply(vec![9; 11]), Op::Apply(vec![9; 10]), Op::Apply(vec![5; 1]), Op::Apply(vec![]), Op::Pos(Ty::U64)]),
        (2, vec![Op::Apply(vec![1; 70]), Op::Pos(Ty::U8), Op::Seek(Ty::I32, -1), Op::Apply(vec![2; 300]), Op::Pos(Ty::I32)]),
        (6, vec![Op::Seek(Ty::U64, (1 << 38) - 100), Op::Apply(vec![3; 700]), Op::Pos(Ty::U128)]),
    ];
    // at most `--boundary` boundary histories, and never more than 4/5 of what the corpus leaves:
    // every run, however short, has random histories too
    let room = count.saturating_sub(corpus.len());
    let nboundary = (a.u64("boundary", 168) as usize).min(room - room / 5);
    let mut boundary_n = 0usize;
    let mut by_kind = [0usize; NKINDS];
    let mut relative_runs = 0usize;
    let (mut max_apply, mut large_applies, mut empty_applies, mut failed_applies, mut failed_seeks) = (0usize, 0usize, 0usize, 0usize, 0usize);
    let (mut far_ietf, mut top_half, mut probes) = (0usize, 0usize, 0usize);
    for i in 0..count {
        let (var, ops) = if i < corpus.len() {
            (&VARIANTS[corpus[i].0], corpus[i].1.clone())
        } else if i < corpus.len() + nboundary {
            // boundary-directed stream, the kinds ROUND-ROBIN (kind = k mod 14, so a run of 14 has
            // them all); from one round to the next the variant and the kind's second selector
            // move on (c11 mode: every other round is IETF)
            let k = i - corpus.len();
            let (kind, round) = (k % NKINDS, k / NKINDS);
            let var = if mode == "c11" {
                if round % 2 == 1 { &VARIANTS[3] } else { &VARIANTS[(kind + round / 2) % 7] }
            } else {
                &VARIANTS[(kind + round) % 7]
            };
            boundary_n += 1;
            by_kind[kind] += 1;
            (var, boundary_history(&mut rng, var, kind + NKINDS * round))
        } else {
            let var = if mode == "c11" && rng.chance(1, 2) { &VARIANTS[3] } else { &VARIANTS[i % 7] };
            (var, gen_history(&mut rng, var, &mode, maxops, big, large_pm))
        };
        *by_variant.entry(var.name).or_default() += 1;
        let key = rng.bytes(32);
        let nonce = rng.bytes(var.nonce_len);
        let mut r = run_history(var, &key, &nonce, &ops);
        if mode == "c02" {
            let rel = relative_checks(&mut rng, var, &key, &nonce, &ops);
            relative_runs += 1;
            r.failures.extend(rel);
        }
        total_ops += r.nops;
        total_errs += r.errs;
        max_apply = max_apply.max(r.max_apply);
        large_applies += r.large_applies;
        empty_applies += r.empty_applies;
        failed_applies += r.failed_applies;
        failed_seeks += r.failed_seeks;
        far_ietf += r.far_ietf_seeks;
        top_half += r.u128_top_half_seeks;
        probes += r.probes;
        for f in &r.failures {
            direct.push(format!("{{\"history\":{},\"failure\":{}}}", r.json, f));
        }
        if r.nontrivial {
            distinct.insert(r.json.clone());
        }
        cases.push(r.coq);
        js.push(r.json);
    }
    write_shards(&out, shards, CASE_HEADER, "histcase", "run_hist", &cases);
    std::fs::write(format!("{}/cases.json", out), format!("[{}]", js.join(",\n"))).unwrap();
    let bv: Vec<String> = by_variant.iter().map(|(k, v)| format!("{}:{}", jstr(k), v)).collect();
    let bk: Vec<String> = by_kind.iter().enumerate().map(|(k, v)| format!("\"{}\":{}", k, v)).collect();
    direct.truncate(5);
    let samples: Vec<String> = js.iter().skip(6).filter(|j| j.len() < 4000).take(2).cloned().collect();
    println!(
        "{{\"evaluations\":{},\"distinct_nontrivial\":{},\"mode\":{},\"backend_level\":{},\"backend_level_read_back\":{},\"by_variant\":{{{}}},\"corpus_histories\":{},\"boundary_histories\":{},\"boundary_histories_by_kind\":{{{}}},\"random_histories\":{},\"histories_replayed_rechunked_reseeked_twice_fresh\":{},\"total_ops\":{},\"ops_with_err_or_panic\":{},\"refused_applies\":{},\"refused_seeks\":{},\"ietf_seeks_far_past_the_end\":{},\"u128_seeks_with_top_bit\":{},\"empty_applies\":{},\"applies_of_2048_bytes_or_more\":{},\"longest_apply\":{},\"probes_on_a_clone_of_the_buffer\":{},\"direct_failures\":[{}],\"samples\":[{}]}}",
        count, distinct.len(), jstr(&mode), level, readback, bv.join(","), corpus.len().min(count), boundary_n, bk.join(","),
        count.saturating_sub(corpus.len().min(count) + boundary_n), relative_runs, total_ops, total_errs,
        failed_applies, failed_seeks, far_ietf, top_half, empty_applies, large_applies, max_apply, probes,
        direct.join(","), samples.join(",")
    );
}

// ---------------------------------------------------------------------------------------------
// C14: block API
// ---------------------------------------------------------------------------------------------
fn state_d(s: &ChaCha) -> [u32; 4] {
    let p0 = s.get_stream_param(0);
    let p1 = s.get_stream_param(1);
    [p0 as u32, (p0 >> 32) as u32, p1 as u32, (p1 >> 32) as u32]
}

fn gen_ctr(rng: &mut Rng) -> u64 {
    match rng.below(8) {
        0 => rng.below(8),
        1 | 2 => (1u64 << 32) - 5 + rng.below(8),
        3 | 4 => u64::MAX - rng.below(6),
        5 => ((rng.u32() as u64) << 32) | (0xffff_fffc + rng.below(4)),
        _ => rng.u64(),
    }
}

/// `ChaCha::new(key, nonce)` whose stream id is `id` and whose 64-bit counter is `ctr`, built in
/// one of three ways (how = 0: an 8-byte nonce carries the id, the counter is set; 1: a 12-byte
/// nonce carries the high counter word and the id, the counter is set; 2: all-zero nonce, both
/// parameters set: the only way used before)
fn c14_state(k: &[u8; 32], ctr: u64, id: u64, how: usize) -> ChaCha {
    match how % 3 {
        0 => {
            let mut s = ChaCha::new(k, &id.to_le_bytes());
            s.set_stream_param(0, ctr);
            s
        }
        1 => {
            let mut n = [0u8; 12];
            n[0..4].copy_from_slice(&((ctr >> 32) as u32).to_le_bytes());
            n[4..12].copy_from_slice(&id.to_le_bytes());
            let mut s = ChaCha::new(k, &n);
            s.set_stream_param(0, ctr);
            s
        }
        _ => {
            let mut s = ChaCha::new(k, &[0u8; 8]);
            s.set_stream_param(1, id);
            s.set_stream_param(0, ctr);
            s
        }
    }
}

fn run_c14(a: &Args) {
    let seed = a.u64("seed", 1);
    let count = a.u64("count", 100) as usize;
    let shards = a.u64("shards", 16) as usize;
    let out = a.str("out", "/tmp/c14");
    // back end: 0 = whatever the CPU detection picks, 1..5 = SSE2, SSSE3, SSE4.1, AVX, AVX2 (hook H1)
    let level = a.u64("level", 0) as u8;
    let readback = force_level(level);
    let (sel_dispatch, sel_light) = probe::selected();
    let mut rng = Rng::new(seed ^ 0xc14);
    let mut cases = Vec::new();
    let mut js = Vec::new();
    let mut direct = Vec::new();
    let mut distinct = HashSet::new();
    let mut by_dr = [0usize; 11];
    let mut by_how = [0usize; 3];
    let mut classes: BTreeMap<&str, usize> = BTreeMap::new();
    // boundary counters first (14 values x 11 round counts are all met within the first 154 cases):
    // the low-word carry lands in lane 0, 1, 2, 3 or in the final add_pos; the wrap at 2^64 likewise
    let hi = (rng.u32() as u64) << 32;
    let boundary: [u64; 14] = [
        0,
        (1u64 << 32) - 4,
        (1u64 << 32) - 3,
        (1u64 << 32) - 2,
        (1u64 << 32) - 1,
        1u64 << 32,
        u64::MAX - 4,
        u64::MAX - 3,
        u64::MAX - 2,
        u64::MAX - 1,
        u64::MAX,
        hi | 0xffff_fffd,
        hi | 0xffff_fffe,
        hi | 0xffff_ffff,
    ];
    // the continuation (five more blocks on each object) meets the carry a second time when the
    // counter is 5..9 below a boundary: two of these per round count after the 154 boundary cases
    let late: [u64; 6] = [(1u64 << 32) - 6, (1u64 << 32) - 8, u64::MAX - 6, u64::MAX - 8, (hi | 0xffff_fff9), (1u64 << 33) - 7];
    for i in 0..count {
        let key = rng.bytes(32);
        let dr = (i % 11) as u32;
        by_dr[dr as usize] += 1;
        let ctr = if i < 154 { boundary[i % 14] } else if i < 176 { late[(i - 154) % 6] } else { gen_ctr(&mut rng) };
        let id = if i % 5 == 0 { u64::MAX } else { rng.word64() };
        let how = (i / 2) % 3;
        by_how[how] += 1;
        let cls = if ctr > u64::MAX - 4 {
            "wraps_at_2^64"
        } else if (ctr as u32) > 0xffff_fffb {
            "low_word_carry"
        } else if ctr > u64::MAX - 9 || (ctr as u32) > 0xffff_fff6 {
            "carry_or_wrap_in_the_continuation"
        } else if ctr < 16 {
            "small"
        } else {
            "other"
        };
        *classes.entry(cls).or_default() += 1;
        let mut k = [0u8; 32];
        k.copy_from_slice(&key);
        // the state the property speaks about: key, 64-bit counter, 64-bit stream id. The d words
        // sent to the model are computed HERE from (ctr, id), not read back from the implementation.
        let d = [ctr as u32, (ctr >> 32) as u32, id as u32, (id >> 32) as u32];
        let made = catch_unwind(AssertUnwindSafe(|| c14_state(&k, ctr, id, how)));
        let s = match made {
            Ok(s) => s,
            Err(_) => {
                direct.push(format!("{{\"key\":{},\"counter\":\"{}\",\"stream_id\":\"{}\",\"construction\":{},\"what\":\"ChaCha::new / set_stream_param panicked\"}}", jstr(&hex(&key)), ctr, id, how));
                continue;
            }
        };
        let constructed_ok = state_d(&s) == d;
        let mut w = s.clone();
        let mut n = s.clone();
        // output buffers start as a pattern that differs from case to case: a short write, or a
        // back end that combines with what is in the buffer, leaves a trace
        let pat = |j: usize| (0xa5u8).wrapping_add((i * 29 + j * 7) as u8);
        let mut wide = [0u8; 256];
        let mut narrow = [0u8; 256];
        for j in 0..256 {
            wide[j] = pat(j);
            narrow[j] = pat(j + 3);
        }
        let rw = catch_unwind(AssertUnwindSafe(|| w.refill4(dr, &mut wide)));
        let rn = catch_unwind(AssertUnwindSafe(|| {
            for j in 0..4 {
                let mut b = [0u8; 64];
                b.copy_from_slice(&narrow[64 * j..64 * j + 64]);
                n.refill(dr, &mut b);
                narrow[64 * j..64 * j + 64].copy_from_slice(&b);
            }
        }));
        let dw = state_d(&w);
        let dn = state_d(&n);
        // the whole state, key rows included: w == n (derived PartialEq over b, c, d), and both equal
        // a state made from scratch with the counter four further
        let c4 = ctr.wrapping_add(4);
        let fresh4 = catch_unwind(AssertUnwindSafe(|| c14_state(&k, c4, id, 2)));
        let eq_wn = w == n;
        let eq_fresh = match &fresh4 {
            Ok(f) => w == *f && n == *f && w.stream64_eq(f),
            Err(_) => false,
        };
        // the counter advanced by four (mod 2^64) and nothing else moved
        let advanced = dn == [c4 as u32, (c4 >> 32) as u32, id as u32, (id >> 32) as u32];
        // continuation on the SAME objects, the two paths mixed: w: refill4, refill; n: refill, refill4
        let mut wide2 = [0u8; 320];
        let mut narrow2 = [0u8; 320];
        for j in 0..320 {
            wide2[j] = pat(j + 11);
            narrow2[j] = pat(j + 17);
        }
        let rw2 = catch_unwind(AssertUnwindSafe(|| {
            let mut b4 = [0u8; 256];
            b4.copy_from_slice(&wide2[..256]);
            w.refill4(dr, &mut b4);
            wide2[..256].copy_from_slice(&b4);
            let mut b1 = [0u8; 64];
            b1.copy_from_slice(&wide2[256..]);
            w.refill(dr, &mut b1);
            wide2[256..].copy_from_slice(&b1);
        }));
        let rn2 = catch_unwind(AssertUnwindSafe(|| {
            let mut b1 = [0u8; 64];
            b1.copy_from_slice(&narrow2[..64]);
            n.refill(dr, &mut b1);
            narrow2[..64].copy_from_slice(&b1);
            let mut b4 = [0u8; 256];
            b4.copy_from_slice(&narrow2[64..]);
            n.refill4(dr, &mut b4);
            narrow2[64..].copy_from_slice(&b4);
        }));
        let dw2 = state_d(&w);
        let dn2 = state_d(&n);
        let c9 = ctr.wrapping_add(9);
        let advanced9 = dn2 == [c9 as u32, (c9 >> 32) as u32, id as u32, (id >> 32) as u32];
        let eq_wn2 = w == n;
        let panicked = rw.is_err() || rn.is_err() || rw2.is_err() || rn2.is_err();
        if panicked || !constructed_ok || wide != narrow || dw != dn || !advanced || !eq_wn || !eq_fresh || wide2 != narrow2 || dw2 != dn2 || !advanced9 || !eq_wn2 {
            direct.push(format!(
                "{{\"key\":{},\"counter\":\"{}\",\"stream_id\":\"{}\",\"construction\":{},\"drounds\":{},\"backend_level\":{},\"constructed_state_has_these_parameters\":{},\"a_call_panicked\":{},\"bytes_equal\":{},\"d_words_equal\":{},\"narrow_counter_advanced_by_4_only\":{},\"whole_states_equal\":{},\"equal_to_a_state_created_at_counter_plus_4\":{},\"continuation_refill4_refill_vs_refill_refill4_bytes_equal\":{},\"continuation_d_words_equal\":{},\"counter_advanced_by_9_only\":{},\"whole_states_equal_after_continuation\":{}}}",
                jstr(&hex(&key)), ctr, id, how, dr, level, constructed_ok, panicked, wide == narrow, dw == dn, advanced, eq_wn, eq_fresh, wide2 == narrow2, dw2 == dn2, advanced9, eq_wn2
            ));
        }
        distinct.insert((key.clone(), ctr, id, dr));
        js.push(format!(
            "{{\"key\":{},\"counter\":\"{}\",\"stream_id\":\"{}\",\"construction\":{},\"drounds\":{},\"wide\":{},\"narrow\":{},\"then_refill4_refill_on_the_wide_object\":{},\"then_refill_refill4_on_the_narrow_object\":{}}}",
            jstr(&hex(&key)), ctr, id, how, dr, jstr(&hex(&wide)), jstr(&hex(&narrow)), jstr(&hex(&wide2)), jstr(&hex(&narrow2))
        ));
        cases.push(format!(
            "C14 {} {} {} {} {} {} {} {} {} {} {} {} {}",
            blit(&key), dlist(&d), dr, blit(&wide), dlist(&dw), blit(&narrow), dlist(&dn), eq_wn, eq_fresh,
            blit(&wide2), dlist(&dw2), blit(&narrow2), dlist(&dn2)
        ));
    }
    write_shards(&out, shards, CASE_HEADER, "c14case", "run_c14", &cases);
    std::fs::write(format!("{}/cases.json", out), format!("[{}]", js.join(",\n"))).unwrap();
    let bd: Vec<String> = by_dr.iter().enumerate().map(|(k, v)| format!("\"{}\":{}", k, v)).collect();
    let cc: Vec<String> = classes.iter().map(|(k, v)| format!("{}:{}", jstr(k), v)).collect();
    direct.truncate(5);
    println!(
        "{{\"evaluations\":{},\"distinct_nontrivial\":{},\"backend_level\":{},\"backend_level_read_back\":{},\"machine_selected_by_dispatch\":{},\"machine_selected_by_dispatch_light128\":{},\"by_drounds\":{{{}}},\"counter_classes\":{{{}}},\"state_built_from\":{{\"8_byte_nonce_then_counter\":{},\"12_byte_nonce_then_counter\":{},\"zero_nonce_then_both_parameters\":{}}},\"direct_failures\":[{}],\"samples\":[{}]}}",
        count, distinct.len(), level, readback, jstr(&sel_dispatch), jstr(&sel_light), bd.join(","), cc.join(","), by_how[0], by_how[1], by_how[2],
        direct.join(","), js.iter().take(2).cloned().collect::<Vec<_>>().join(",")
    );
}

// ---------------------------------------------------------------------------------------------
// C15: stream parameters, stream equality
// ---------------------------------------------------------------------------------------------
fn run_c15(a: &Args) {
    let seed = a.u64("seed", 1);
    let count = a.u64("count", 100) as usize;
    let shards = a.u64("shards", 16) as usize;
    let out = a.str("out", "/tmp/c15");
    // back end: 0 = whatever the CPU detection picks, 1..5 = SSE2, SSSE3, SSE4.1, AVX, AVX2 (hook H1)
    let level = a.u64("level", 0) as u8;
    let readback = force_level(level);
    let mut rng = Rng::new(seed ^ 0xc15);
    let mut cases = Vec::new();
    let mut js = Vec::new();
    let mut direct = Vec::new();
    let mut distinct = HashSet::new();
    let mut opmix = [0usize; 4];
    let mut by_nlen = [0usize; 2];
    let mut nonce_kinds: BTreeMap<&str, usize> = BTreeMap::new();
    let (mut refill_direct, mut refill_high, mut first_block_checks) = (0usize, 0usize, 0usize);
    let mut eq_pairs = [0usize; 3]; // `==` evaluated on equal states, on unequal states, on the forced d-word-0 / d-word-1 pairs
    for i in 0..count {
        let key = rng.bytes(32);
        let mut k = [0u8; 32];
        k.copy_from_slice(&key);
        let nlen = if i < 16 { if i % 2 == 0 { 8 } else { 12 } } else if rng.chance(1, 2) { 8 } else { 12 };
        // nonces: byte-index pattern (any byte or word permutation shows), a single non-zero word
        // (which word goes where), walking one, all ones, then random
        let (nonce, nkind): (Vec<u8>, &str) = match if i < 16 { i / 2 } else { 8 + rng.below(8) as usize } {
            0 => ((0..nlen).map(|j| (0x10 + j) as u8).collect(), "byte-index pattern"),
            1 | 2 | 3 => {
                let w = (i / 2 - 1) % (nlen / 4);
                let mut n = vec![0u8; nlen];
                n[4 * w..4 * w + 4].copy_from_slice(&[0x01 + w as u8, 0x23, 0x45, 0x67]);
                (n, "one non-zero word")
            }
            4 => (vec![0xffu8; nlen], "all ones"),
            5 | 8 => {
                let mut n = vec![0u8; nlen];
                let bit = rng.below(8 * nlen as u64) as usize;
                n[bit / 8] = 1 << (bit % 8);
                (n, "walking one")
            }
            6 => (vec![0u8; nlen], "all zero"),
            _ => (rng.bytes(nlen), "random"),
        };
        by_nlen[(nlen == 12) as usize] += 1;
        *nonce_kinds.entry(nkind).or_default() += 1;
        // the d words the definition gives for this nonce (8 bytes: [0, 0, n0, n1]; 12 bytes: [0, n0, n1, n2])
        let d_expected = if nlen == 12 { [0, rd32(&nonce[0..4]), rd32(&nonce[4..8]), rd32(&nonce[8..12])] } else { [0, 0, rd32(&nonce[0..4]), rd32(&nonce[4..8])] };
        let mut s = match catch_unwind(AssertUnwindSafe(|| ChaCha::new(&k, &nonce))) {
            Ok(s) => s,
            Err(_) => {
                direct.push(format!("{{\"case\":{{\"key\":{},\"nonce\":{}}},\"failures\":[\"ChaCha::new panicked\"]}}", jstr(&hex(&key)), jstr(&hex(&nonce))));
                continue;
            }
        };
        // read back for the record; the model does NOT start from this, it builds its own initial
        // state from (key, nonce) and compares these four words with it
        let d0 = state_d(&s);
        let mut pops: Vec<String> = Vec::new();
        let mut jops: Vec<String> = Vec::new();
        let mut fails: Vec<String> = Vec::new();
        if d0 != d_expected {
            fails.push(format!("a state created directly with nonce {} reports parameters {:?}, the nonce words are {:?}", hex(&nonce), d0, d_expected));
        }
        {
            // created directly = what the cipher types create: the first block of new(key, nonce) is the
            // first key-stream block of ChaCha20 (8-byte nonce) / the IETF variant (12-byte nonce)
            let var = if nlen == 12 { &VARIANTS[3] } else { &VARIANTS[2] };
            let mut t = s.clone();
            let mut b = [0x77u8; 64];
            t.refill(10, &mut b);
            first_block_checks += 1;
            match oracle_block(var, &key, &nonce, 0) {
                Some(o) => {
                    if o[..] != b[..] {
                        fails.push(format!("the first block of ChaCha::new(key, nonce) differs from block 0 of {} created with the same key and nonce", var.name));
                    }
                }
                None => fails.push(format!("{} created with this key and nonce cannot produce block 0", var.name)),
            }
        }
        let nops = rng.range(3, 9);
        // after the random operations two more `eq_with` operations: a state differing from the current
        // one ONLY in d word 0, then only in d word 1 (the words the two stream predicates ignore, which
        // whole-state `==` must not)
        for opi in 0..nops + 2 {
            let forced: Option<u64> = if opi < nops { None } else { Some(8 + (opi - nops)) };
            match if forced.is_some() { 9 } else { rng.below(10) } {
                0..=2 => {
                    let p = rng.below(2) as u32;
                    let v = match rng.below(6) {
                        0 => u64::MAX,
                        1 => 1u64 << rng.below(64),          // walking one: every bit of both halves
                        2 => (1u64 << 32) - 1 + rng.below(3), // around the word boundary
                        3 => (rng.u32() as u64) << 32,        // high half only
                        _ => rng.word64(),
                    };
                    let other_before = s.get_stream_param(1 - p);
                    let before = s.clone();
                    s.set_stream_param(p, v);
                    // direct: round trip and isolation
                    if s.get_stream_param(p) != v || s.get_stream_param(1 - p) != other_before {
                        fails.push(format!("op {}: set_stream_param({},{}) then get: got {} / other parameter {} -> {}", jops.len(), p, v, s.get_stream_param(p), other_before, s.get_stream_param(1 - p)));
                    }
                    // key untouched: stream predicates vs a state rebuilt with the same key
                    let mut same = before.clone();
                    same.set_stream_param(p, v);
                    if same != s {
                        fails.push(format!("op {}: set_stream_param({},{}) is not deterministic", jops.len(), p, v));
                    }
                    // the state equals one created directly with the current values: new(key, id) + counter
                    // (for a 12-byte nonce the high counter word is nonce word 0; it is part of parameter 0)
                    let (c0, c1) = (s.get_stream_param(0), s.get_stream_param(1));
                    let mut fresh = ChaCha::new(&k, &c1.to_le_bytes());
                    fresh.set_stream_param(0, c0);
                    if fresh != s {
                        fails.push(format!("op {}: after set_stream_param({},{}) the state differs from ChaCha::new(key, stream id {}) moved to counter {}", jops.len(), p, v, c1, c0));
                    }
                    // only the counter may differ from before when p = 0; nothing but the id when p = 1
                    if p == 0 && !s.stream64_eq(&before) {
                        fails.push(format!("op {}: set_stream_param(0,{}) changed more than the 64-bit counter (stream64_eq with the state before is false)", jops.len(), v));
                    }
                    opmix[0] += 1;
                    pops.push(format!("PSet {} {}", p, nlit_u64(v)));
                    jops.push(format!("{{\"set\":{},\"value\":\"{}\"}}", p, v));
                }
                3 | 4 => {
                    let p = rng.below(2) as u32;
                    let v = s.get_stream_param(p);
                    opmix[1] += 1;
                    pops.push(format!("PGet {} {}", p, nlit_u64(v)));
                    jops.push(format!("{{\"get\":{},\"value\":\"{}\"}}", p, v));
                }
                5 | 6 => {
                    let dr = *rng.pick(&[4u32, 6, 10]);
                    // direct: the block equals that of a cipher created directly with these values
                    let p0 = s.get_stream_param(0);
                    let p1 = s.get_stream_param(1);
                    let mut b = [0x99u8; 64];
                    s.refill(dr, &mut b);
                    if p0 < (1u64 << 58) {
                        let var = match dr {
                            4 => &VARIANTS[0],
                            6 => &VARIANTS[1],
                            _ => &VARIANTS[2],
                        };
                        refill_direct += 1;
                        match oracle_block(var, &key, &p1.to_le_bytes(), p0 as u128) {
                            Some(o) => {
                                if o[..] != b[..] {
                                    fails.push(format!("op {}: refill with parameters (0,{}) / (1,{}) differs from {} created with nonce = stream id and seeked to that block", jops.len(), p0, p1, var.name));
                                }
                            }
                            // a cipher that cannot be created / seeked / read there is a failure, not a skipped comparison
                            None => fails.push(format!("op {}: {} created with nonce = stream id {} cannot produce block {}", jops.len(), var.name, p1, p0)),
                        }
                    } else {
                        // no cipher type can be seeked to a block >= 2^58 (byte position beyond u64): only the model checks this block
                        refill_high += 1;
                    }
                    opmix[2] += 1;
                    pops.push(format!("PRefill {} {}", dr, blit(&b)));
                    jops.push(format!("{{\"refill\":{},\"out\":{}}}", dr, jstr(&hex(&b))));
                }
                _ => {
                    // a second state differing in exactly one word (or none)
                    let mut key2 = key.clone();
                    let mut s2 = s.clone();
                    let which = match forced { Some(w) => w, None => rng.below(24) };
                    let mut expect32 = true;
                    let mut expect64 = true;
                    if which >= 14 {
                        // several words differ at once, with differences that cancel under xor /
                        // addition or are a permutation of the same values (an accumulating or
                        // order-insensitive comparison would call these streams equal)
                        let m: u32 = match rng.below(4) { 0 => 1, 1 => 0x8000_0000, 2 => 1 << rng.below(32), _ => rng.u32() | 1 };
                        let mut dw = state_d(&s);
                        let mut kw: Vec<u32> = (0..8).map(|i| rd32(&key[4 * i..])).collect();
                        match which {
                            14 => { dw[2] ^= m; dw[3] ^= m; }
                            15 => { dw[1] ^= m; dw[2] ^= m; }
                            16 => { let m2 = rng.u32() | 2; dw[1] ^= m; dw[2] ^= m2; dw[3] ^= m ^ m2; }
                            17 => { dw[2] = dw[2].wrapping_add(m); dw[3] = dw[3].wrapping_sub(m); }
                            18 => { dw.swap(2, 3); if dw[2] == dw[3] { dw[2] ^= 1; dw[3] ^= 1; } }
                            19 => { dw.swap(1, 2); if dw[1] == dw[2] { dw[1] ^= 1; dw[2] ^= 1; } }
                            20 => { let i = rng.below(4) as usize; kw[i] ^= m; kw[i + 4] ^= m; }
                            21 => { let i = rng.below(7) as usize; kw[i] ^= m; kw[i + 1] ^= m; }
                            22 => { let i = rng.below(7) as usize; kw.swap(i, i + 1); if kw[i] == kw[i + 1] { kw[i] ^= 1; kw[i + 1] ^= 1; } }
                            _ => { let i = rng.below(8) as usize; kw[i] ^= m; dw[3] ^= m; }
                        }
                        for i in 0..8 {
                            key2[4 * i..4 * i + 4].copy_from_slice(&kw[i].to_le_bytes());
                        }
                        let mut kk = [0u8; 32];
                        kk.copy_from_slice(&key2);
                        let mut t = ChaCha::new(&kk, &[0u8; 8]);
                        t.set_stream_param(0, ((dw[1] as u64) << 32) | dw[0] as u64);
                        t.set_stream_param(1, ((dw[3] as u64) << 32) | dw[2] as u64);
                        s2 = t;
                        let d1 = state_d(&s);
                        expect64 = key2 == key && dw[2] == d1[2] && dw[3] == d1[3];
                        expect32 = expect64 && dw[1] == d1[1];
                    } else if which < 8 {
                        let w = which as usize;
                        match rng.below(4) {
                            0 => key2[4 * w] ^= 1,          // lowest bit of the word
                            1 => key2[4 * w + 3] ^= 0x80,   // highest bit of the word
                            _ => key2[4 * w + rng.below(4) as usize] ^= 1 << rng.below(8),
                        }
                        let mut kk = [0u8; 32];
                        kk.copy_from_slice(&key2);
                        let mut t = ChaCha::new(&kk, &[0u8; 8]);
                        t.set_stream_param(0, s.get_stream_param(0));
                        t.set_stream_param(1, s.get_stream_param(1));
                        s2 = t;
                        expect32 = false;
                        expect64 = false;
                    } else if which < 12 {
                        let w = (which - 8) as u32; // d word index
                        let p = w / 2;
                        // the bit: lowest, highest or any (a comparison that is off by one at either end of a word)
                        let bit = match rng.below(4) { 0 => 0, 1 => 31, _ => rng.below(32) as u32 };
                        let v = s2.get_stream_param(p) ^ (1u64 << (32 * (w % 2) + bit));
                        s2.set_stream_param(p, v);
                        // word 0: both predicates ignore it; word 1: only the 64-bit one ignores it
                        expect32 = w == 0;
                        expect64 = w <= 1;
                    }
                    let e32 = s.stream32_eq(&s2);
                    let e64 = s.stream64_eq(&s2);
                    if e32 != expect32 || e64 != expect64 {
                        let cls = if which >= 14 { format!("several words at once (pattern {})", which) } else if which < 8 { format!("one bit of key word {}", which) } else if which < 12 { format!("one bit of d word {}", which - 8) } else { "nothing".to_string() };
                        fails.push(format!("op {}: stream32_eq={} (expected {}), stream64_eq={} (expected {}) against a state differing in {}", jops.len(), e32, expect32, e64, expect64, cls));
                    }
                    opmix[3] += 1;
                    let d2 = state_d(&s2);
                    // `PartialEq for ChaCha` (derived: b, c, d) on the same pair: true iff all twelve key / d
                    // words are equal, `!=` its negation, both ways round. C14 uses `==` as an observation
                    // and only ever sees equal states there.
                    let whole_expect = key2 == key && d2 == state_d(&s);
                    let (eq, ne, eq_rev, ne_rev) = (s == s2, s != s2, s2 == s, s2 != s);
                    if whole_expect { eq_pairs[0] += 1 } else { eq_pairs[1] += 1 }
                    if forced.is_some() { eq_pairs[2] += 1 }
                    if eq != whole_expect || eq_rev != whole_expect || ne == whole_expect || ne_rev == whole_expect {
                        let cls = if which >= 14 { format!("several words at once (pattern {})", which) } else if which < 8 { format!("one bit of key word {}", which) } else if which < 12 { format!("one bit of d word {}", which - 8) } else { "nothing".to_string() };
                        fails.push(format!("op {}: whole-state a == b is {} (b == a {}, a != b {}, b != a {}), expected == {}: the states differ in {} (key words equal: {}, d words {:?} / {:?})", jops.len(), eq, eq_rev, ne, ne_rev, whole_expect, cls, key2 == key, state_d(&s), d2));
                    }
                    pops.push(format!("PEq {} {} {} {}", blit(&key2), dlist(&d2), e32, e64));
                    jops.push(format!("{{\"eq_with\":{{\"key\":{},\"d\":{:?}}},\"stream32_eq\":{},\"stream64_eq\":{},\"whole_state_eq\":{}}}", jstr(&hex(&key2)), d2, e32, e64, eq));
                }
            }
        }
        let j = format!("{{\"key\":{},\"nonce\":{},\"ops\":[{}]}}", jstr(&hex(&key)), jstr(&hex(&nonce)), jops.join(","));
        if !fails.is_empty() {
            let fl: Vec<String> = fails.iter().map(|f| jstr(f)).collect();
            direct.push(format!("{{\"case\":{},\"failures\":[{}]}}", j, fl.join(",")));
        }
        distinct.insert(j.clone());
        js.push(j);
        cases.push(format!("C15 {} {} {} {} [{}]", blit(&key), nlen, blit(&nonce), dlist(&d0), pops.join("; ")));
    }
    write_shards(&out, shards, CASE_HEADER, "c15case", "run_c15", &cases);
    std::fs::write(format!("{}/cases.json", out), format!("[{}]", js.join(",\n"))).unwrap();
    direct.truncate(5);
    let nk: Vec<String> = nonce_kinds.iter().map(|(k, v)| format!("{}:{}", jstr(k), v)).collect();
    println!(
        "{{\"evaluations\":{},\"distinct_nontrivial\":{},\"backend_level\":{},\"backend_level_read_back\":{},\"nonce_length\":{{\"8\":{},\"12\":{}}},\"nonce_kinds\":{{{}}},\"initial_state_built_by_the_model_from_key_and_nonce\":true,\"first_block_vs_cipher_type_checks\":{},\"op_mix\":{{\"set\":{},\"get\":{},\"refill\":{},\"eq\":{}}},\"refills_checked_against_a_cipher_type\":{},\"refills_at_counter_ge_2^58_checked_by_the_model_only\":{},\"whole_state_eq_evaluated\":{{\"on_equal_states\":{},\"on_unequal_states\":{},\"of_which_differing_only_in_d_word_0_or_1\":{}}},\"direct_failures\":[{}],\"samples\":[{}]}}",
        count, distinct.len(), level, readback, by_nlen[0], by_nlen[1], nk.join(","), first_block_checks, opmix[0], opmix[1], opmix[2], opmix[3], refill_direct, refill_high,
        eq_pairs[0], eq_pairs[1], eq_pairs[2],
        direct.join(","), js.iter().take(2).cloned().collect::<Vec<_>>().join(",")
    );
}

fn main() {
    std::panic::set_hook(Box::new(|_| {}));
    let argv: Vec<String> = std::env::args().collect();
    let args = Args::parse(&argv[2..]);
    match argv[1].as_str() {
        "c01" => run_c01(&args),
        "hist" => run_hist(&args),
        "c14" => run_c14(&args),
        "c15" => run_c15(&args),
        o => {
            eprintln!("unknown subcommand {}", o);
            std::process::exit(2);
        }
    }
}
