//! ChaCha harness (C01, C02, C11, C14, C15).
#![allow(dead_code)]
#[path = "../util.rs"]
mod util;
use util::*;

use c2_chacha::guts::ChaCha;
use c2_chacha::{ChaCha12, ChaCha20, ChaCha8, Ietf, XChaCha12, XChaCha20, XChaCha8};
use cipher::generic_array::GenericArray;
use cipher::{NewCipher, StreamCipher, StreamCipherSeek};
use std::collections::{BTreeMap, HashSet};
use std::panic::{catch_unwind, AssertUnwindSafe};

#[derive(Clone, Copy, PartialEq, Eq, Debug)]
struct Variant {
    name: &'static str,
    v: u8, // 0 djb, 1 ietf, 2 x
    drounds: u32,
    nonce_len: usize,
}
const VARIANTS: [Variant; 7] = [
    Variant { name: "ChaCha8", v: 0, drounds: 4, nonce_len: 8 },
    Variant { name: "ChaCha12", v: 0, drounds: 6, nonce_len: 8 },
    Variant { name: "ChaCha20", v: 0, drounds: 10, nonce_len: 8 },
    Variant { name: "Ietf", v: 1, drounds: 10, nonce_len: 12 },
    Variant { name: "XChaCha8", v: 2, drounds: 4, nonce_len: 24 },
    Variant { name: "XChaCha12", v: 2, drounds: 6, nonce_len: 24 },
    Variant { name: "XChaCha20", v: 2, drounds: 10, nonce_len: 24 },
];

/// seek argument / current_pos type
#[derive(Clone, Copy, Debug, PartialEq, Eq)]
enum Ty {
    U8,
    U16,
    U32,
    U64,
    U128,
    Usize,
    I32,
}
const TYS: [Ty; 7] = [Ty::U8, Ty::U16, Ty::U32, Ty::U64, Ty::U128, Ty::Usize, Ty::I32];
impl Ty {
    fn max(self) -> i128 {
        match self {
            Ty::U8 => u8::MAX as i128,
            Ty::U16 => u16::MAX as i128,
            Ty::U32 => u32::MAX as i128,
            Ty::U64 | Ty::Usize => u64::MAX as i128,
            Ty::U128 => i128::MAX, // values used stay below 2^100
            Ty::I32 => i32::MAX as i128,
        }
    }
    fn min(self) -> i128 {
        match self {
            Ty::I32 => i32::MIN as i128,
            _ => 0,
        }
    }
    fn name(self) -> &'static str {
        match self {
            Ty::U8 => "u8",
            Ty::U16 => "u16",
            Ty::U32 => "u32",
            Ty::U64 => "u64",
            Ty::U128 => "u128",
            Ty::Usize => "usize",
            Ty::I32 => "i32",
        }
    }
    /// T::MAX as seen by try_from(u128)
    fn tmax_z(self) -> String {
        match self {
            Ty::U128 => format!("({})%Z", u128::MAX),
            t => format!("({})%Z", t.max()),
        }
    }
}

#[derive(Clone, Copy, PartialEq, Eq, Debug)]
enum Res {
    Ok,
    Err,
    Panic,
}
impl Res {
    fn code(self) -> u8 {
        match self {
            Res::Ok => 0,
            Res::Err => 1,
            Res::Panic => 2,
        }
    }
    fn s(self) -> &'static str {
        match self {
            Res::Ok => "ok",
            Res::Err => "err",
            Res::Panic => "panic",
        }
    }
}

enum AnyCipher {
    C8(ChaCha8),
    C12(ChaCha12),
    C20(ChaCha20),
    I(Ietf),
    X8(XChaCha8),
    X12(XChaCha12),
    X20(XChaCha20),
}
macro_rules! each {
    ($self:expr, $c:ident => $e:expr) => {
        match $self {
            AnyCipher::C8($c) => $e,
            AnyCipher::C12($c) => $e,
            AnyCipher::C20($c) => $e,
            AnyCipher::I($c) => $e,
            AnyCipher::X8($c) => $e,
            AnyCipher::X12($c) => $e,
            AnyCipher::X20($c) => $e,
        }
    };
}
impl AnyCipher {
    fn new(var: &Variant, key: &[u8], nonce: &[u8]) -> Self {
        let k = GenericArray::from_slice(key);
        match var.name {
            "ChaCha8" => AnyCipher::C8(ChaCha8::new(k, GenericArray::from_slice(nonce))),
            "ChaCha12" => AnyCipher::C12(ChaCha12::new(k, GenericArray::from_slice(nonce))),
            "ChaCha20" => AnyCipher::C20(ChaCha20::new(k, GenericArray::from_slice(nonce))),
            "Ietf" => AnyCipher::I(Ietf::new(k, GenericArray::from_slice(nonce))),
            "XChaCha8" => AnyCipher::X8(XChaCha8::new(k, GenericArray::from_slice(nonce))),
            "XChaCha12" => AnyCipher::X12(XChaCha12::new(k, GenericArray::from_slice(nonce))),
            _ => AnyCipher::X20(XChaCha20::new(k, GenericArray::from_slice(nonce))),
        }
    }
    fn apply(&mut self, data: &mut [u8]) -> Res {
        let r = catch_unwind(AssertUnwindSafe(|| each!(self, c => c.try_apply_keystream(data).is_ok())));
        match r {
            Ok(true) => Res::Ok,
            Ok(false) => Res::Err,
            Err(_) => Res::Panic,
        }
    }
    /// seek with the value `v` converted to type `ty` (caller guarantees it fits)
    fn seek(&mut self, ty: Ty, v: i128) -> Res {
        let r = catch_unwind(AssertUnwindSafe(|| {
            each!(self, c => match ty {
                Ty::U8 => c.try_seek(v as u8).is_ok(),
                Ty::U16 => c.try_seek(v as u16).is_ok(),
                Ty::U32 => c.try_seek(v as u32).is_ok(),
                Ty::U64 => c.try_seek(v as u64).is_ok(),
                Ty::U128 => c.try_seek(v as u128).is_ok(),
                Ty::Usize => c.try_seek(v as usize).is_ok(),
                Ty::I32 => c.try_seek(v as i32).is_ok(),
            })
        }));
        match r {
            Ok(true) => Res::Ok,
            Ok(false) => Res::Err,
            Err(_) => Res::Panic,
        }
    }
    /// current position as type `ty`: (result, value)
    fn pos(&self, ty: Ty) -> (Res, i128) {
        let r = catch_unwind(AssertUnwindSafe(|| {
            each!(self, c => match ty {
                Ty::U8 => c.try_current_pos::<u8>().map(|x| x as i128).ok(),
                Ty::U16 => c.try_current_pos::<u16>().map(|x| x as i128).ok(),
                Ty::U32 => c.try_current_pos::<u32>().map(|x| x as i128).ok(),
                Ty::U64 => c.try_current_pos::<u64>().map(|x| x as i128).ok(),
                Ty::U128 => c.try_current_pos::<u128>().map(|x| x as i128).ok(),
                Ty::Usize => c.try_current_pos::<usize>().map(|x| x as i128).ok(),
                Ty::I32 => c.try_current_pos::<i32>().map(|x| x as i128).ok(),
            })
        }));
        match r {
            Ok(Some(v)) => (Res::Ok, v),
            Ok(None) => (Res::Err, 0),
            Err(_) => (Res::Panic, 0),
        }
    }
}

fn rd32(b: &[u8]) -> u32 {
    u32::from_le_bytes([b[0], b[1], b[2], b[3]])
}

/// d words of the state for block `k`
fn dwords(var: &Variant, nonce: &[u8], k: u128) -> [u32; 4] {
    match var.v {
        1 => [k as u32, rd32(&nonce[0..4]), rd32(&nonce[4..8]), rd32(&nonce[8..12])],
        0 => [k as u32, (k >> 32) as u32, rd32(&nonce[0..4]), rd32(&nonce[4..8])],
        _ => [k as u32, (k >> 32) as u32, rd32(&nonce[16..20]), rd32(&nonce[20..24])],
    }
}
fn dkey(d: &[u32; 4]) -> u128 {
    d[0] as u128 | (d[1] as u128) << 32 | (d[2] as u128) << 64 | (d[3] as u128) << 96
}
fn dlist(d: &[u32; 4]) -> String {
    format!("[{}; {}; {}; {}]", nlit_u64(d[0] as u64), nlit_u64(d[1] as u64), nlit_u64(d[2] as u64), nlit_u64(d[3] as u64))
}

/// the implementation's own key-stream block `k`, from a fresh instance
fn oracle_block(var: &Variant, key: &[u8], nonce: &[u8], k: u128) -> Option<Vec<u8>> {
    let total: u128 = if var.v == 1 { 1 << 32 } else { 1 << 64 };
    if k >= total {
        return None;
    }
    let mut c = AnyCipher::new(var, key, nonce);
    let r = catch_unwind(AssertUnwindSafe(|| {
        if k < (1u128 << 58) {
            if c.seek(Ty::U64, (k * 64) as i128) != Res::Ok {
                return None;
            }
            let mut b = vec![0u8; 64];
            if c.apply(&mut b) != Res::Ok {
                return None;
            }
            Some(b)
        } else {
            // beyond what a u64 byte position can address: run on from the last addressable block
            let first = (1u128 << 58) - 1;
            if k - first > 64 {
                return None;
            }
            if c.seek(Ty::U64, (first * 64) as i128) != Res::Ok {
                return None;
            }
            let mut b = vec![0u8; 64 * (k - first + 1) as usize];
            if c.apply(&mut b) != Res::Ok {
                return None;
            }
            Some(b[b.len() - 64..].to_vec())
        }
    }));
    r.ok().flatten()
}

fn limit(var: &Variant) -> u128 {
    if var.v == 1 {
        1 << 38
    } else {
        1 << 70
    }
}

fn gen_len(rng: &mut Rng, big: bool) -> usize {
    match rng.below(12) {
        0 => 0,
        1 => 1,
        2 => rng.range(2, 63) as usize,
        3 => 64,
        4 => rng.range(65, 127) as usize,
        5 => rng.range(128, 255) as usize,
        6 => 256,
        7 => rng.range(257, 320) as usize,
        8 => {
            if big {
                rng.range(500, 1100) as usize
            } else {
                rng.range(1, 40) as usize
            }
        }
        9 => 63,
        10 => 65,
        _ => rng.range(1, 200) as usize,
    }
}

/// positions near the interesting boundaries
fn gen_pos(rng: &mut Rng, var: &Variant) -> u128 {
    let near = |rng: &mut Rng, c: u128| -> u128 {
        let span = 4 * 64u128;
        let lo = c.saturating_sub(span);
        lo + rng.below((2 * span + 1) as u64) as u128
    };
    if var.v == 1 {
        match rng.below(8) {
            0 | 1 => rng.below(300) as u128,
            2 | 3 | 4 => {
                let p = near(rng, 1 << 38);
                p.min((1 << 38) + 70)
            }
            5 => (1u128 << 38) - rng.below(3) as u128 * 64,
            6 => rng.u64() as u128 % (1 << 38),
            _ => 64 * rng.below(8) as u128,
        }
    } else {
        match rng.below(10) {
            0 | 1 => rng.below(300) as u128,
            2 | 3 => near(rng, 1 << 38),                 // block counter low word carries at 2^32 blocks
            4 | 5 => near(rng, 1 << 64).min(u64::MAX as u128), // end of u64-addressable positions
            6 => rng.u64() as u128,
            7 => 64 * rng.below(8) as u128,
            8 => (1u128 << 38) - 64 * rng.below(5) as u128,
            _ => rng.below(1 << 20) as u128,
        }
    }
}

fn pick_ty_for(rng: &mut Rng, v: i128) -> Ty {
    // a type that can hold v, chosen at random
    let mut ok: Vec<Ty> = TYS.iter().cloned().filter(|t| v >= t.min() && v <= t.max()).collect();
    if ok.is_empty() {
        ok.push(Ty::U128);
    }
    *rng.pick(&ok)
}

// ---------------------------------------------------------------------------------------------
// C01
// ---------------------------------------------------------------------------------------------
fn run_c01(a: &Args) {
    let seed = a.u64("seed", 1);
    let count = a.u64("count", 100) as usize;
    let shards = a.u64("shards", 16) as usize;
    let out = a.str("out", "/tmp/c01");
    let big = a.u64("big", 0) == 1;
    // back end: 0 = whatever the CPU detection picks, 1..5 = SSE2, SSSE3, SSE4.1, AVX, AVX2 (hook H1)
    let level = a.u64("level", 0) as u8;
    #[cfg(all(cryptocorrosion_verif, not(feature = "no_simd")))]
    ppv_lite86::x86_64::verif::set_level(level);
    #[cfg(feature = "no_simd")]
    let _ = level;
    let mut rng = Rng::new(seed ^ 0xc01);
    let mut cases = Vec::new();
    let mut js = Vec::new();
    let mut distinct = HashSet::new();
    let mut by_variant: BTreeMap<&str, usize> = BTreeMap::new();
    let mut res_count = [0usize; 3];
    let mut len_hist: BTreeMap<&str, usize> = BTreeMap::new();
    let mut direct = Vec::new();
    let mut n_prefixed = 0usize;
    for i in 0..count {
        let var = &VARIANTS[i % 7];
        *by_variant.entry(var.name).or_default() += 1;
        let key = if i < 7 { (0..32).map(|j| j as u8).collect() } else { rng.bytes(32) };
        let nonce = if i < 7 { (0..var.nonce_len).map(|j| (j * 7 + 1) as u8).collect() } else { rng.bytes(var.nonce_len) };
        let pos = if i < 7 { 0 } else if i < 14 { 64 } else { gen_pos(&mut rng, var) };
        // C01 is about positions that can be seeked to (seek errors belong to C11): the IETF
        // variant accepts positions up to and including 2^38
        let pos = if var.v == 1 { pos.min(1u128 << 38) } else { pos };
        let n = if i < 14 { 130 } else { gen_len(&mut rng, big) };
        let cls = match n {
            0 => "0",
            1..=63 => "1-63",
            64 => "64",
            65..=255 => "65-255",
            256 => "256",
            _ => ">256",
        };
        *len_hist.entry(cls).or_default() += 1;
        let mut data = vec![0u8; n];
        rng.fill(&mut data);
        let mut c = AnyCipher::new(var, &key, &nonce);
        // every third case from 14 on: the instance has a past. A boundary-directed or random
        // history (seeks of every type, applies that reach / overshoot the end of the key stream,
        // failed calls) runs first; the measured seek + apply must still give the specified bytes
        // ("at every position", whatever was done before). The prefix is recorded for the replay.
        let mut prefix_js = String::from("[]");
        if i >= 14 && i % 3 == 2 {
            let ops = if (i / 3) % 2 == 0 { boundary_history(&mut rng, var, i / 6) } else { gen_history(&mut rng, var, "c02", 6, false) };
            let mut pj = Vec::new();
            for op in ops.iter() {
                match op {
                    Op::Seek(t, v) => {
                        let _ = c.seek(*t, *v);
                        pj.push(format!("{{\"seek\":\"{}\",\"type\":\"{:?}\"}}", v, t));
                    }
                    Op::Apply(d) => {
                        let mut b = d.clone();
                        let _ = c.apply(&mut b);
                        pj.push(format!("{{\"apply\":{}}}", d.len()));
                    }
                    Op::Pos(t) => {
                        let _ = c.pos(*t);
                    }
                }
            }
            prefix_js = format!("[{}]", pj.join(","));
            n_prefixed += 1;
        }
        let ty = if pos <= u64::MAX as u128 { Ty::U64 } else { Ty::U128 };
        let sr = c.seek(ty, pos as i128);
        let mut buf = data.clone();
        let (res, outb) = if sr != Res::Ok {
            (Res::Panic, data.clone())
        } else {
            let r = c.apply(&mut buf);
            (r, buf.clone())
        };
        res_count[res.code() as usize] += 1;
        // direct statement: ok iff within the limit; on error the data is unchanged
        let expect_ok = pos + n as u128 <= limit(var);
        if (res == Res::Ok) != expect_ok || res == Res::Panic || (res == Res::Err && outb != data) {
            direct.push(format!(
                "{{\"variant\":{},\"pos\":\"{}\",\"len\":{},\"result\":{},\"expected_ok\":{}}}",
                jstr(var.name), pos, n, jstr(res.s()), expect_ok
            ));
        }
        if n > 0 {
            distinct.insert((var.name, key.clone(), nonce.clone(), pos, data.clone()));
        }
        js.push(format!(
            "{{\"variant\":{},\"key\":{},\"nonce\":{},\"prefix_history\":{},\"pos\":\"{}\",\"len\":{},\"data\":{},\"result\":{},\"out\":{}}}",
            jstr(var.name), jstr(&hex(&key)), jstr(&hex(&nonce)), prefix_js, pos, n, jstr(&hex(&data)), jstr(res.s()), jstr(&hex(&outb))
        ));
        cases.push(format!(
            "C01 {} {} {} {} {} {} {} {} {} {}",
            var.v, var.drounds, nlit(&key), var.nonce_len, nlit(&nonce), nlit_u128(pos), n, nlit(&data), res.code(), nlit(&outb)
        ));
    }
    write_shards(&out, shards, "From Coq Require Import NArith ZArith List.\nFrom CC Require Import Run.Runner Run.ChaCha.", "c01case", "run_c01", &cases);
    std::fs::write(format!("{}/cases.json", out), format!("[{}]", js.join(",\n"))).unwrap();
    let bv: Vec<String> = by_variant.iter().map(|(k, v)| format!("{}:{}", jstr(k), v)).collect();
    let lh: Vec<String> = len_hist.iter().map(|(k, v)| format!("{}:{}", jstr(k), v)).collect();
    println!(
        "{{\"evaluations\":{},\"distinct_nontrivial\":{},\"backend_level\":{},\"cases_after_a_prefix_history\":{},\"by_variant\":{{{}}},\"length_classes\":{{{}}},\"results\":{{\"ok\":{},\"err\":{},\"panic\":{}}},\"direct_failures\":[{}],\"samples\":[{}]}}",
        count, distinct.len(), level, n_prefixed, bv.join(","), lh.join(","), res_count[0], res_count[1], res_count[2],
        direct.join(","), js.iter().skip(14).take(2).cloned().collect::<Vec<_>>().join(",")
    );
}

// ---------------------------------------------------------------------------------------------
// C02 / C11: histories
// ---------------------------------------------------------------------------------------------
#[derive(Clone, Debug)]
enum Op {
    Seek(Ty, i128),
    Apply(Vec<u8>),
    Pos(Ty),
}

fn gen_history(rng: &mut Rng, var: &Variant, mode: &str, maxops: usize, big: bool) -> Vec<Op> {
    let nops = rng.range(3, maxops as u64) as usize;
    let mut ops = Vec::new();
    for j in 0..nops {
        let k = rng.below(100);
        if (j == 0 && rng.chance(2, 3)) || k < 30 {
            // seek
            let r = rng.below(20);
            if r == 0 {
                // negative i32
                ops.push(Op::Seek(Ty::I32, -(rng.below(1000) as i128) - 1));
            } else if r == 1 {
                // beyond u64
                ops.push(Op::Seek(Ty::U128, (1i128 << 64) + rng.below(1000) as i128));
            } else if r == 2 && var.v == 1 {
                // IETF: past the end
                ops.push(Op::Seek(Ty::U64, (1i128 << 38) + 1 + rng.below(200) as i128));
            } else {
                let mut p = gen_pos(rng, var) as i128;
                if mode == "c11" && var.v != 1 && rng.chance(1, 2) {
                    p = (u64::MAX as i128) - rng.below(300) as i128;
                }
                let ty = pick_ty_for(rng, p);
                ops.push(Op::Seek(ty, p));
                if rng.chance(1, 5) {
                    ops.push(Op::Apply(Vec::new())); // empty request right after a seek
                }
            }
        } else if k < 85 {
            let n = gen_len(rng, big);
            let mut d = vec![0u8; n];
            rng.fill(&mut d);
            ops.push(Op::Apply(d));
        } else {
            ops.push(Op::Pos(*rng.pick(&TYS)));
        }
    }
    ops
}

/// Boundary-directed histories (deterministic apart from the data bytes): every boundary the
/// design lists, for the given variant. `sel` picks one of them.
fn boundary_history(rng: &mut Rng, var: &Variant, sel: usize) -> Vec<Op> {
    let fill = |rng: &mut Rng, n: usize| {
        let mut d = vec![0u8; n];
        rng.fill(&mut d);
        Op::Apply(d)
    };
    let b38: i128 = 1 << 38; // 2^32 blocks: end of the IETF stream, low counter word carry elsewhere
    let ietf = var.v == 1;
    let mut ops = Vec::new();
    match sel % 12 {
        0 => {
            // position 0, every type, empty and one-byte applies
            for t in TYS.iter() {
                ops.push(Op::Seek(*t, 0));
                ops.push(Op::Pos(*t));
            }
            ops.push(fill(rng, 0));
            ops.push(fill(rng, 1));
            ops.push(Op::Pos(Ty::U8));
        }
        1 => {
            // mid-block seeks into block 0 with every seek type; short applies that stay in / leave the block
            let r = 1 + rng.below(63) as i128;
            let t = TYS[(sel / 12) % 7];
            ops.push(Op::Seek(t, r));
            ops.push(Op::Pos(Ty::U16));
            if (sel / 12) % 2 == 1 {
                ops.push(fill(rng, 0)); // an empty request while the block of the seek is still pending
                ops.push(Op::Pos(Ty::U16));
            }
            ops.push(fill(rng, 1));
            ops.push(fill(rng, (64 - r - 1) as usize)); // exactly to the end of block 0
            ops.push(Op::Pos(Ty::I32));
            ops.push(fill(rng, 65));
            ops.push(Op::Seek(Ty::U8, 63));
            ops.push(fill(rng, 2));
            ops.push(Op::Pos(Ty::U8));
        }
        2 => {
            // negative / too large arguments never move the position
            ops.push(fill(rng, 5));
            ops.push(Op::Seek(Ty::I32, -1));
            ops.push(Op::Seek(Ty::I32, i32::MIN as i128));
            ops.push(Op::Seek(Ty::U128, 1i128 << 64));
            ops.push(Op::Seek(Ty::U128, i128::MAX));
            ops.push(Op::Pos(Ty::U64));
            ops.push(fill(rng, 70));
            ops.push(Op::Seek(Ty::I32, i32::MAX as i128));
            ops.push(fill(rng, 3));
            ops.push(Op::Pos(Ty::I32));
            ops.push(Op::Pos(Ty::U32));
        }
        3 => {
            // across 2^32 blocks (2^38 bytes): mid-block, then over the boundary
            let back = 1 + rng.below(130) as i128;
            ops.push(Op::Seek(Ty::U64, b38 - back));
            ops.push(fill(rng, back as usize)); // exactly to the boundary
            ops.push(Op::Pos(Ty::U64));
            ops.push(fill(rng, 0));
            ops.push(fill(rng, 1)); // IETF: one past the end
            ops.push(Op::Pos(Ty::U128));
            ops.push(Op::Seek(Ty::U64, b38 - 128));
            ops.push(fill(rng, 64)); // after the final IETF block was produced: same nonce?
            ops.push(Op::Pos(Ty::U64));
        }
        4 => {
            // one past the end in one call, through the wide path, then exactly to the end
            let back = 257 + rng.below(600) as i128;
            ops.push(Op::Seek(Ty::U64, b38 - back));
            ops.push(fill(rng, back as usize + 1));
            ops.push(Op::Pos(Ty::U64));
            ops.push(fill(rng, back as usize));
            ops.push(Op::Pos(Ty::U64));
            ops.push(fill(rng, 1));
            ops.push(fill(rng, 0));
        }
        5 => {
            // seek to the end, past the end, and back
            ops.push(Op::Seek(Ty::U64, b38));
            ops.push(fill(rng, 0));
            ops.push(fill(rng, 1));
            ops.push(Op::Pos(Ty::U64));
            ops.push(Op::Seek(Ty::U64, b38 + 1));
            ops.push(Op::Seek(Ty::U128, b38 + 64));
            ops.push(Op::Pos(Ty::U64));
            ops.push(Op::Seek(Ty::U64, b38 - 64));
            ops.push(fill(rng, 64));
            ops.push(fill(rng, 1));
            ops.push(Op::Seek(Ty::U64, b38 - 1));
            ops.push(fill(rng, 1));
            ops.push(Op::Pos(Ty::U64));
        }
        6 => {
            // mid-block seek into the last block before the boundary, failing apply, then what follows
            let r = 1 + rng.below(63) as i128;
            ops.push(Op::Seek(Ty::U64, b38 - 64 + r));
            ops.push(fill(rng, (64 - r) as usize + 1)); // IETF: Err after the lazy fill has run
            ops.push(Op::Pos(Ty::U64));
            ops.push(fill(rng, (64 - r) as usize));
            ops.push(fill(rng, 1));
            ops.push(Op::Pos(Ty::U64));
            ops.push(Op::Seek(Ty::U64, 5));
            ops.push(fill(rng, 7));
        }
        7 => {
            // the end of the u64-addressable range (64-bit variants run on past 2^64 bytes)
            let back = rng.below(200) as i128;
            let p = if ietf { b38 - back } else { u64::MAX as i128 - back };
            ops.push(Op::Seek(Ty::U64, p));
            ops.push(fill(rng, back as usize + 1));
            ops.push(Op::Pos(Ty::U64));
            ops.push(Op::Pos(Ty::U128));
            ops.push(fill(rng, 300));
            ops.push(Op::Pos(Ty::U64));
            ops.push(Op::Pos(Ty::U128));
            ops.push(Op::Pos(Ty::Usize));
        }
        8 => {
            // current_pos at the edge of every type
            for (t, v) in [(Ty::U8, 255i128), (Ty::U16, 65535), (Ty::I32, i32::MAX as i128), (Ty::U32, u32::MAX as i128)] {
                if ietf || v <= (1 << 38) {
                    ops.push(Op::Seek(t, v));
                    ops.push(Op::Pos(t));
                    ops.push(fill(rng, 1));
                    ops.push(Op::Pos(t));
                }
            }
        }
        9 => {
            // wide path from a mid-block seek, every tail residue class
            let r = rng.below(64) as i128;
            ops.push(Op::Seek(Ty::U16, 64 * rng.below(4) as i128 + r));
            let extra = rng.below(64) as usize;
            ops.push(fill(rng, 256 + extra));
            ops.push(fill(rng, 512 + (64 - r) as usize));
            ops.push(Op::Pos(Ty::U16));
            ops.push(fill(rng, 1024));
            ops.push(fill(rng, 63));
            ops.push(Op::Pos(Ty::U32));
        }
        10 => {
            // repeated failing applies do not move anything (IETF); otherwise plain chunking
            ops.push(Op::Seek(Ty::U64, b38 - 3));
            for n in [4usize, 300, 3, 1, 0] {
                ops.push(fill(rng, n));
                ops.push(Op::Pos(Ty::U64));
            }
        }
        _ => {
            // seek backwards into a block already consumed, and to the same place twice
            ops.push(fill(rng, 100));
            ops.push(Op::Seek(Ty::U8, 70));
            ops.push(fill(rng, 0));
            ops.push(fill(rng, 10));
            ops.push(Op::Seek(Ty::U8, 70));
            ops.push(Op::Seek(Ty::U8, 70));
            ops.push(fill(rng, 0));
            ops.push(fill(rng, 0));
            ops.push(fill(rng, 10));
            ops.push(Op::Seek(Ty::U8, 64));
            ops.push(fill(rng, 64));
            ops.push(Op::Pos(Ty::U8));
        }
    }
    ops
}

/// The property itself, evaluated on the implementation only (no model, no oracle table):
/// the recorded history is replayed (a) with every apply split into chunks, (b) with a seek to
/// the absolute position in front of every apply, (c) applying every successful apply twice
/// (seek back in between), (d) every apply on a fresh instance seeked to the absolute position.
fn relative_checks(rng: &mut Rng, var: &Variant, key: &[u8], nonce: &[u8], ops: &[Op]) -> Vec<String> {
    let mut failures = Vec::new();
    // reference run
    let mut c = AnyCipher::new(var, key, nonce);
    let mut pos: u128 = 0;
    let mut refs: Vec<(u128, Res, Vec<u8>)> = Vec::new(); // per op: position before, result, output
    for op in ops {
        match op {
            Op::Seek(ty, v) => {
                let r = c.seek(*ty, *v);
                refs.push((pos, r, vec![]));
                if r == Res::Ok {
                    pos = *v as u128;
                }
            }
            Op::Apply(d) => {
                let mut buf = d.clone();
                let r = c.apply(&mut buf);
                refs.push((pos, r, buf));
                if r == Res::Ok {
                    pos += d.len() as u128;
                }
            }
            Op::Pos(ty) => {
                let (r, v) = c.pos(*ty);
                refs.push((pos, r, (v as u128).to_le_bytes().to_vec()));
            }
        }
    }
    let final_pos = c.pos(Ty::U128);
    // (a) re-chunked
    {
        let mut c = AnyCipher::new(var, key, nonce);
        for (j, op) in ops.iter().enumerate() {
            match op {
                Op::Seek(ty, v) => {
                    c.seek(*ty, *v);
                }
                Op::Apply(d) => {
                    if refs[j].1 != Res::Ok {
                        let mut buf = d.clone();
                        c.apply(&mut buf);
                        continue;
                    }
                    let mut buf = d.clone();
                    let mut at = 0usize;
                    let mut cuts = Vec::new();
                    let mut all_ok = true;
                    while at < buf.len() {
                        let step = match rng.below(5) {
                            0 => 1,
                            1 => 64,
                            2 => 1 + rng.below(63) as usize,
                            3 => 256,
                            _ => 1 + rng.below(buf.len() as u64) as usize,
                        }
                        .min(buf.len() - at);
                        cuts.push(step);
                        if c.apply(&mut buf[at..at + step]) != Res::Ok {
                            all_ok = false;
                        }
                        at += step;
                    }
                    if !all_ok || buf != refs[j].2 {
                        failures.push(format!("{{\"op\":{},\"what\":\"re-chunking: apply({} bytes) at position {} split into pieces {:?} gives different bytes (or an error) than the single call\"}}", j, d.len(), refs[j].0, cuts));
                    }
                }
                Op::Pos(ty) => {
                    let (r, v) = c.pos(*ty);
                    if r != refs[j].1 || (v as u128).to_le_bytes().to_vec() != refs[j].2 {
                        failures.push(format!("{{\"op\":{},\"what\":\"re-chunking: current_pos::<{}>() differs after the same bytes were applied in different pieces\"}}", j, ty.name()));
                    }
                }
            }
        }
        if c.pos(Ty::U128) != final_pos {
            failures.push("{\"what\":\"re-chunking: final current_pos differs\"}".to_string());
        }
    }
    // (b) re-seeked, (c) twice, (d) fresh instance
    {
        let mut c = AnyCipher::new(var, key, nonce);
        for (j, op) in ops.iter().enumerate() {
            match op {
                Op::Seek(ty, v) => {
                    c.seek(*ty, *v);
                }
                Op::Apply(d) => {
                    let p = refs[j].0;
                    if p > u64::MAX as u128 {
                        let mut buf = d.clone();
                        c.apply(&mut buf);
                        continue;
                    }
                    if c.seek(Ty::U64, p as i128) != Res::Ok {
                        failures.push(format!("{{\"op\":{},\"what\":\"re-seeking: seek to the current position {} is rejected\"}}", j, p));
                    }
                    let mut buf = d.clone();
                    let r = c.apply(&mut buf);
                    if r != refs[j].1 || buf != refs[j].2 {
                        failures.push(format!("{{\"op\":{},\"what\":\"re-seeking: apply({} bytes) after an explicit seek to the current position {} differs from the same apply without the seek\"}}", j, d.len(), p));
                    }
                    if r == Res::Ok {
                        // (c) seek back and apply again: the data must come back
                        c.seek(Ty::U64, p as i128);
                        let mut again = buf.clone();
                        let r2 = c.apply(&mut again);
                        if r2 != Res::Ok || again != *d {
                            failures.push(format!("{{\"op\":{},\"what\":\"apply twice: seek({}), apply({} bytes), seek({}), apply again does not restore the data\"}}", j, p, d.len(), p));
                        }
                        // (d) fresh instance
                        let mut f = AnyCipher::new(var, key, nonce);
                        let ty = if rng.chance(1, 2) { Ty::U64 } else { Ty::U128 };
                        f.seek(ty, p as i128);
                        let mut fb = d.clone();
                        let r3 = f.apply(&mut fb);
                        if r3 != Res::Ok || fb != refs[j].2 {
                            failures.push(format!("{{\"op\":{},\"what\":\"history dependence: apply({} bytes) at position {} after this history differs from a fresh instance seeked to {}\"}}", j, d.len(), p, p));
                        }
                    }
                }
                Op::Pos(_) => {}
            }
        }
    }
    failures.truncate(3);
    failures
}

struct HistResult {
    coq: String,
    json: String,
    failures: Vec<String>,
    nontrivial: bool,
    nops: usize,
    errs: usize,
}

fn run_history(var: &Variant, key: &[u8], nonce: &[u8], ops: &[Op]) -> HistResult {
    let mut c = AnyCipher::new(var, key, nonce);
    let lim = limit(var);
    let mut pos: u128 = 0; // abstract position
    let mut oracle: BTreeMap<u128, Vec<u8>> = BTreeMap::new();
    let mut hops = Vec::new();
    let mut jops = Vec::new();
    let mut failures = Vec::new();
    let mut errs = 0;
    let mut applied = 0usize;
    let mut seeks_mid = false;
    let mut need = |k: u128, oracle: &mut BTreeMap<u128, Vec<u8>>| {
        if !oracle.contains_key(&k) {
            if let Some(b) = oracle_block(var, key, nonce, k) {
                oracle.insert(k, b);
            }
        }
    };
    for (j, op) in ops.iter().enumerate() {
        match op {
            Op::Seek(ty, v) => {
                let r = c.seek(*ty, *v);
                let in_range = *v >= 0 && (*v as u128) <= u64::MAX as u128 && (var.v != 1 || (*v as u128) <= lim);
                let expect = if in_range { Res::Ok } else { Res::Err };
                if r != expect {
                    failures.push(format!("{{\"op\":{},\"what\":\"seek::<{}>({}) returned {}, expected {}\"}}", j, ty.name(), v, r.s(), expect.s()));
                }
                if r == Res::Ok {
                    pos = *v as u128;
                    if pos % 64 != 0 {
                        seeks_mid = true;
                    }
                }
                if r != Res::Ok {
                    errs += 1;
                }
                hops.push(format!("HSeek ({})%Z {}", v, r.code()));
                jops.push(format!("{{\"seek\":\"{}\",\"type\":{},\"result\":{}}}", v, jstr(ty.name()), jstr(r.s())));
            }
            Op::Apply(data) => {
                let n = data.len() as u128;
                // blocks the implementation may generate (incl. the lazily pending one)
                let first = pos / 64;
                let last = (pos + n.max(1) - 1) / 64;
                for k in first..=last.min(first + 40) {
                    need(k, &mut oracle);
                }
                let mut buf = data.clone();
                let r = c.apply(&mut buf);
                let expect_ok = pos + n <= lim;
                if r == Res::Panic {
                    failures.push(format!("{{\"op\":{},\"what\":\"apply({} bytes) at position {} panicked\"}}", j, n, pos));
                } else if (r == Res::Ok) != expect_ok {
                    failures.push(format!("{{\"op\":{},\"what\":\"apply({} bytes) at position {} returned {}, expected ok={}\"}}", j, n, pos, r.s(), expect_ok));
                } else if r == Res::Err {
                    if buf != *data {
                        failures.push(format!("{{\"op\":{},\"what\":\"failed apply({} bytes) at position {} modified the data\"}}", j, n, pos));
                    }
                } else {
                    // every byte must be data xor keystream(absolute position)
                    let mut ok = true;
                    for (i, b) in buf.iter().enumerate() {
                        let p = pos + i as u128;
                        match oracle.get(&(p / 64)) {
                            Some(blk) => {
                                if *b != data[i] ^ blk[(p % 64) as usize] {
                                    ok = false;
                                    failures.push(format!("{{\"op\":{},\"what\":\"apply({} bytes) at position {}: byte {} is not data xor keystream[{}] (oracle: fresh instance seeked to the block)\"}}", j, n, pos, i, p));
                                    break;
                                }
                            }
                            None => {}
                        }
                    }
                    let _ = ok;
                    pos += n;
                    applied += data.len();
                }
                if r != Res::Ok {
                    errs += 1;
                }
                hops.push(format!("HApply {} {} {} {}", data.len(), nlit(data), r.code(), nlit(&buf)));
                jops.push(format!("{{\"apply\":{},\"data\":{},\"result\":{},\"out\":{}}}", data.len(), jstr(&hex(data)), jstr(r.s()), jstr(&hex(&buf))));
            }
            Op::Pos(ty) => {
                let (r, v) = c.pos(*ty);
                let fits = pos as i128 <= ty.max() && pos <= i128::MAX as u128;
                let expect = if fits { Res::Ok } else { Res::Err };
                if r != expect || (r == Res::Ok && v as u128 != pos) {
                    failures.push(format!("{{\"op\":{},\"what\":\"current_pos::<{}>() returned {} {} at absolute position {}\"}}", j, ty.name(), r.s(), v, pos));
                }
                if r == Res::Panic {
                    // the model has no panic outcome for current_pos: record as error code 2 never matching
                    hops.push(format!("HPos {} false (-1)%Z", ty.tmax_z()));
                } else {
                    hops.push(format!("HPos {} {} ({})%Z", ty.tmax_z(), r == Res::Ok, v));
                }
                jops.push(format!("{{\"current_pos\":{},\"result\":{},\"value\":\"{}\"}}", jstr(ty.name()), jstr(r.s()), v));
            }
        }
    }
    let d0 = dwords(var, nonce, 0);
    let orc: Vec<String> = oracle
        .iter()
        .map(|(k, b)| format!("({}, {})", nlit_u128(dkey(&dwords(var, nonce, *k))), nlit(b)))
        .collect();
    let coq = format!(
        "Hist {} {} [{}] [{}]",
        var.v == 1,
        dlist(&d0),
        orc.join("; "),
        hops.join("; ")
    );
    let json = format!(
        "{{\"variant\":{},\"key\":{},\"nonce\":{},\"ops\":[{}]}}",
        jstr(var.name), jstr(&hex(key)), jstr(&hex(nonce)), jops.join(",")
    );
    HistResult { coq, json, failures, nontrivial: applied > 0 && (seeks_mid || ops.len() > 3), nops: ops.len(), errs }
}

fn run_hist(a: &Args) {
    let seed = a.u64("seed", 1);
    let count = a.u64("count", 100) as usize;
    let shards = a.u64("shards", 16) as usize;
    let out = a.str("out", "/tmp/hist");
    let mode = a.str("mode", "c02");
    let maxops = a.u64("maxops", 10) as usize;
    let big = a.u64("big", 0) == 1;
    // back end: 0 = whatever the CPU detection picks, 1..5 = SSE2, SSSE3, SSE4.1, AVX, AVX2 (hook H1)
    let level = a.u64("level", 0) as u8;
    #[cfg(all(cryptocorrosion_verif, not(feature = "no_simd")))]
    ppv_lite86::x86_64::verif::set_level(level);
    #[cfg(feature = "no_simd")]
    let _ = level;
    let mut rng = Rng::new(seed ^ 0xc02 ^ (mode.len() as u64) << 20 ^ if mode == "c11" { 0x1100 } else { 0 });
    let mut cases = Vec::new();
    let mut js = Vec::new();
    let mut direct = Vec::new();
    let mut distinct = HashSet::new();
    let mut total_ops = 0;
    let mut total_errs = 0;
    let mut by_variant: BTreeMap<&str, usize> = BTreeMap::new();
    let nboundary = (a.u64("boundary", 168) as usize).min(count.saturating_sub(6));
    let mut boundary_kinds = 0usize;
    let mut relative_runs = 0usize;
    // corpus: minimised histories of defects found earlier (D1-D4) run first
    let corpus: Vec<(usize, Vec<Op>)> = vec![
        (2, vec![Op::Seek(Ty::U8, 10), Op::Apply(vec![1, 2, 3, 4, 5]), Op::Pos(Ty::U64)]),
        (3, vec![Op::Seek(Ty::U64, (1 << 38) - 10), Op::Apply(vec![0; 10]), Op::Seek(Ty::U64, (1 << 38) - 128), Op::Apply(vec![0; 64]), Op::Pos(Ty::U64)]),
        (3, vec![Op::Seek(Ty::U64, (1 << 38) + 1), Op::Apply(vec![7; 3]), Op::Pos(Ty::U16)]),
        (3, vec![Op::Seek(Ty::U64, (1 << 38) - 10), Op::Apply(vec![9; 11]), Op::Apply(vec![9; 10]), Op::Apply(vec![5; 1]), Op::Apply(vec![]), Op::Pos(Ty::U64)]),
        (2, vec![Op::Apply(vec![1; 70]), Op::Pos(Ty::U8), Op::Seek(Ty::I32, -1), Op::Apply(vec![2; 300]), Op::Pos(Ty::I32)]),
        (6, vec![Op::Seek(Ty::U64, (1 << 38) - 100), Op::Apply(vec![3; 700]), Op::Pos(Ty::U128)]),
    ];
    for i in 0..count {
        let (var, ops) = if i < corpus.len() {
            (&VARIANTS[corpus[i].0], corpus[i].1.clone())
        } else if i < corpus.len() + nboundary {
            // boundary-directed stream: 12 kinds x 7 variants (IETF twice as often in c11 mode)
            let k = i - corpus.len();
            let var = if mode == "c11" && k % 2 == 1 { &VARIANTS[3] } else { &VARIANTS[(k / 2) % 7] };
            boundary_kinds += 1;
            (var, boundary_history(&mut rng, var, k / 14 + 12 * (k % 7)))
        } else {
            let var = if mode == "c11" && rng.chance(1, 2) { &VARIANTS[3] } else { &VARIANTS[i % 7] };
            (var, gen_history(&mut rng, var, &mode, maxops, big))
        };
        *by_variant.entry(var.name).or_default() += 1;
        let key = rng.bytes(32);
        let nonce = rng.bytes(var.nonce_len);
        let mut r = run_history(var, &key, &nonce, &ops);
        if mode == "c02" {
            let rel = relative_checks(&mut rng, var, &key, &nonce, &ops);
            relative_runs += 1;
            r.failures.extend(rel);
        }
        total_ops += r.nops;
        total_errs += r.errs;
        for f in &r.failures {
            direct.push(format!("{{\"history\":{},\"failure\":{}}}", r.json, f));
        }
        if r.nontrivial {
            distinct.insert(r.json.clone());
        }
        cases.push(r.coq);
        js.push(r.json);
    }
    write_shards(&out, shards, "From Coq Require Import NArith ZArith List.\nFrom CC Require Import Run.Runner Run.ChaCha.", "histcase", "run_hist", &cases);
    std::fs::write(format!("{}/cases.json", out), format!("[{}]", js.join(",\n"))).unwrap();
    let bv: Vec<String> = by_variant.iter().map(|(k, v)| format!("{}:{}", jstr(k), v)).collect();
    direct.truncate(5);
    println!(
        "{{\"evaluations\":{},\"distinct_nontrivial\":{},\"mode\":{},\"by_variant\":{{{}}},\"corpus_histories\":{},\"boundary_histories\":{},\"random_histories\":{},\"histories_replayed_rechunked_reseeked_twice_fresh\":{},\"total_ops\":{},\"ops_with_err_or_panic\":{},\"direct_failures\":[{}],\"samples\":[{}]}}",
        count, distinct.len(), jstr(&mode), bv.join(","), corpus.len().min(count), boundary_kinds, count.saturating_sub(corpus.len() + boundary_kinds), relative_runs, total_ops, total_errs,
        direct.join(","), js.iter().skip(6).take(2).cloned().collect::<Vec<_>>().join(",")
    );
}

// ---------------------------------------------------------------------------------------------
// C14: block API
// ---------------------------------------------------------------------------------------------
fn state_d(s: &ChaCha) -> [u32; 4] {
    let p0 = s.get_stream_param(0);
    let p1 = s.get_stream_param(1);
    [p0 as u32, (p0 >> 32) as u32, p1 as u32, (p1 >> 32) as u32]
}

fn gen_ctr(rng: &mut Rng) -> u64 {
    match rng.below(8) {
        0 => rng.below(8),
        1 | 2 => (1u64 << 32) - 5 + rng.below(8),
        3 | 4 => u64::MAX - rng.below(6),
        5 => ((rng.u32() as u64) << 32) | (0xffff_fffc + rng.below(4)),
        _ => rng.u64(),
    }
}

fn run_c14(a: &Args) {
    let seed = a.u64("seed", 1);
    let count = a.u64("count", 100) as usize;
    let shards = a.u64("shards", 16) as usize;
    let out = a.str("out", "/tmp/c14");
    // back end: 0 = whatever the CPU detection picks, 1..5 = SSE2, SSSE3, SSE4.1, AVX, AVX2 (hook H1)
    let level = a.u64("level", 0) as u8;
    #[cfg(all(cryptocorrosion_verif, not(feature = "no_simd")))]
    ppv_lite86::x86_64::verif::set_level(level);
    #[cfg(feature = "no_simd")]
    let _ = level;
    let mut rng = Rng::new(seed ^ 0xc14);
    let mut cases = Vec::new();
    let mut js = Vec::new();
    let mut direct = Vec::new();
    let mut distinct = HashSet::new();
    let mut by_dr = [0usize; 11];
    let mut classes: BTreeMap<&str, usize> = BTreeMap::new();
    // boundary counters first (14 values x 11 round counts are all met within the first 154 cases):
    // the low-word carry lands in lane 0, 1, 2, 3 or in the final add_pos; the wrap at 2^64 likewise
    let hi = (rng.u32() as u64) << 32;
    let boundary: [u64; 14] = [
        0,
        (1u64 << 32) - 4,
        (1u64 << 32) - 3,
        (1u64 << 32) - 2,
        (1u64 << 32) - 1,
        1u64 << 32,
        u64::MAX - 4,
        u64::MAX - 3,
        u64::MAX - 2,
        u64::MAX - 1,
        u64::MAX,
        hi | 0xffff_fffd,
        hi | 0xffff_fffe,
        hi | 0xffff_ffff,
    ];
    for i in 0..count {
        let key = rng.bytes(32);
        let dr = (i % 11) as u32;
        by_dr[dr as usize] += 1;
        let ctr = if i < 154 { boundary[i % 14] } else { gen_ctr(&mut rng) };
        let id = if i % 5 == 0 { u64::MAX } else { rng.word64() };
        let cls = if ctr > u64::MAX - 4 {
            "wraps_at_2^64"
        } else if (ctr as u32) > 0xffff_fffb {
            "low_word_carry"
        } else if ctr < 16 {
            "small"
        } else {
            "other"
        };
        *classes.entry(cls).or_default() += 1;
        let mut k = [0u8; 32];
        k.copy_from_slice(&key);
        let mut s = ChaCha::new(&k, &[0u8; 8]);
        s.set_stream_param(1, id);
        s.set_stream_param(0, ctr);
        let d = state_d(&s);
        let mut w = s.clone();
        let mut n = s.clone();
        let mut wide = [0u8; 256];
        let mut narrow = [0u8; 256];
        let rw = catch_unwind(AssertUnwindSafe(|| w.refill4(dr, &mut wide)));
        let rn = catch_unwind(AssertUnwindSafe(|| {
            for j in 0..4 {
                let mut b = [0u8; 64];
                n.refill(dr, &mut b);
                narrow[64 * j..64 * j + 64].copy_from_slice(&b);
            }
        }));
        let dw = state_d(&w);
        let dn = state_d(&n);
        // the counter advanced by four (mod 2^64) and nothing else moved
        let c4 = ctr.wrapping_add(4);
        let advanced = dn == [c4 as u32, (c4 >> 32) as u32, id as u32, (id >> 32) as u32];
        if rw.is_err() || rn.is_err() || wide != narrow || dw != dn || !advanced {
            direct.push(format!(
                "{{\"key\":{},\"counter\":\"{}\",\"stream_id\":\"{}\",\"drounds\":{},\"backend_level\":{},\"wide_panicked\":{},\"narrow_panicked\":{},\"bytes_equal\":{},\"state_equal\":{},\"narrow_counter_advanced_by_4_only\":{}}}",
                jstr(&hex(&key)), ctr, id, dr, level, rw.is_err(), rn.is_err(), wide == narrow, dw == dn, advanced
            ));
        }
        distinct.insert((key.clone(), ctr, id, dr));
        js.push(format!(
            "{{\"key\":{},\"counter\":\"{}\",\"stream_id\":\"{}\",\"drounds\":{},\"wide\":{},\"narrow\":{}}}",
            jstr(&hex(&key)), ctr, id, dr, jstr(&hex(&wide)), jstr(&hex(&narrow))
        ));
        cases.push(format!(
            "C14 {} {} {} {} {} {} {}",
            nlit(&key), dlist(&d), dr, nlit(&wide), dlist(&dw), nlit(&narrow), dlist(&dn)
        ));
    }
    write_shards(&out, shards, "From Coq Require Import NArith ZArith List.\nFrom CC Require Import Run.Runner Run.ChaCha.", "c14case", "run_c14", &cases);
    std::fs::write(format!("{}/cases.json", out), format!("[{}]", js.join(",\n"))).unwrap();
    let bd: Vec<String> = by_dr.iter().enumerate().map(|(k, v)| format!("\"{}\":{}", k, v)).collect();
    let cc: Vec<String> = classes.iter().map(|(k, v)| format!("{}:{}", jstr(k), v)).collect();
    direct.truncate(5);
    println!(
        "{{\"evaluations\":{},\"distinct_nontrivial\":{},\"backend_level\":{},\"by_drounds\":{{{}}},\"counter_classes\":{{{}}},\"direct_failures\":[{}],\"samples\":[{}]}}",
        count, distinct.len(), level, bd.join(","), cc.join(","), direct.join(","), js.iter().take(2).cloned().collect::<Vec<_>>().join(",")
    );
}

// ---------------------------------------------------------------------------------------------
// C15: stream parameters, stream equality
// ---------------------------------------------------------------------------------------------
fn run_c15(a: &Args) {
    let seed = a.u64("seed", 1);
    let count = a.u64("count", 100) as usize;
    let shards = a.u64("shards", 16) as usize;
    let out = a.str("out", "/tmp/c15");
    let mut rng = Rng::new(seed ^ 0xc15);
    let mut cases = Vec::new();
    let mut js = Vec::new();
    let mut direct = Vec::new();
    let mut distinct = HashSet::new();
    let mut opmix = [0usize; 4];
    for _i in 0..count {
        let key = rng.bytes(32);
        let mut k = [0u8; 32];
        k.copy_from_slice(&key);
        let nlen = if rng.chance(1, 2) { 8 } else { 12 };
        let nonce = rng.bytes(nlen);
        let mut s = ChaCha::new(&k, &nonce);
        let d0 = state_d(&s);
        let nops = rng.range(3, 9);
        let mut pops = Vec::new();
        let mut jops = Vec::new();
        let mut fails: Vec<String> = Vec::new();
        for _ in 0..nops {
            match rng.below(10) {
                0..=2 => {
                    let p = rng.below(2) as u32;
                    let v = match rng.below(6) {
                        0 => u64::MAX,
                        1 => 1u64 << rng.below(64),          // walking one: every bit of both halves
                        2 => (1u64 << 32) - 1 + rng.below(3), // around the word boundary
                        3 => (rng.u32() as u64) << 32,        // high half only
                        _ => rng.word64(),
                    };
                    let other_before = s.get_stream_param(1 - p);
                    let before = s.clone();
                    s.set_stream_param(p, v);
                    // direct: round trip and isolation
                    if s.get_stream_param(p) != v || s.get_stream_param(1 - p) != other_before {
                        fails.push(format!("op {}: set_stream_param({},{}) then get: got {} / other parameter {} -> {}", jops.len(), p, v, s.get_stream_param(p), other_before, s.get_stream_param(1 - p)));
                    }
                    // key untouched: stream predicates vs a state rebuilt with the same key
                    let mut same = before.clone();
                    same.set_stream_param(p, v);
                    if same != s {
                        fails.push(format!("op {}: set_stream_param({},{}) is not deterministic", jops.len(), p, v));
                    }
                    // the state equals one created directly with the current values: new(key, id) + counter
                    // (for a 12-byte nonce the high counter word is nonce word 0; it is part of parameter 0)
                    let (c0, c1) = (s.get_stream_param(0), s.get_stream_param(1));
                    let mut fresh = ChaCha::new(&k, &c1.to_le_bytes());
                    fresh.set_stream_param(0, c0);
                    if fresh != s {
                        fails.push(format!("op {}: after set_stream_param({},{}) the state differs from ChaCha::new(key, stream id {}) moved to counter {}", jops.len(), p, v, c1, c0));
                    }
                    // only the counter may differ from before when p = 0; nothing but the id when p = 1
                    if p == 0 && !s.stream64_eq(&before) {
                        fails.push(format!("op {}: set_stream_param(0,{}) changed more than the 64-bit counter (stream64_eq with the state before is false)", jops.len(), v));
                    }
                    opmix[0] += 1;
                    pops.push(format!("PSet {} {}", p, nlit_u64(v)));
                    jops.push(format!("{{\"set\":{},\"value\":\"{}\"}}", p, v));
                }
                3 | 4 => {
                    let p = rng.below(2) as u32;
                    let v = s.get_stream_param(p);
                    opmix[1] += 1;
                    pops.push(format!("PGet {} {}", p, nlit_u64(v)));
                    jops.push(format!("{{\"get\":{},\"value\":\"{}\"}}", p, v));
                }
                5 | 6 => {
                    let dr = *rng.pick(&[4u32, 6, 10]);
                    // direct: the block equals that of a cipher created directly with these values
                    let p0 = s.get_stream_param(0);
                    let p1 = s.get_stream_param(1);
                    let mut b = [0u8; 64];
                    s.refill(dr, &mut b);
                    if p0 < (1u64 << 58) {
                        let var = match dr {
                            4 => &VARIANTS[0],
                            6 => &VARIANTS[1],
                            _ => &VARIANTS[2],
                        };
                        if let Some(o) = oracle_block(var, &key, &p1.to_le_bytes(), p0 as u128) {
                            if o[..] != b[..] {
                                fails.push(format!("op {}: refill with parameters (0,{}) / (1,{}) differs from {} created with nonce = stream id and seeked to that block", jops.len(), p0, p1, var.name));
                            }
                        }
                    }
                    opmix[2] += 1;
                    pops.push(format!("PRefill {} {}", dr, nlit(&b)));
                    jops.push(format!("{{\"refill\":{},\"out\":{}}}", dr, jstr(&hex(&b))));
                }
                _ => {
                    // a second state differing in exactly one word (or none)
                    let mut key2 = key.clone();
                    let mut s2 = s.clone();
                    let which = rng.below(24);
                    let mut expect32 = true;
                    let mut expect64 = true;
                    if which >= 14 {
                        // several words differ at once, with differences that cancel under xor /
                        // addition or are a permutation of the same values (an accumulating or
                        // order-insensitive comparison would call these streams equal)
                        let m: u32 = match rng.below(4) { 0 => 1, 1 => 0x8000_0000, 2 => 1 << rng.below(32), _ => rng.u32() | 1 };
                        let mut dw = state_d(&s);
                        let mut kw: Vec<u32> = (0..8).map(|i| rd32(&key[4 * i..])).collect();
                        match which {
                            14 => { dw[2] ^= m; dw[3] ^= m; }
                            15 => { dw[1] ^= m; dw[2] ^= m; }
                            16 => { let m2 = rng.u32() | 2; dw[1] ^= m; dw[2] ^= m2; dw[3] ^= m ^ m2; }
                            17 => { dw[2] = dw[2].wrapping_add(m); dw[3] = dw[3].wrapping_sub(m); }
                            18 => { dw.swap(2, 3); if dw[2] == dw[3] { dw[2] ^= 1; dw[3] ^= 1; } }
                            19 => { dw.swap(1, 2); if dw[1] == dw[2] { dw[1] ^= 1; dw[2] ^= 1; } }
                            20 => { let i = rng.below(4) as usize; kw[i] ^= m; kw[i + 4] ^= m; }
                            21 => { let i = rng.below(7) as usize; kw[i] ^= m; kw[i + 1] ^= m; }
                            22 => { let i = rng.below(7) as usize; kw.swap(i, i + 1); if kw[i] == kw[i + 1] { kw[i] ^= 1; kw[i + 1] ^= 1; } }
                            _ => { let i = rng.below(8) as usize; kw[i] ^= m; dw[3] ^= m; }
                        }
                        for i in 0..8 {
                            key2[4 * i..4 * i + 4].copy_from_slice(&kw[i].to_le_bytes());
                        }
                        let mut kk = [0u8; 32];
                        kk.copy_from_slice(&key2);
                        let mut t = ChaCha::new(&kk, &[0u8; 8]);
                        t.set_stream_param(0, ((dw[1] as u64) << 32) | dw[0] as u64);
                        t.set_stream_param(1, ((dw[3] as u64) << 32) | dw[2] as u64);
                        s2 = t;
                        let d1 = state_d(&s);
                        expect64 = key2 == key && dw[2] == d1[2] && dw[3] == d1[3];
                        expect32 = expect64 && dw[1] == d1[1];
                    } else if which < 8 {
                        let w = which as usize;
                        match rng.below(4) {
                            0 => key2[4 * w] ^= 1,          // lowest bit of the word
                            1 => key2[4 * w + 3] ^= 0x80,   // highest bit of the word
                            _ => key2[4 * w + rng.below(4) as usize] ^= 1 << rng.below(8),
                        }
                        let mut kk = [0u8; 32];
                        kk.copy_from_slice(&key2);
                        let mut t = ChaCha::new(&kk, &[0u8; 8]);
                        t.set_stream_param(0, s.get_stream_param(0));
                        t.set_stream_param(1, s.get_stream_param(1));
                        s2 = t;
                        expect32 = false;
                        expect64 = false;
                    } else if which < 12 {
                        let w = (which - 8) as u32; // d word index
                        let p = w / 2;
                        // the bit: lowest, highest or any (a comparison that is off by one at either end of a word)
                        let bit = match rng.below(4) { 0 => 0, 1 => 31, _ => rng.below(32) as u32 };
                        let v = s2.get_stream_param(p) ^ (1u64 << (32 * (w % 2) + bit));
                        s2.set_stream_param(p, v);
                        // word 0: both predicates ignore it; word 1: only the 64-bit one ignores it
                        expect32 = w == 0;
                        expect64 = w <= 1;
                    }
                    let e32 = s.stream32_eq(&s2);
                    let e64 = s.stream64_eq(&s2);
                    if e32 != expect32 || e64 != expect64 {
                        let cls = if which >= 14 { format!("several words at once (pattern {})", which) } else if which < 8 { format!("one bit of key word {}", which) } else if which < 12 { format!("one bit of d word {}", which - 8) } else { "nothing".to_string() };
                        fails.push(format!("op {}: stream32_eq={} (expected {}), stream64_eq={} (expected {}) against a state differing in {}", jops.len(), e32, expect32, e64, expect64, cls));
                    }
                    opmix[3] += 1;
                    let d2 = state_d(&s2);
                    pops.push(format!("PEq {} {} {} {}", nlit(&key2), dlist(&d2), e32, e64));
                    jops.push(format!("{{\"eq_with\":{{\"key\":{},\"d\":{:?}}},\"stream32_eq\":{},\"stream64_eq\":{}}}", jstr(&hex(&key2)), d2, e32, e64));
                }
            }
        }
        let j = format!("{{\"key\":{},\"nonce\":{},\"ops\":[{}]}}", jstr(&hex(&key)), jstr(&hex(&nonce)), jops.join(","));
        if !fails.is_empty() {
            let fl: Vec<String> = fails.iter().map(|f| jstr(f)).collect();
            direct.push(format!("{{\"case\":{},\"failures\":[{}]}}", j, fl.join(",")));
        }
        distinct.insert(j.clone());
        js.push(j);
        cases.push(format!("C15 {} {} [{}]", nlit(&key), dlist(&d0), pops.join("; ")));
    }
    write_shards(&out, shards, "From Coq Require Import NArith ZArith List.\nFrom CC Require Import Run.Runner Run.ChaCha.", "c15case", "run_c15", &cases);
    std::fs::write(format!("{}/cases.json", out), format!("[{}]", js.join(",\n"))).unwrap();
    direct.truncate(5);
    println!(
        "{{\"evaluations\":{},\"distinct_nontrivial\":{},\"op_mix\":{{\"set\":{},\"get\":{},\"refill\":{},\"eq\":{}}},\"direct_failures\":[{}],\"samples\":[{}]}}",
        count, distinct.len(), opmix[0], opmix[1], opmix[2], opmix[3], direct.join(","), js.iter().take(2).cloned().collect::<Vec<_>>().join(",")
    );
}

fn main() {
    std::panic::set_hook(Box::new(|_| {}));
    let argv: Vec<String> = std::env::args().collect();
    let args = Args::parse(&argv[2..]);
    match argv[1].as_str() {
        "c01" => run_c01(&args),
        "hist" => run_hist(&args),
        "c14" => run_c14(&args),
        "c15" => run_c15(&args),
        o => {
            eprintln!("unknown subcommand {}", o);
            std::process::exit(2);
        }
    }
}
