#![allow(dead_code)]
//! C04 (+ BLAKE part of C17): digests of the four BLAKE hashers over a length
//! sweep and, through hook H2, from arbitrary chaining values with counters
//! next to the 2^32 / 2^64 / 2^128 bit boundaries.
#[path = "../util.rs"]
mod util;
use util::*;

use blake_hash::{Blake224, Blake256, Blake384, Blake512, Digest};
use std::panic::{catch_unwind, AssertUnwindSafe};

/// digest bytes each variant must return (28/32/48/64): the Coq runner cuts the digest literal to this
/// size, so the length actually returned is checked here (a wrong length is a direct failure)
fn out_len(variant: u32) -> usize {
    match variant {
        224 => 28,
        256 => 32,
        384 => 48,
        _ => 64,
    }
}

/// every call into the implementation goes through here: None = it panicked (reported as an outcome of
/// the case, with the case as failing input, instead of a harness crash)
fn guarded<R>(f: impl FnOnce() -> R) -> Option<R> {
    catch_unwind(AssertUnwindSafe(f)).ok()
}

/// byte i of every really streamed message is (i mod 251)
const PAT_PERIOD: usize = 251;
fn pat_base() -> Vec<u8> {
    (0..PAT_PERIOD * 4200).map(|i| (i % PAT_PERIOD) as u8).collect()
}
fn pat_buf(base: &[u8], n: usize) -> Vec<u8> {
    let mut v = Vec::with_capacity(n + base.len());
    while v.len() < n {
        v.extend_from_slice(base);
    }
    v.truncate(n);
    v
}

fn digest(variant: u32, msg: &[u8]) -> Vec<u8> {
    // half of the cases reuse an object that has already produced a digest in place
    // (FixedOutput::finalize_fixed_reset) or absorbed data and was reset
    macro_rules! go {
        ($t:ident) => {{
            match msg.len() % 4 {
                2 => {
                    let mut h = $t::default();
                    digest::Update::update(&mut h, &msg[..if (msg.len() / 4) % 2 == 0 { 0 } else { msg.len().min(5) }]);
                    let _ = digest::FixedOutput::finalize_fixed_reset(&mut h);
                    digest::Update::update(&mut h, msg);
                    digest::FixedOutput::finalize_fixed(h).to_vec()
                }
                3 => {
                    let mut h = $t::default();
                    digest::Update::update(&mut h, &[0x5au8; 200][..]);
                    // counters far into a message (high word non-zero) before the reset
                    let (cv, t, _, _) = h.verif_get_state();
                    h.verif_set_state(cv, (t.0, 5), &[0x11u8; 3][..]);
                    digest::Reset::reset(&mut h);
                    digest::Update::update(&mut h, msg);
                    digest::FixedOutput::finalize_fixed(h).to_vec()
                }
                1 => {
                    // the digest of a clone taken after the data was absorbed
                    let mut h = $t::default();
                    digest::Update::update(&mut h, msg);
                    let c = h.clone();
                    digest::Update::update(&mut h, b"x");
                    digest::FixedOutput::finalize_fixed(c).to_vec()
                }
                _ => $t::digest(msg).to_vec(),
            }
        }};
    }
    match variant {
        224 => go!(Blake224),
        256 => go!(Blake256),
        384 => go!(Blake384),
        _ => go!(Blake512),
    }
}

/// digest from an entered state; `h` = 8 words big-endian, t = (t0, t1)
fn digest_from(variant: u32, h: &[u8], t0: u128, t1: u128, buffered: &[u8], tail: &[u8]) -> Vec<u8> {
    macro_rules! go {
        ($t:ident, $w:ident, $wb:expr) => {{
            let mut hw = [[0 as $w; 4]; 2];
            for i in 0..8 {
                let mut b = [0u8; $wb];
                b.copy_from_slice(&h[i * $wb..(i + 1) * $wb]);
                hw[i / 4][i % 4] = $w::from_be_bytes(b);
            }
            let mut s = $t::default();
            s.verif_set_state(hw, (t0 as $w, t1 as $w), buffered);
            s.update(tail);
            s.finalize().to_vec()
        }};
    }
    match variant {
        224 => go!(Blake224, u32, 4),
        256 => go!(Blake256, u32, 4),
        384 => go!(Blake384, u64, 8),
        _ => go!(Blake512, u64, 8),
    }
}

/// hash `pre`, read the state back with the hook, enter it into a fresh hasher,
/// continue both with `tail`: digests must agree and the counter must be exact
fn hook_roundtrip(variant: u32, pre: &[u8], tail: &[u8]) -> Option<String> {
    macro_rules! go {
        ($t:ident, $w:ident, $buf:expr) => {{
            let mut a = $t::default();
            a.update(pre);
            let (h, t, content, pos) = a.verif_get_state();
            let mut b = $t::default();
            b.verif_set_state(h, t, &content[..pos]);
            a.update(tail);
            b.update(tail);
            let (da, db) = (a.finalize().to_vec(), b.finalize().to_vec());
            let bits = ((pre.len() / $buf) * $buf * 8) as u128;
            let tv = (t.0 as u128) | ((t.1 as u128) << (8 * std::mem::size_of::<$w>() as u32 % 128));
            let want_pos = pre.len() % $buf;
            if da != db || da != digest(variant, &[pre, tail].concat()) || tv != bits || pos != want_pos
                || content[..pos] != pre[pre.len() - pos..]
            {
                Some(format!(
                    "{{\"kind\":\"hook-roundtrip\",\"variant\":{},\"pre_len\":{},\"tail_len\":{},\"t\":\"{:x}\",\"pos\":{}}}",
                    variant, pre.len(), tail.len(), tv, pos
                ))
            } else {
                None
            }
        }};
    }
    match variant {
        224 => go!(Blake224, u32, 64),
        256 => go!(Blake256, u32, 64),
        384 => go!(Blake384, u64, 128),
        _ => go!(Blake512, u64, 128),
    }
}

/// state read back through the hook: chaining value as 8 big-endian words, t0, t1, buffered bytes
#[derive(Clone, PartialEq, Eq)]
struct St {
    h: Vec<u8>,
    t0: u128,
    t1: u128,
    buffered: Vec<u8>,
}

struct Streamed {
    /// state after `n` bytes
    at_n: St,
    /// digest of the SAME streamed object continued with `tail` (None = panic)
    same_object: Option<Vec<u8>>,
    /// state of a clone of the streamed object continued with pattern bytes up to `upto` bytes in total
    at_upto: Option<St>,
}

/// really stream `n` patterned bytes into a fresh hasher (update calls of varying sizes), read the
/// state back through the hook, then continue the same object with `tail` and finalise it
fn real_stream(variant: u32, n: u64, tail: &[u8], upto: Option<u64>, base: &[u8]) -> Streamed {
    macro_rules! go {
        ($t:ident) => {{
            let get = |s: &$t| -> St {
                let (h, t, content, pos) = s.verif_get_state();
                let mut hb = Vec::new();
                for i in 0..8 {
                    hb.extend_from_slice(&h[i / 4][i % 4].to_be_bytes());
                }
                St { h: hb, t0: t.0 as u128, t1: t.1 as u128, buffered: content[..pos].to_vec() }
            };
            let mut s = $t::default();
            let sizes = [1usize << 20, 65537, 4096, 63, 1, 64, 129, 1 << 20];
            let (mut done, mut k) = (0u64, 0usize);
            while done < n {
                let m = (sizes[k % sizes.len()] as u64).min(n - done) as usize;
                let off = (done % PAT_PERIOD as u64) as usize;
                s.update(&base[off..off + m]);
                done += m as u64;
                k += 1;
            }
            let at_n = get(&s);
            let at_upto = upto.map(|u| {
                let mut c = s.clone();
                let off = (n % PAT_PERIOD as u64) as usize;
                c.update(&base[off..off + (u - n) as usize]);
                get(&c)
            });
            s.update(tail);
            let same_object = Some(s.finalize().to_vec());
            Streamed { at_n, same_object, at_upto }
        }};
    }
    match variant {
        224 => go!(Blake224),
        256 => go!(Blake256),
        384 => go!(Blake384),
        _ => go!(Blake512),
    }
}

/// ONE `update` call with all of `buf`; state read back, then the same object continued with `tail`
fn single_update(variant: u32, buf: &[u8], tail: &[u8]) -> (St, Vec<u8>) {
    macro_rules! go {
        ($t:ident) => {{
            let mut s = $t::default();
            s.update(buf);
            let (h, t, content, pos) = s.verif_get_state();
            let mut hb = Vec::new();
            for i in 0..8 {
                hb.extend_from_slice(&h[i / 4][i % 4].to_be_bytes());
            }
            let st = St { h: hb, t0: t.0 as u128, t1: t.1 as u128, buffered: content[..pos].to_vec() };
            s.update(tail);
            (st, s.finalize().to_vec())
        }};
    }
    match variant {
        224 => go!(Blake224),
        256 => go!(Blake256),
        384 => go!(Blake384),
        _ => go!(Blake512),
    }
}

/// digest of `msg` from an object that was `blocks` blocks into a message (counter words both non-zero),
/// with bytes buffered, and was then reset / finalised in place: must be the plain digest
fn digest_after_reset(variant: u32, msg: &[u8], mode: u8) -> Vec<u8> {
    macro_rules! go {
        ($t:ident, $w:ident) => {{
            let mut h = $t::default();
            let (cv, _, _, _) = h.verif_get_state();
            let hi: $w = 3;
            let lo: $w = (0 as $w).wrapping_sub(4096);
            h.verif_set_state(cv, (lo, hi), &[0x33u8; 5][..]);
            match mode % 3 {
                0 => digest::Reset::reset(&mut h),
                1 => {
                    let _ = digest::FixedOutput::finalize_fixed_reset(&mut h);
                }
                _ => {
                    let _ = Digest::finalize_reset(&mut h);
                }
            }
            digest::Update::update(&mut h, msg);
            digest::FixedOutput::finalize_fixed(h).to_vec()
        }};
    }
    match variant {
        224 => go!(Blake224, u32),
        256 => go!(Blake256, u32),
        384 => go!(Blake384, u64),
        _ => go!(Blake512, u64),
    }
}

struct Case {
    coq: String,
    json: String,
    key: Vec<u8>,
    nontrivial: bool,
    /// what is wrong with the implementation's outcome on this case by itself (panic, digest of the wrong length)
    problem: Option<&'static str>,
}

/// (digest bytes or empty, outcome, problem): a panic and a digest whose length is not the variant's
/// are direct failures with the case as failing input
fn observe(variant: u32, r: Option<Vec<u8>>) -> (Vec<u8>, &'static str, Option<&'static str>) {
    match r {
        None => (Vec::new(), "panic", Some("the implementation panicked on an input inside the format limits")),
        Some(d) => {
            let p = if d.len() != out_len(variant) { Some("the digest returned does not have the variant's length") } else { None };
            (d, "ok", p)
        }
    }
}

fn content(rng: &mut Rng, style: u64, n: usize) -> Vec<u8> {
    match style % 5 {
        0 => {
            let mut v = vec![0u8; n];
            rng.fill(&mut v);
            v
        }
        1 => vec![0u8; n],
        2 => vec![0xffu8; n],
        3 => (0..n).map(|i| i as u8).collect(),
        _ => rng.bytes(n),
    }
}

fn digest_case(variant: u32, msg: &[u8]) -> Case {
    digest_case_with(variant, msg, guarded(|| digest(variant, msg)), "digest")
}

fn digest_case_with(variant: u32, msg: &[u8], r: Option<Vec<u8>>, kind: &str) -> Case {
    let (d, outcome, problem) = observe(variant, r);
    let mut key = vec![0u8];
    key.extend_from_slice(&variant.to_le_bytes());
    key.extend_from_slice(msg);
    Case {
        coq: format!("BD {} {} {} {}", variant, msg.len(), nlit(msg), nlit(&d)),
        json: format!(
            "{{\"kind\":{},\"variant\":{},\"len\":{},\"msg\":{},\"outcome\":\"{}\",\"digest_len\":{},\"expected_digest_len\":{},\"digest\":{}}}",
            jstr(kind),
            variant,
            msg.len(),
            jstr(&hex(msg)),
            outcome,
            d.len(),
            out_len(variant),
            jstr(&hex(&d))
        ),
        key,
        nontrivial: !msg.is_empty(),
        problem,
    }
}

/// Definitions prepended to the generated case files (nothing in /verif/coq changes): `LP len seed` is the
/// number whose little-endian encoding is the `len` bytes "high byte of x_i", x_0 = seed, x_{i+1} = 5 x_i + 12345
/// mod 2^16 (period 2^16, no two 64-byte blocks of a 64 KiB message equal). coqc needs ~80 us per byte of a
/// literal (5 s for 64 KiB); this term costs a few ms.
const LP_HEADER: &str = "From CC Require Import Lib.Bytes.\nFixpoint lp_bytes (n : nat) (x : N) : list N := match n with O => nil | S k => cons (N.shiftr x 8%N) (lp_bytes k (N.land (x * 5 + 12345)%N 65535%N)) end.\nDefinition LP (n seed : N) : N := le_join (lp_bytes (N.to_nat n) (N.land seed 65535%N)).";
fn lp_fill(n: usize, seed: u16) -> Vec<u8> {
    let mut x = seed as u32;
    (0..n)
        .map(|_| {
            let b = (x >> 8) as u8;
            x = (x * 5 + 12345) & 0xffff;
            b
        })
        .collect()
}

/// ONE `update` call with a long message (8 KiB, 64 KiB + 1): the one-shot stream otherwise stops at ~4 KiB,
/// so a fast path of `update` for large inputs would only be seen by the relative checks (C08, C17)
fn big_update_case(variant: u32, len: usize, seed: u16) -> Case {
    let msg = lp_fill(len, seed);
    let r = guarded(|| digest(variant, &msg));
    let (d, outcome, problem) = observe(variant, r);
    let mut key = vec![4u8];
    key.extend_from_slice(&variant.to_le_bytes());
    key.extend_from_slice(&(len as u64).to_le_bytes());
    key.extend_from_slice(&seed.to_le_bytes());
    Case {
        coq: format!("BU {} true [({}, (LP {} {}))] {}", variant, len, len, seed, nlit(&d)),
        json: format!(
            "{{\"kind\":\"digest of ONE update call with a long message\",\"variant\":{},\"len\":{},\"msg_rule\":\"byte i = x_i >> 8, x_0 = {}, x_(i+1) = (5 x_i + 12345) mod 65536\",\"msg_first_bytes\":{},\"outcome\":\"{}\",\"digest_len\":{},\"expected_digest_len\":{},\"digest\":{}}}",
            variant, len, seed, jstr(&hex(&msg[..16])), outcome, d.len(), out_len(variant), jstr(&hex(&d))
        ),
        key,
        nontrivial: true,
        problem,
    }
}

/// message given in parts: oneshot = hash the concatenation with one `update` (parts only
/// keep the Coq literals short); otherwise one `update` call per part
fn parts_case(variant: u32, parts: &[Vec<u8>], oneshot: bool) -> Case {
    let whole: Vec<u8> = parts.concat();
    let r = guarded(|| if oneshot {
        digest(variant, &whole)
    } else {
        macro_rules! go {
            ($t:ident) => {{
                let mut s = $t::default();
                for p in parts {
                    s.update(p);
                }
                s.finalize().to_vec()
            }};
        }
        match variant {
            224 => go!(Blake224),
            256 => go!(Blake256),
            384 => go!(Blake384),
            _ => go!(Blake512),
        }
    });
    let (d, outcome, problem) = observe(variant, r);
    let mut key = vec![if oneshot { 0u8 } else { 2u8 }];
    key.extend_from_slice(&variant.to_le_bytes());
    if !oneshot {
        for p in parts {
            key.extend_from_slice(&(p.len() as u32).to_le_bytes());
        }
    }
    key.extend_from_slice(&whole);
    let ps: Vec<String> = parts.iter().map(|p| format!("({}, {})", p.len(), nlit(p))).collect();
    let js: Vec<String> = parts.iter().map(|p| jstr(&hex(p))).collect();
    Case {
        coq: format!("BU {} {} [{}] {}", variant, oneshot, ps.join("; "), nlit(&d)),
        json: format!(
            "{{\"kind\":\"{}\",\"variant\":{},\"len\":{},\"parts\":[{}],\"outcome\":\"{}\",\"digest_len\":{},\"expected_digest_len\":{},\"digest\":{}}}",
            if oneshot { "digest-long" } else { "updates" },
            variant,
            whole.len(),
            js.join(","),
            outcome,
            d.len(),
            out_len(variant),
            jstr(&hex(&d))
        ),
        key,
        nontrivial: !whole.is_empty(),
        problem,
    }
}

fn hook_case(variant: u32, h: &[u8], t0: u128, t1: u128, buffered: &[u8], tail: &[u8]) -> Case {
    hook_case_with(variant, h, t0, t1, buffered, tail, guarded(|| digest_from(variant, h, t0, t1, buffered, tail)), "hook", "")
}

/// `r`: the digest the implementation returned for (state; update tail; finalize) - by a fresh object the state
/// was entered into (`hook_case`) or by the very object that reached the state by hashing (`stream` says which)
fn hook_case_with(variant: u32, h: &[u8], t0: u128, t1: u128, buffered: &[u8], tail: &[u8], r: Option<Vec<u8>>, stream: &str, note: &str) -> Case {
    let (d, outcome, problem) = observe(variant, r);
    let mut key = vec![if stream.contains("same_object") { 3u8 } else { 1u8 }];
    key.extend_from_slice(&variant.to_le_bytes());
    key.extend_from_slice(h);
    key.extend_from_slice(&t0.to_le_bytes());
    key.extend_from_slice(&t1.to_le_bytes());
    key.extend_from_slice(&(buffered.len() as u32).to_le_bytes());
    key.extend_from_slice(buffered);
    key.extend_from_slice(tail);
    Case {
        coq: format!(
            "BH {} {} {} {} {} {} {} {} {}",
            variant,
            nlit(h),
            nlit_u128(t0),
            nlit_u128(t1),
            buffered.len(),
            nlit(buffered),
            tail.len(),
            nlit(tail),
            nlit(&d)
        ),
        json: format!(
            "{{\"kind\":\"hook\",\"stream\":{},\"note\":{},\"variant\":{},\"h\":{},\"t0\":\"{:x}\",\"t1\":\"{:x}\",\"buffered\":{},\"tail\":{},\"outcome\":\"{}\",\"digest_len\":{},\"expected_digest_len\":{},\"digest\":{}}}",
            jstr(stream),
            jstr(note),
            variant,
            jstr(&hex(h)),
            t0,
            t1,
            jstr(&hex(buffered)),
            jstr(&hex(tail)),
            outcome,
            d.len(),
            out_len(variant),
            jstr(&hex(&d))
        ),
        key,
        nontrivial: true,
        problem,
    }
}

fn main() {
    let argv: Vec<String> = std::env::args().collect();
    if argv.len() < 2 || argv[1] != "blake" {
        eprintln!("usage: h_blake blake --seed N --shards K --out DIR [--tier quick|thorough --streams all|reduced|tiny|hook --real N --big-update 0|1 --level 0..5]");
        std::process::exit(2);
    }
    let a = Args::parse(&argv[2..]);
    let seed = a.u64("seed", 1);
    let shards = a.u64("shards", 16) as usize;
    let out = a.str("out", "/tmp/blake_cases");
    let thorough = a.str("tier", "quick") == "thorough";
    let hook_only = a.str("streams", "all") == "hook";
    let real = a.u64("real", 0);
    let big_update = a.u64("big-update", 0) != 0;
    std::panic::set_hook(Box::new(|_| {}));
    // back end: 0 = whatever the CPU detection picks, 1..5 = SSE2, SSSE3, SSE4.1, AVX, AVX2 (hook H1)
    let level = a.u64("level", 0) as u8;
    #[cfg(all(cryptocorrosion_verif, not(feature = "no_simd")))]
    ppv_lite86::x86_64::verif::set_level(level);
    #[cfg(feature = "no_simd")]
    let _ = level;
    // reduced: every 4th length of the sweep (plus the padding boundaries), fewer hook states
    // tiny: every 8th length plus the padding boundaries, no multi-update / long streams, one hook state per boundary
    let tiny = a.str("streams", "all") == "tiny";
    let reduced = a.str("streams", "all") == "reduced" || tiny;
    let mut rng = Rng::new(seed ^ 0xb1a4e);
    let mut cases: Vec<Case> = Vec::new();
    let mut direct: Vec<String> = Vec::new();
    let variants = [224u32, 256, 384, 512];
    let (mut n_sweep, mut n_sparse, mut n_hook, mut n_rt, mut n_updates) = (0usize, 0usize, 0usize, 0usize, 0usize);
    let mut max_len = 0usize;
    let (mut n_real, mut real_bytes) = (0usize, 0u64);
    let (mut n_same, mut n_big) = (0usize, 0usize);
    let (mut n_bigone, mut max_one_update) = (0usize, 0usize);

    // 0. C17: really stream up to just below 2^32 bits (512 MiB) into Blake224/256 (which of the two comes first
    //    rotates with the seed), read the state back (the counter must be exactly the bits compressed so far),
    //    then cross the boundary twice: with a fresh object the read-back state is entered into, and with the
    //    streamed object itself (a private field the hook does not expose would make the two differ)
    let base = if real > 0 || big_update { pat_base() } else { Vec::new() };
    let big_n: u64 = (1u64 << 29) + 64;
    let mut chunked_at_big: Option<(u32, St)> = None;
    for k in 0..real {
        let v = if (k + seed) % 2 == 0 { 256u32 } else { 224 };
        let below = [64u64, 1, 129, 200, 65, 128][k as usize % 6];
        let n = (1u64 << 29) - below;
        let tail_len = below as usize + [1usize, 64, 0, 56, 120][k as usize % 5];
        let tail = content(&mut rng, k, tail_len);
        let upto = if big_update && k == 0 { Some(big_n) } else { None };
        let st = match guarded(|| real_stream(v, n, &tail, upto, &base)) {
            Some(st) => st,
            None => {
                direct.push(format!("{{\"kind\":\"panic while really streaming\",\"variant\":{},\"streamed\":{}}}", v, n));
                continue;
            }
        };
        let (h, t0, t1, buffered) = (st.at_n.h.clone(), st.at_n.t0, st.at_n.t1, st.at_n.buffered.clone());
        let bits = (n / 64) * 512;
        if t0 != (bits & 0xffff_ffff) as u128 || t1 != (bits >> 32) as u128 || buffered.len() as u64 != n % 64 {
            direct.push(format!(
                "{{\"kind\":\"counter after really streaming\",\"variant\":{},\"streamed\":{},\"t0\":\"{:x}\",\"t1\":\"{:x}\",\"pos\":{}}}",
                v, n, t0, t1, buffered.len()
            ));
        }
        let note = format!("state read back after really streaming {} bytes (byte i = i mod 251)", n);
        let fresh = guarded(|| digest_from(v, &h, t0, t1, &buffered, &tail));
        if fresh != st.same_object {
            direct.push(format!(
                "{{\"kind\":\"the streamed object continued with the tail and a fresh object entered with its read-back state return different digests\",\"variant\":{},\"streamed\":{},\"tail\":{},\"same_object\":{},\"fresh_object_from_state\":{}}}",
                v, n, jstr(&hex(&tail)), jstr(&hex(st.same_object.as_deref().unwrap_or(&[]))), jstr(&hex(fresh.as_deref().unwrap_or(&[])))
            ));
        }
        cases.push(hook_case_with(v, &h, t0, t1, &buffered, &tail, fresh, "real_stream", &note));
        cases.push(hook_case_with(v, &h, t0, t1, &buffered, &tail, st.same_object.clone(), "real_stream_same_object", &note));
        n_real += 1;
        n_same += 1;
        real_bytes += n;
        if let Some(s2) = st.at_upto {
            chunked_at_big = Some((v, s2));
            real_bytes += big_n - n;
        }
    }
    // 0b. C17: ONE update call of 2^29 + 64 bytes (the 2^32-bit carry happens inside a single call; a run-based
    //     count such as `(nblocks * 64) * 8` in the counter word wraps there): the state after it must be the
    //     state reached by the chunked stream above, the counter the closed form, and the digest continued
    //     from it (same object, and a fresh object from the read-back state) is compared with model and spec
    if big_update {
        let (v, reference) = match chunked_at_big.take() {
            Some(x) => x,
            None => {
                let v = if seed % 2 == 0 { 256u32 } else { 224 };
                let st = real_stream(v, big_n - 128, &[], Some(big_n), &base);
                real_bytes += big_n;
                (v, st.at_upto.unwrap())
            }
        };
        let buf = pat_buf(&base, big_n as usize);
        let tail = content(&mut rng, 3, 77);
        match guarded(|| single_update(v, &buf, &tail)) {
            None => direct.push(format!("{{\"kind\":\"panic in one update call of 2^29+64 bytes\",\"variant\":{}}}", v)),
            Some((st, same)) => {
                let bits = (big_n / 64) * 512;
                if st != reference || st.t0 != (bits & 0xffff_ffff) as u128 || st.t1 != (bits >> 32) as u128 || !st.buffered.is_empty() {
                    direct.push(format!(
                        "{{\"kind\":\"state after ONE update call of 2^29+64 bytes differs from the state after the same bytes in many calls (or from the closed form t = 2^32 + 512 bits)\",\"variant\":{},\"bytes\":{},\"one_call\":{{\"h\":{},\"t0\":\"{:x}\",\"t1\":\"{:x}\",\"pos\":{}}},\"many_calls\":{{\"h\":{},\"t0\":\"{:x}\",\"t1\":\"{:x}\",\"pos\":{}}}}}",
                        v, big_n, jstr(&hex(&st.h)), st.t0, st.t1, st.buffered.len(),
                        jstr(&hex(&reference.h)), reference.t0, reference.t1, reference.buffered.len()
                    ));
                }
                let note = format!("state read back after ONE update call of {} bytes (byte i = i mod 251)", big_n);
                let fresh = guarded(|| digest_from(v, &st.h, st.t0, st.t1, &st.buffered, &tail));
                cases.push(hook_case_with(v, &st.h, st.t0, st.t1, &st.buffered, &tail, fresh, "single_update_2^29+64", &note));
                cases.push(hook_case_with(v, &st.h, st.t0, st.t1, &st.buffered, &tail, Some(same), "single_update_2^29+64_same_object", &note));
                n_big += 1;
                real_bytes += big_n;
            }
        }
    }

    if !hook_only {
    // 1. every length 0 ..= 3*block+1 (every residue, 55/56 and 111/112, 0, exact multiples)
    for &v in &variants {
        let block = if v <= 256 { 64 } else { 128 };
        for len in 0..=(3 * block + 1) {
            let r = len % block;
            let m = if tiny { 8 } else { 4 };
            if reduced && !(len % m == (v as usize / 32) % m || r <= 1 || r + 1 == block || (r + 10 >= block && r + 7 <= block) || (r + 18 >= block && r + 15 <= block)) {
                continue;
            }
            let msg = content(&mut rng, len as u64 + v as u64, len);
            cases.push(digest_case(v, &msg));
            n_sweep += 1;
        }
    }
    // 2. sparse longer lengths around block multiples
    let top = if thorough { 64 * 1024 } else { 4 * 1024 };
    let per = if tiny { 1 } else if thorough { 60 } else { 6 };
    for &v in &variants {
        let block = if v <= 256 { 64usize } else { 128 };
        for i in 0..per {
            let base = rng.range(4, (top / block) as u64) as usize * block;
            let delta = *rng.pick(&[0i64, -1, 1, -9, -8, -10, -17, -16, -18, 5, 55, 56, 111, 112, 37]);
            let len = (base as i64 + delta).max(0) as usize;
            let msg = content(&mut rng, i as u64, len);
            max_len = max_len.max(len);
            let parts: Vec<Vec<u8>> = msg.chunks(1024).map(|c| c.to_vec()).collect();
            cases.push(parts_case(v, &parts, true));
            n_sparse += 1;
        }
    }
    // 2a. ONE update with 8 KiB and with 64 KiB + 1 bytes per variant (not in the tiny streams); consecutive
    //     cases, i.e. eight different Coq shards
    //     (measured: ~15 ms per block for model + spec in coqc, i.e. 64 KiB + 1 costs one shard ~15 s: only ONE variant,
    //     rotating with the seed, gets it, the others 16 KiB + 1; the reduced stream (release profile) 8 KiB only)
    if !tiny {
        for (vi, &v) in variants.iter().enumerate() {
            let long = if vi as u64 == seed % 4 { 65537usize } else { 16385 };
            let lens: &[usize] = if reduced { &[8192] } else { &[8192, long] };
            for &len in lens {
                cases.push(big_update_case(v, len, rng.below(1 << 16) as u16));
                n_bigone += 1;
                max_one_update = max_one_update.max(len);
            }
        }
    }
    // 2b. several update calls: every split point of messages around the block boundaries
    //     (quick: a directed subset), then random 2-4 part splits incl. empty parts
    for &v in &variants {
        let block = if v <= 256 { 64usize } else { 128 };
        let mut splits: Vec<(usize, usize)> = Vec::new(); // (total length, split point)
        for &total in &[block - 9, block - 8, block - 1, block, block + 1, 2 * block - 9, 2 * block, 2 * block + 3] {
            for sp in 0..=total {
                let near = sp <= 1 || sp + 1 >= total || (sp % block) <= 1 || (sp % block) + 1 >= block
                    || (total - sp) % block == 0 || sp + 9 == block || sp + 8 == block || sp + 17 == block || sp + 16 == block;
                if thorough || (near && !tiny) || rng.chance(1, if tiny { 40 } else { 12 }) {
                    splits.push((total, sp));
                }
            }
        }
        for (total, sp) in splits {
            let msg = content(&mut rng, (total + sp) as u64, total);
            cases.push(parts_case(v, &[msg[..sp].to_vec(), msg[sp..].to_vec()], false));
            n_updates += 1;
        }
        for i in 0..(if tiny { 2 } else if thorough { 200 } else { 12 }) {
            let nparts = rng.range(2, 4) as usize;
            let mut parts: Vec<Vec<u8>> = Vec::new();
            for _ in 0..nparts {
                let l = match rng.below(6) {
                    0 => 0,
                    1 => block,
                    2 => rng.below(block as u64) as usize,
                    3 => block - 1 - rng.below(18) as usize,
                    4 => 2 * block + rng.below(3) as usize - 1,
                    _ => rng.below(3 * block as u64) as usize,
                };
                parts.push(content(&mut rng, i as u64 + l as u64, l));
            }
            cases.push(parts_case(v, &parts, false));
            n_updates += 1;
        }
    }
    } // !hook_only
    // 3. hook H2: arbitrary chaining value, counter next to a word boundary, tail crossing it
    let per_b = if tiny { 2 } else if thorough { 40 } else { 5 };
    for &v in &variants {
        let (block, wbits, wb) = if v <= 256 { (64usize, 32u32, 4usize) } else { (128, 64, 8) };
        let blockbits = (block * 8) as u128;
        let wmask: u128 = (1u128 << wbits) - 1;
        // boundaries in bits: low word carry; top of the format (stay below)
        let full: Option<u128> = if wbits == 32 { Some(1u128 << 64) } else { None }; // None = 2^128
        for bnd in 0..4 {
            for j in 0..per_b {
                let h = {
                    let mut x = vec![0u8; 8 * wb];
                    match j % 4 {
                        0 | 1 => rng.fill(&mut x),
                        2 => x.iter_mut().for_each(|b| *b = 0xff),
                        _ => {}
                    }
                    x
                };
                let buffered_len = match j % 3 {
                    0 => 0,
                    1 => rng.below(block as u64) as usize,
                    _ => block - 1 - rng.below(20) as usize,
                };
                let back = rng.below(4) as u128; // blocks before the boundary
                // three quarters of the tails cross the boundary (at least one block is compressed after the carry)
                let tail_len = if j % 4 != 3 {
                    ((back as usize + 2) * block).saturating_sub(buffered_len) + rng.below(block as u64 + 2) as usize
                } else {
                    rng.below(3 * block as u64 + 2) as usize
                };
                // counter value in bits (multiple of the block size)
                let t: u128 = match bnd {
                    // just below the low-word carry, random high word (not all ones)
                    0 => {
                        // high word before the carry: 0, 1, odd, even, random (a carry into an odd word included)
                        let hi = match j % 5 { 0 => 0, 1 => 1, 2 => (rng.u128() & wmask & !(1u128 << (wbits - 1))) | 1, 3 => (rng.u128() & wmask & !(1u128 << (wbits - 1))) & !1, _ => (rng.u128() & wmask) >> 1 };
                        ((hi + 1) << wbits).wrapping_sub(blockbits * (back + 1))
                    }
                    // low word carry with high word all ones but one: carry chain into the high word
                    1 => {
                        let hi = (wmask - 1) & wmask;
                        ((hi + 1) << wbits).wrapping_sub(blockbits * (back + 1))
                    }
                    // just below the format limit: everything absorbed must stay below it
                    2 => {
                        let need = ((buffered_len + tail_len) / block + 2) as u128 + back;
                        match full {
                            Some(f) => f - blockbits * need,
                            None => 0u128.wrapping_sub(blockbits * need),
                        }
                    }
                    // arbitrary block count
                    _ => {
                        let k = if wbits == 32 { rng.u64() as u128 >> 10 } else { rng.u128() >> 11 };
                        k * blockbits
                    }
                };
                // stay inside the format: t + 8*(buffered+tail) < 2^(2*wbits)
                let total = t.checked_add(8 * (buffered_len + tail_len) as u128);
                let ok = match (total, full) {
                    (Some(x), Some(f)) => x < f,
                    (Some(_), None) => true,
                    (None, _) => false,
                };
                if !ok {
                    continue;
                }
                let (t0, t1) = (t & wmask, (t >> wbits) & wmask);
                let buffered = content(&mut rng, j as u64 + 1, buffered_len);
                let tail = content(&mut rng, j as u64, tail_len);
                cases.push(hook_case(v, &h, t0, t1, &buffered, &tail));
                n_hook += 1;
            }
        }
        // an object far into a message is reset (three ways) and reused: plain digest cases
        for mode in 0..3u8 {
            let len = [0usize, block - 9, 2 * block + 1][mode as usize];
            let msg = content(&mut rng, mode as u64 + 1, len);
            let d = guarded(|| digest_after_reset(v, &msg, mode));
            let plain = guarded(|| digest(v, &msg));
            if d != plain || d.is_none() {
                direct.push(format!(
                    "{{\"kind\":\"reset of an object far into a message\",\"variant\":{},\"mode\":{},\"len\":{},\"msg\":{},\"digest\":{},\"fresh_digest\":{}}}",
                    v, mode, len, jstr(&hex(&msg)), jstr(&hex(d.as_deref().unwrap_or(&[]))), jstr(&hex(plain.as_deref().unwrap_or(&[])))
                ));
            }
            // the case (Coq literal AND replay JSON) carries the digest of the reset object
            cases.push(digest_case_with(v, &msg, d, ["digest after reset of an object far into a message", "digest after finalize_fixed_reset of an object far into a message", "digest after finalize_reset of an object far into a message"][mode as usize]));
        }
        // the hook itself: get_state/set_state round trip on naturally reached states
        for _ in 0..(if thorough { 40 } else { 6 }) {
            let (l1, l2) = (rng.below(5 * block as u64) as usize, rng.below(2 * block as u64) as usize);
            let pre = content(&mut rng, 0, l1);
            let tail = content(&mut rng, 0, l2);
            n_rt += 1;
            match guarded(|| hook_roundtrip(v, &pre, &tail)) {
                Some(Some(f)) => direct.push(f),
                Some(None) => {}
                None => direct.push(format!("{{\"kind\":\"hook-roundtrip\",\"outcome\":\"panic\",\"variant\":{},\"pre\":{},\"tail\":{}}}", v, jstr(&hex(&pre)), jstr(&hex(&tail)))),
            }
        }
    }

    let (mut n_panics, mut n_badlen) = (0usize, 0usize);
    for c in &cases {
        if let Some(p) = c.problem {
            if p.contains("panicked") { n_panics += 1 } else { n_badlen += 1 }
            if direct.len() < 12 {
                direct.push(format!("{{\"kind\":{},\"case\":{}}}", jstr(p), c.json));
            }
        }
    }
    let mut distinct = std::collections::HashSet::new();
    for c in &cases {
        if c.nontrivial {
            distinct.insert(c.key.clone());
        }
    }
    let coq: Vec<String> = cases.iter().map(|c| c.coq.clone()).collect();
    write_shards(
        &out,
        shards,
        &format!("From Coq Require Import NArith List.\nFrom CC Require Import Run.Runner Run.Blake.\n{}", LP_HEADER),
        "bcase",
        "run_blake",
        &coq,
    );
    let all: Vec<String> = cases.iter().map(|c| c.json.clone()).collect();
    std::fs::write(format!("{}/cases.json", out), format!("[{}]", all.join(",\n"))).unwrap();
    let mut samples: Vec<String> = Vec::new();
    for c in cases.iter().filter(|c| c.json.len() < 700) {
        if samples.len() < 2 && c.json.contains("\"len\":56,") {
            samples.push(c.json.clone());
        }
    }
    if let Some(c) = cases.iter().rev().find(|c| c.json.contains("\"hook\"") && c.json.len() < 1500) {
        samples.push(c.json.clone());
    }
    println!(
        "{{\"evaluations\":{},\"distinct_nontrivial\":{},\"length_sweep\":{},\"sparse_long\":{},\"multi_update\":{},\"max_len\":{},\"digests_of_one_long_update\":{},\"longest_single_update_digest\":{},\"hook_state_cases\":{},\"hook_roundtrips\":{},\"real_stream_cases\":{},\"real_stream_same_object_cases\":{},\"single_update_of_2_29_plus_64_bytes\":{},\"really_streamed_bytes\":{},\"digest_lengths_checked\":{},\"digests_of_wrong_length\":{},\"panics\":{},\"backend_level\":{},\"variants\":[224,256,384,512],\"direct_failures\":[{}],\"samples\":[{}]}}",
        cases.len(),
        distinct.len(),
        n_sweep,
        n_sparse,
        n_updates,
        max_len,
        n_bigone,
        max_one_update,
        n_hook,
        n_rt,
        n_real,
        n_same,
        n_big,
        real_bytes,
        cases.len(),
        n_badlen,
        n_panics,
        level,
        direct.join(","),
        samples.join(",")
    );
}
