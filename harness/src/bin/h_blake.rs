#![allow(dead_code)]
//! C04 (+ BLAKE part of C17): digests of the four BLAKE hashers over a length
//! sweep and, through hook H2, from arbitrary chaining values with counters
//! next to the 2^32 / 2^64 / 2^128 bit boundaries.
#[path = "../util.rs"]
mod util;
use util::*;

use blake_hash::{Blake224, Blake256, Blake384, Blake512, Digest};

fn digest(variant: u32, msg: &[u8]) -> Vec<u8> {
    // half of the cases reuse an object that has already produced a digest in place
    // (FixedOutput::finalize_fixed_reset) or absorbed data and was reset
    macro_rules! go {
        ($t:ident) => {{
            match msg.len() % 4 {
                2 => {
                    let mut h = $t::default();
                    digest::Update::update(&mut h, &msg[..msg.len().min(5)]);
                    let _ = digest::FixedOutput::finalize_fixed_reset(&mut h);
                    digest::Update::update(&mut h, msg);
                    digest::FixedOutput::finalize_fixed(h).to_vec()
                }
                3 => {
                    let mut h = $t::default();
                    digest::Update::update(&mut h, &[0x5au8; 200][..]);
                    // counters far into a message (high word non-zero) before the reset
                    let (cv, t, _, _) = h.verif_get_state();
                    h.verif_set_state(cv, (t.0, 5), &[0x11u8; 3][..]);
                    digest::Reset::reset(&mut h);
                    digest::Update::update(&mut h, msg);
                    digest::FixedOutput::finalize_fixed(h).to_vec()
                }
                1 => {
                    // the digest of a clone taken after the data was absorbed
                    let mut h = $t::default();
                    digest::Update::update(&mut h, msg);
                    let c = h.clone();
                    digest::Update::update(&mut h, b"x");
                    digest::FixedOutput::finalize_fixed(c).to_vec()
                }
                _ => $t::digest(msg).to_vec(),
            }
        }};
    }
    match variant {
        224 => go!(Blake224),
        256 => go!(Blake256),
        384 => go!(Blake384),
        _ => go!(Blake512),
    }
}

/// digest from an entered state; `h` = 8 words big-endian, t = (t0, t1)
fn digest_from(variant: u32, h: &[u8], t0: u128, t1: u128, buffered: &[u8], tail: &[u8]) -> Vec<u8> {
    macro_rules! go {
        ($t:ident, $w:ident, $wb:expr) => {{
            let mut hw = [[0 as $w; 4]; 2];
            for i in 0..8 {
                let mut b = [0u8; $wb];
                b.copy_from_slice(&h[i * $wb..(i + 1) * $wb]);
                hw[i / 4][i % 4] = $w::from_be_bytes(b);
            }
            let mut s = $t::default();
            s.verif_set_state(hw, (t0 as $w, t1 as $w), buffered);
            s.update(tail);
            s.finalize().to_vec()
        }};
    }
    match variant {
        224 => go!(Blake224, u32, 4),
        256 => go!(Blake256, u32, 4),
        384 => go!(Blake384, u64, 8),
        _ => go!(Blake512, u64, 8),
    }
}

/// hash `pre`, read the state back with the hook, enter it into a fresh hasher,
/// continue both with `tail`: digests must agree and the counter must be exact
fn hook_roundtrip(variant: u32, pre: &[u8], tail: &[u8]) -> Option<String> {
    macro_rules! go {
        ($t:ident, $w:ident, $buf:expr) => {{
            let mut a = $t::default();
            a.update(pre);
            let (h, t, content, pos) = a.verif_get_state();
            let mut b = $t::default();
            b.verif_set_state(h, t, &content[..pos]);
            a.update(tail);
            b.update(tail);
            let (da, db) = (a.finalize().to_vec(), b.finalize().to_vec());
            let bits = ((pre.len() / $buf) * $buf * 8) as u128;
            let tv = (t.0 as u128) | ((t.1 as u128) << (8 * std::mem::size_of::<$w>() as u32 % 128));
            let want_pos = pre.len() % $buf;
            if da != db || da != digest(variant, &[pre, tail].concat()) || tv != bits || pos != want_pos
                || content[..pos] != pre[pre.len() - pos..]
            {
                Some(format!(
                    "{{\"kind\":\"hook-roundtrip\",\"variant\":{},\"pre_len\":{},\"tail_len\":{},\"t\":\"{:x}\",\"pos\":{}}}",
                    variant, pre.len(), tail.len(), tv, pos
                ))
            } else {
                None
            }
        }};
    }
    match variant {
        224 => go!(Blake224, u32, 64),
        256 => go!(Blake256, u32, 64),
        384 => go!(Blake384, u64, 128),
        _ => go!(Blake512, u64, 128),
    }
}

/// really stream `n` patterned bytes into a fresh hasher (update calls of varying sizes), read the
/// state back through the hook: (chaining value as 8 big-endian words, t0, t1, buffered bytes)
fn real_stream(variant: u32, n: u64) -> (Vec<u8>, u128, u128, Vec<u8>) {
    macro_rules! go {
        ($t:ident) => {{
            let mut s = $t::default();
            let chunk: Vec<u8> = (0..(1usize << 20)).map(|i| (i as u32).wrapping_mul(2654435761).to_le_bytes()[3] ^ (i as u8)).collect();
            let sizes = [1usize << 20, 65537, 4096, 63, 1, 64, 129, 1 << 20];
            let (mut done, mut k) = (0u64, 0usize);
            while done < n {
                let m = (sizes[k % sizes.len()] as u64).min(n - done) as usize;
                s.update(&chunk[..m]);
                done += m as u64;
                k += 1;
            }
            let (h, t, content, pos) = s.verif_get_state();
            let mut hb = Vec::new();
            for i in 0..8 {
                hb.extend_from_slice(&h[i / 4][i % 4].to_be_bytes());
            }
            (hb, t.0 as u128, t.1 as u128, content[..pos].to_vec())
        }};
    }
    match variant {
        224 => go!(Blake224),
        256 => go!(Blake256),
        384 => go!(Blake384),
        _ => go!(Blake512),
    }
}

/// digest of `msg` from an object that was `blocks` blocks into a message (counter words both non-zero),
/// with bytes buffered, and was then reset / finalised in place: must be the plain digest
fn digest_after_reset(variant: u32, msg: &[u8], mode: u8) -> Vec<u8> {
    macro_rules! go {
        ($t:ident, $w:ident) => {{
            let mut h = $t::default();
            let (cv, _, _, _) = h.verif_get_state();
            let hi: $w = 3;
            let lo: $w = (0 as $w).wrapping_sub(4096);
            h.verif_set_state(cv, (lo, hi), &[0x33u8; 5][..]);
            match mode % 3 {
                0 => digest::Reset::reset(&mut h),
                1 => {
                    let _ = digest::FixedOutput::finalize_fixed_reset(&mut h);
                }
                _ => {
                    let _ = Digest::finalize_reset(&mut h);
                }
            }
            digest::Update::update(&mut h, msg);
            digest::FixedOutput::finalize_fixed(h).to_vec()
        }};
    }
    match variant {
        224 => go!(Blake224, u32),
        256 => go!(Blake256, u32),
        384 => go!(Blake384, u64),
        _ => go!(Blake512, u64),
    }
}

struct Case {
    coq: String,
    json: String,
    key: Vec<u8>,
    nontrivial: bool,
}

fn content(rng: &mut Rng, style: u64, n: usize) -> Vec<u8> {
    match style % 5 {
        0 => {
            let mut v = vec![0u8; n];
            rng.fill(&mut v);
            v
        }
        1 => vec![0u8; n],
        2 => vec![0xffu8; n],
        3 => (0..n).map(|i| i as u8).collect(),
        _ => rng.bytes(n),
    }
}

fn digest_case(variant: u32, msg: &[u8]) -> Case {
    let d = digest(variant, msg);
    let mut key = vec![0u8];
    key.extend_from_slice(&variant.to_le_bytes());
    key.extend_from_slice(msg);
    Case {
        coq: format!("BD {} {} {} {}", variant, msg.len(), nlit(msg), nlit(&d)),
        json: format!(
            "{{\"kind\":\"digest\",\"variant\":{},\"len\":{},\"msg\":{},\"digest\":{}}}",
            variant,
            msg.len(),
            jstr(&hex(msg)),
            jstr(&hex(&d))
        ),
        key,
        nontrivial: !msg.is_empty(),
    }
}

/// message given in parts: oneshot = hash the concatenation with one `update` (parts only
/// keep the Coq literals short); otherwise one `update` call per part
fn parts_case(variant: u32, parts: &[Vec<u8>], oneshot: bool) -> Case {
    let whole: Vec<u8> = parts.concat();
    let d = if oneshot {
        digest(variant, &whole)
    } else {
        macro_rules! go {
            ($t:ident) => {{
                let mut s = $t::default();
                for p in parts {
                    s.update(p);
                }
                s.finalize().to_vec()
            }};
        }
        match variant {
            224 => go!(Blake224),
            256 => go!(Blake256),
            384 => go!(Blake384),
            _ => go!(Blake512),
        }
    };
    let mut key = vec![if oneshot { 0u8 } else { 2u8 }];
    key.extend_from_slice(&variant.to_le_bytes());
    if !oneshot {
        for p in parts {
            key.extend_from_slice(&(p.len() as u32).to_le_bytes());
        }
    }
    key.extend_from_slice(&whole);
    let ps: Vec<String> = parts.iter().map(|p| format!("({}, {})", p.len(), nlit(p))).collect();
    let js: Vec<String> = parts.iter().map(|p| jstr(&hex(p))).collect();
    Case {
        coq: format!("BU {} {} [{}] {}", variant, oneshot, ps.join("; "), nlit(&d)),
        json: format!(
            "{{\"kind\":\"{}\",\"variant\":{},\"len\":{},\"parts\":[{}],\"digest\":{}}}",
            if oneshot { "digest-long" } else { "updates" },
            variant,
            whole.len(),
            js.join(","),
            jstr(&hex(&d))
        ),
        key,
        nontrivial: !whole.is_empty(),
    }
}

fn hook_case(variant: u32, h: &[u8], t0: u128, t1: u128, buffered: &[u8], tail: &[u8]) -> Case {
    let d = digest_from(variant, h, t0, t1, buffered, tail);
    let mut key = vec![1u8];
    key.extend_from_slice(&variant.to_le_bytes());
    key.extend_from_slice(h);
    key.extend_from_slice(&t0.to_le_bytes());
    key.extend_from_slice(&t1.to_le_bytes());
    key.extend_from_slice(&(buffered.len() as u32).to_le_bytes());
    key.extend_from_slice(buffered);
    key.extend_from_slice(tail);
    Case {
        coq: format!(
            "BH {} {} {} {} {} {} {} {} {}",
            variant,
            nlit(h),
            nlit_u128(t0),
            nlit_u128(t1),
            buffered.len(),
            nlit(buffered),
            tail.len(),
            nlit(tail),
            nlit(&d)
        ),
        json: format!(
            "{{\"kind\":\"hook\",\"variant\":{},\"h\":{},\"t0\":\"{:x}\",\"t1\":\"{:x}\",\"buffered\":{},\"tail\":{},\"digest\":{}}}",
            variant,
            jstr(&hex(h)),
            t0,
            t1,
            jstr(&hex(buffered)),
            jstr(&hex(tail)),
            jstr(&hex(&d))
        ),
        key,
        nontrivial: true,
    }
}

fn main() {
    let argv: Vec<String> = std::env::args().collect();
    if argv.len() < 2 || argv[1] != "blake" {
        eprintln!("usage: h_blake blake --seed N --shards K --out DIR [--tier quick|thorough --streams all|hook --real N]");
        std::process::exit(2);
    }
    let a = Args::parse(&argv[2..]);
    let seed = a.u64("seed", 1);
    let shards = a.u64("shards", 16) as usize;
    let out = a.str("out", "/tmp/blake_cases");
    let thorough = a.str("tier", "quick") == "thorough";
    let hook_only = a.str("streams", "all") == "hook";
    let real = a.u64("real", 0);
    // back end: 0 = whatever the CPU detection picks, 1..5 = SSE2, SSSE3, SSE4.1, AVX, AVX2 (hook H1)
    let level = a.u64("level", 0) as u8;
    #[cfg(all(cryptocorrosion_verif, not(feature = "no_simd")))]
    ppv_lite86::x86_64::verif::set_level(level);
    #[cfg(feature = "no_simd")]
    let _ = level;
    // reduced: every 4th length of the sweep (plus the padding boundaries), fewer hook states
    // tiny: every 8th length plus the padding boundaries, no multi-update / long streams, one hook state per boundary
    let tiny = a.str("streams", "all") == "tiny";
    let reduced = a.str("streams", "all") == "reduced" || tiny;
    let mut rng = Rng::new(seed ^ 0xb1a4e);
    let mut cases: Vec<Case> = Vec::new();
    let mut direct: Vec<String> = Vec::new();
    let variants = [224u32, 256, 384, 512];
    let (mut n_sweep, mut n_sparse, mut n_hook, mut n_rt, mut n_updates) = (0usize, 0usize, 0usize, 0usize, 0usize);
    let mut max_len = 0usize;
    let (mut n_real, mut real_bytes) = (0usize, 0u64);

    // 0. C17: really stream up to just below 2^32 bits (512 MiB) into Blake224/256, read the state
    //    back (the counter must be exactly the bits compressed so far), then cross the boundary
    for k in 0..real {
        let v = if k % 2 == 0 { 256u32 } else { 224 };
        let below = [64u64, 1, 129, 200, 65, 128][k as usize % 6];
        let n = (1u64 << 29) - below;
        let (h, t0, t1, buffered) = real_stream(v, n);
        let bits = (n / 64) * 512;
        if t0 != (bits & 0xffff_ffff) as u128 || t1 != (bits >> 32) as u128 || buffered.len() as u64 != n % 64 {
            direct.push(format!(
                "{{\"kind\":\"counter after really streaming\",\"variant\":{},\"streamed\":{},\"t0\":\"{:x}\",\"t1\":\"{:x}\",\"pos\":{}}}",
                v, n, t0, t1, buffered.len()
            ));
        }
        let tail_len = below as usize + [1usize, 64, 0, 56, 120][k as usize % 5];
        let tail = content(&mut rng, k, tail_len);
        cases.push(hook_case(v, &h, t0, t1, &buffered, &tail));
        n_real += 1;
        real_bytes += n;
    }

    if !hook_only {
    // 1. every length 0 ..= 3*block+1 (every residue, 55/56 and 111/112, 0, exact multiples)
    for &v in &variants {
        let block = if v <= 256 { 64 } else { 128 };
        for len in 0..=(3 * block + 1) {
            let r = len % block;
            let m = if tiny { 8 } else { 4 };
            if reduced && !(len % m == (v as usize / 32) % m || r <= 1 || r + 1 == block || (r + 10 >= block && r + 7 <= block) || (r + 18 >= block && r + 15 <= block)) {
                continue;
            }
            let msg = content(&mut rng, len as u64 + v as u64, len);
            cases.push(digest_case(v, &msg));
            n_sweep += 1;
        }
    }
    // 2. sparse longer lengths around block multiples
    let top = if thorough { 64 * 1024 } else { 4 * 1024 };
    let per = if tiny { 1 } else if thorough { 60 } else { 6 };
    for &v in &variants {
        let block = if v <= 256 { 64usize } else { 128 };
        for i in 0..per {
            let base = rng.range(4, (top / block) as u64) as usize * block;
            let delta = *rng.pick(&[0i64, -1, 1, -9, -8, -10, -17, -16, -18, 5, 55, 56, 111, 112, 37]);
            let len = (base as i64 + delta).max(0) as usize;
            let msg = content(&mut rng, i as u64, len);
            max_len = max_len.max(len);
            let parts: Vec<Vec<u8>> = msg.chunks(1024).map(|c| c.to_vec()).collect();
            cases.push(parts_case(v, &parts, true));
            n_sparse += 1;
        }
    }
    // 2b. several update calls: every split point of messages around the block boundaries
    //     (quick: a directed subset), then random 2-4 part splits incl. empty parts
    for &v in &variants {
        let block = if v <= 256 { 64usize } else { 128 };
        let mut splits: Vec<(usize, usize)> = Vec::new(); // (total length, split point)
        for &total in &[block - 9, block - 8, block - 1, block, block + 1, 2 * block - 9, 2 * block, 2 * block + 3] {
            for sp in 0..=total {
                let near = sp <= 1 || sp + 1 >= total || (sp % block) <= 1 || (sp % block) + 1 >= block
                    || (total - sp) % block == 0 || sp + 9 == block || sp + 8 == block || sp + 17 == block || sp + 16 == block;
                if thorough || (near && !tiny) || rng.chance(1, if tiny { 40 } else { 12 }) {
                    splits.push((total, sp));
                }
            }
        }
        for (total, sp) in splits {
            let msg = content(&mut rng, (total + sp) as u64, total);
            cases.push(parts_case(v, &[msg[..sp].to_vec(), msg[sp..].to_vec()], false));
            n_updates += 1;
        }
        for i in 0..(if tiny { 2 } else if thorough { 200 } else { 12 }) {
            let nparts = rng.range(2, 4) as usize;
            let mut parts: Vec<Vec<u8>> = Vec::new();
            for _ in 0..nparts {
                let l = match rng.below(6) {
                    0 => 0,
                    1 => block,
                    2 => rng.below(block as u64) as usize,
                    3 => block - 1 - rng.below(18) as usize,
                    4 => 2 * block + rng.below(3) as usize - 1,
                    _ => rng.below(3 * block as u64) as usize,
                };
                parts.push(content(&mut rng, i as u64 + l as u64, l));
            }
            cases.push(parts_case(v, &parts, false));
            n_updates += 1;
        }
    }
    } // !hook_only
    // 3. hook H2: arbitrary chaining value, counter next to a word boundary, tail crossing it
    let per_b = if tiny { 2 } else if thorough { 40 } else { 5 };
    for &v in &variants {
        let (block, wbits, wb) = if v <= 256 { (64usize, 32u32, 4usize) } else { (128, 64, 8) };
        let blockbits = (block * 8) as u128;
        let wmask: u128 = (1u128 << wbits) - 1;
        // boundaries in bits: low word carry; top of the format (stay below)
        let full: Option<u128> = if wbits == 32 { Some(1u128 << 64) } else { None }; // None = 2^128
        for bnd in 0..4 {
            for j in 0..per_b {
                let h = {
                    let mut x = vec![0u8; 8 * wb];
                    match j % 4 {
                        0 | 1 => rng.fill(&mut x),
                        2 => x.iter_mut().for_each(|b| *b = 0xff),
                        _ => {}
                    }
                    x
                };
                let buffered_len = match j % 3 {
                    0 => 0,
                    1 => rng.below(block as u64) as usize,
                    _ => block - 1 - rng.below(20) as usize,
                };
                let back = rng.below(4) as u128; // blocks before the boundary
                // three quarters of the tails cross the boundary (at least one block is compressed after the carry)
                let tail_len = if j % 4 != 3 {
                    ((back as usize + 2) * block).saturating_sub(buffered_len) + rng.below(block as u64 + 2) as usize
                } else {
                    rng.below(3 * block as u64 + 2) as usize
                };
                // counter value in bits (multiple of the block size)
                let t: u128 = match bnd {
                    // just below the low-word carry, random high word (not all ones)
                    0 => {
                        // high word before the carry: 0, 1, odd, even, random (a carry into an odd word included)
                        let hi = match j % 5 { 0 => 0, 1 => 1, 2 => (rng.u128() & wmask & !(1u128 << (wbits - 1))) | 1, 3 => (rng.u128() & wmask & !(1u128 << (wbits - 1))) & !1, _ => (rng.u128() & wmask) >> 1 };
                        ((hi + 1) << wbits).wrapping_sub(blockbits * (back + 1))
                    }
                    // low word carry with high word all ones but one: carry chain into the high word
                    1 => {
                        let hi = (wmask - 1) & wmask;
                        ((hi + 1) << wbits).wrapping_sub(blockbits * (back + 1))
                    }
                    // just below the format limit: everything absorbed must stay below it
                    2 => {
                        let need = ((buffered_len + tail_len) / block + 2) as u128 + back;
                        match full {
                            Some(f) => f - blockbits * need,
                            None => 0u128.wrapping_sub(blockbits * need),
                        }
                    }
                    // arbitrary block count
                    _ => {
                        let k = if wbits == 32 { rng.u64() as u128 >> 10 } else { rng.u128() >> 11 };
                        k * blockbits
                    }
                };
                // stay inside the format: t + 8*(buffered+tail) < 2^(2*wbits)
                let total = t.checked_add(8 * (buffered_len + tail_len) as u128);
                let ok = match (total, full) {
                    (Some(x), Some(f)) => x < f,
                    (Some(_), None) => true,
                    (None, _) => false,
                };
                if !ok {
                    continue;
                }
                let (t0, t1) = (t & wmask, (t >> wbits) & wmask);
                let buffered = content(&mut rng, j as u64 + 1, buffered_len);
                let tail = content(&mut rng, j as u64, tail_len);
                cases.push(hook_case(v, &h, t0, t1, &buffered, &tail));
                n_hook += 1;
            }
        }
        // an object far into a message is reset (three ways) and reused: plain digest cases
        for mode in 0..3u8 {
            let len = [0usize, block - 9, 2 * block + 1][mode as usize];
            let msg = content(&mut rng, mode as u64 + 1, len);
            let d = digest_after_reset(v, &msg, mode);
            let mut c = digest_case(v, &msg);
            let plain = digest(v, &msg);
            if d != plain {
                direct.push(format!(
                    "{{\"kind\":\"reset of an object far into a message\",\"variant\":{},\"mode\":{},\"len\":{},\"digest\":{},\"fresh_digest\":{}}}",
                    v, mode, len, jstr(&hex(&d)), jstr(&hex(&plain))
                ));
            }
            c.coq = format!("BD {} {} {} {}", v, msg.len(), nlit(&msg), nlit(&d));
            cases.push(c);
        }
        // the hook itself: get_state/set_state round trip on naturally reached states
        for _ in 0..(if thorough { 40 } else { 6 }) {
            let (l1, l2) = (rng.below(5 * block as u64) as usize, rng.below(2 * block as u64) as usize);
            let pre = content(&mut rng, 0, l1);
            let tail = content(&mut rng, 0, l2);
            n_rt += 1;
            if let Some(f) = hook_roundtrip(v, &pre, &tail) {
                direct.push(f);
            }
        }
    }

    let mut distinct = std::collections::HashSet::new();
    for c in &cases {
        if c.nontrivial {
            distinct.insert(c.key.clone());
        }
    }
    let coq: Vec<String> = cases.iter().map(|c| c.coq.clone()).collect();
    write_shards(
        &out,
        shards,
        "From Coq Require Import NArith List.\nFrom CC Require Import Run.Runner Run.Blake.",
        "bcase",
        "run_blake",
        &coq,
    );
    let all: Vec<String> = cases.iter().map(|c| c.json.clone()).collect();
    std::fs::write(format!("{}/cases.json", out), format!("[{}]", all.join(",\n"))).unwrap();
    let mut samples: Vec<String> = Vec::new();
    for c in cases.iter().filter(|c| c.json.len() < 700) {
        if samples.len() < 2 && c.json.contains("\"len\":56,") {
            samples.push(c.json.clone());
        }
    }
    if let Some(c) = cases.iter().rev().find(|c| c.json.contains("\"hook\"") && c.json.len() < 1500) {
        samples.push(c.json.clone());
    }
    println!(
        "{{\"evaluations\":{},\"distinct_nontrivial\":{},\"length_sweep\":{},\"sparse_long\":{},\"multi_update\":{},\"max_len\":{},\"hook_state_cases\":{},\"hook_roundtrips\":{},\"real_stream_cases\":{},\"really_streamed_bytes\":{},\"backend_level\":{},\"variants\":[224,256,384,512],\"direct_failures\":[{}],\"samples\":[{}]}}",
        cases.len(),
        distinct.len(),
        n_sweep,
        n_sparse,
        n_updates,
        max_len,
        n_hook,
        n_rt,
        n_real,
        real_bytes,
        level,
        direct.join(","),
        samples.join(",")
    );
}
