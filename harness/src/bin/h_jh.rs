#![allow(dead_code)]
//! JH (C06, JH part of C17).
//!   digest : Jh224/256/384/512 over a length sweep (one or two update calls), optionally from a
//!            state entered through the verification hook (arbitrary chaining value, datalen
//!            next to 2^29 bytes = 2^32 bits and the other boundaries of the length field)
//!   f8     : the compression function directly: Compressor (run-time dispatch of the host) and
//!            `f8_impl::<M>` instantiated with SSE2 / SSSE3 / SSE4.1 / AVX2
//!   repro  : prints the behaviour of the length field at and beyond 2^61 bytes
#[path = "../util.rs"]
mod util;
use util::*;

use digest::Digest;
use jh_x86_64::compressor::{f8_impl, Compressor};
use jh_x86_64::simd::vec128_storage;
use jh_x86_64::simd::x86_64::{AVX2, SSE2, SSE41, SSSE3};
use jh_x86_64::simd::Machine;
use jh_x86_64::{Jh224, Jh256, Jh384, Jh512};
use std::panic::{catch_unwind, AssertUnwindSafe};

const SIZES: [usize; 4] = [224, 256, 384, 512];

/// like `nlit`, but a long string becomes an expression over literals of at most 1024 bytes
/// (coqc overflows its stack on a single literal of more than about 3000 bytes)
fn nlit_long(b: &[u8]) -> String {
    if b.len() <= 1024 {
        return nlit(b);
    }
    let chunks: Vec<&[u8]> = b.chunks(1024).collect();
    let mut acc = nlit(chunks[chunks.len() - 1]);
    for c in chunks[..chunks.len() - 1].iter().rev() {
        acc = format!("(N.lor {} (N.shiftl {} 8192))", nlit(c), acc);
    }
    acc
}

/// Definitions prepended to the generated digest case files (nothing in /verif/coq changes): `LP len seed` is the
/// number whose little-endian encoding is the `len` bytes "high byte of x_i", x_0 = seed, x_{i+1} = 5 x_i + 12345
/// mod 2^16. coqc needs ~80 us per byte of a literal; this term costs a few ms.
const LP_HEADER: &str = "From CC Require Import Lib.Bytes.\nFixpoint lp_bytes (n : nat) (x : N) : list N := match n with O => nil | S k => cons (N.shiftr x 8%N) (lp_bytes k (N.land (x * 5 + 12345)%N 65535%N)) end.\nDefinition LP (n seed : N) : N := le_join (lp_bytes (N.to_nat n) (N.land seed 65535%N)).";
fn lp_fill(n: usize, seed: u16) -> Vec<u8> {
    let mut x = seed as u32;
    (0..n)
        .map(|_| {
            let b = (x >> 8) as u8;
            x = (x * 5 + 12345) & 0xffff;
            b
        })
        .collect()
}
/// the seed if `msg` (4 KiB or more) is such a sequence
fn lp_seed(msg: &[u8]) -> Option<u16> {
    if msg.len() < 4096 {
        return None;
    }
    (0..256u16).map(|lo| (msg[0] as u16) << 8 | lo).find(|s| lp_fill(16, *s)[..] == msg[..16] && lp_fill(msg.len(), *s)[..] == msg[..])
}

// ---------------------------------------------------------------------------------------------
// digests
// ---------------------------------------------------------------------------------------------

#[derive(Clone, PartialEq, Eq, Hash)]
struct Hook {
    cv: Vec<u8>,
    datalen: u64,
    buffered: Vec<u8>,
}

#[derive(Clone)]
struct Input {
    size: usize,
    hook: Option<Hook>,
    msg: Vec<u8>,
    split: usize,
    stream: &'static str,
    /// > 0: this many patterned bytes are really streamed into the hasher first; the state read
    /// back afterwards (verif_get_state) becomes the `hook` of the recorded case
    prestream: u64,
    /// the prestream is given in ONE update call (otherwise in calls of varying sizes)
    one_call: bool,
    /// > prestream: a clone of the streamed object is continued with pattern bytes up to this many bytes in
    /// total and its state read back (reference for a single-call stream of that length)
    upto: u64,
}

struct Outcome {
    /// state read back after the prestream
    pre: Option<Hook>,
    /// state of the clone continued up to `upto` bytes
    at_upto: Option<Hook>,
    panicked: bool,
    adatalen: u64,
    apos: usize,
    acv: Vec<u8>,
    digest: Vec<u8>,
}

trait Hk: Digest + Default + Clone + digest::FixedOutput + digest::Reset + digest::Update {
    fn set(&mut self, cv: &[u8], datalen: usize, buffered: &[u8]);
    fn get(&self) -> (Vec<u8>, usize, Vec<u8>, usize);
}
macro_rules! impl_hk {
    ($t:ident) => {
        impl Hk for $t {
            fn set(&mut self, cv: &[u8], datalen: usize, buffered: &[u8]) {
                let mut a = [0u8; 128];
                a.copy_from_slice(cv);
                self.verif_set_state(a, datalen, buffered)
            }
            fn get(&self) -> (Vec<u8>, usize, Vec<u8>, usize) {
                let (cv, dl, b, p) = self.verif_get_state();
                (cv.to_vec(), dl, b.to_vec(), p)
            }
        }
    };
}
impl_hk!(Jh224);
impl_hk!(Jh256);
impl_hk!(Jh384);
impl_hk!(Jh512);

fn run_typed<H: Hk>(inp: &Input) -> Outcome {
    let r = catch_unwind(AssertUnwindSafe(|| {
        let mut h = H::default();
        // half of the plain cases reuse an object that has already produced a digest in place
        // (FixedOutput::finalize_fixed_reset) or absorbed data and was reset
        if inp.hook.is_none() && inp.prestream == 0 {
            match (inp.msg.len() + inp.split) % 4 {
                2 => {
                    digest::Update::update(&mut h, &inp.msg[..if (inp.msg.len() / 4) % 2 == 0 { 0 } else { inp.msg.len().min(5) }]);
                    let _ = digest::FixedOutput::finalize_fixed_reset(&mut h);
                }
                3 => {
                    digest::Update::update(&mut h, &[0x5au8; 100][..]);
                    // byte counter far into a message before the reset
                    let (cv, _, _, _) = h.get();
                    h.set(&cv, (1usize << 40) + 3, &[0x11u8; 3][..]);
                    digest::Reset::reset(&mut h);
                }
                _ => {}
            }
        }
        if let Some(hk) = &inp.hook {
            h.set(&hk.cv, hk.datalen as usize, &hk.buffered);
        }
        let mut pre = None;
        let mut at_upto = None;
        if inp.prestream > 0 {
            // byte i of the stream is (i mod 251); update calls of varying sizes
            let pat: Vec<u8> = (0..(1usize << 20) + 251).map(|i| (i % 251) as u8).collect();
            let sizes = [1usize << 20, 65537, 4096, 63, 1 << 20, 1, 64, 1000003];
            let mut done: u64 = 0;
            let mut k = 0usize;
            if inp.one_call {
                // the same bytes (byte i = i mod 251) in a single update call
                let unit = 251 * 4096;
                let mut big: Vec<u8> = Vec::with_capacity(inp.prestream as usize + unit);
                while (big.len() as u64) < inp.prestream {
                    big.extend_from_slice(&pat[..unit]);
                }
                big.truncate(inp.prestream as usize);
                Digest::update(&mut h, &big[..]);
                done = inp.prestream;
            }
            while done < inp.prestream {
                let n = (sizes[k % sizes.len()] as u64).min(inp.prestream - done).min(1 << 20) as usize;
                let off = (done % 251) as usize;
                Digest::update(&mut h, &pat[off..off + n]);
                done += n as u64;
                k += 1;
            }
            let (cv, dl, buf, pos) = h.get();
            pre = Some(Hook { cv, datalen: dl as u64, buffered: buf[..pos].to_vec() });
            if inp.upto > inp.prestream {
                let mut c = h.clone();
                let mut at = inp.prestream;
                while at < inp.upto {
                    let n = (inp.upto - at).min(1 << 20) as usize;
                    let off = (at % 251) as usize;
                    Digest::update(&mut c, &pat[off..off + n]);
                    at += n as u64;
                }
                let (cv, dl, buf, pos) = c.get();
                at_upto = Some(Hook { cv, datalen: dl as u64, buffered: buf[..pos].to_vec() });
            }
        }
        if inp.split == inp.msg.len() {
            Digest::update(&mut h, &inp.msg[..]);
        } else {
            Digest::update(&mut h, &inp.msg[..inp.split]);
            Digest::update(&mut h, &inp.msg[inp.split..]);
        }
        let (cv, dl, _, pos) = h.get();
        // a third of the cases: the digest of a clone taken after the data was absorbed
        let d = if (inp.msg.len() + inp.split) % 3 == 1 {
            let c = h.clone();
            Digest::update(&mut h, b"x");
            c.finalize()
        } else {
            h.finalize()
        };
        (pre, at_upto, cv, dl, pos, d.to_vec())
    }));
    match r {
        Ok((pre, at_upto, cv, dl, pos, d)) => Outcome { pre, at_upto, panicked: false, adatalen: dl as u64, apos: pos, acv: cv, digest: d },
        Err(_) => Outcome { pre: None, at_upto: None, panicked: true, adatalen: 0, apos: 0, acv: Vec::new(), digest: Vec::new() },
    }
}

fn run_input(inp: &Input) -> Outcome {
    match inp.size {
        224 => run_typed::<Jh224>(inp),
        256 => run_typed::<Jh256>(inp),
        384 => run_typed::<Jh384>(inp),
        _ => run_typed::<Jh512>(inp),
    }
}

/// message contents: random / zero / ones / counting / the structured kinds of Rng::bytes
fn content(rng: &mut Rng, kind: usize, n: usize) -> Vec<u8> {
    match kind % 5 {
        0 => {
            let mut v = vec![0u8; n];
            rng.fill(&mut v);
            v
        }
        1 => vec![0u8; n],
        2 => vec![0xffu8; n],
        3 => (0..n).map(|i| i as u8).collect(),
        _ => rng.bytes(n),
    }
}

/// split points aimed at the buffer boundaries; `len` itself means a single update call
fn split_for(rng: &mut Rng, len: usize) -> usize {
    let c = [len, len, 0, 64, 63, 65, 128, len.saturating_sub(1), len / 2, 1];
    let s = if rng.chance(1, 3) { rng.below(len as u64 + 1) as usize } else { *rng.pick(&c) };
    s.min(len)
}

/// size of the single update call: 2^29 + 64 bytes (bit length crosses 2^32 inside one call), or with `--big-update 2`
/// 2^32 + 100 bytes (a slice length that does not fit in 32 bits; thorough tier: 4 GiB buffer, ~40 s)
fn big_n(big_update: u64) -> u64 {
    if big_update >= 2 { (1u64 << 32) + 100 } else { (1u64 << 29) + 64 }
}

fn gen_inputs(rng: &mut Rng, thorough: bool, streams: &str, real: u64, big_update: u64, seed: u64) -> Vec<Input> {
    #[allow(non_snake_case)]
    let BIG_N = big_n(big_update);
    let big_update = big_update != 0;
    let mut v = Vec::new();
    // R: really stream up to just below 2^29 bytes (2^32 bits), then cross the boundary (the streamed object
    //    itself is continued); which variant comes first rotates with the seed
    for k in 0..real {
        let below = [64u64, 1, 129, 200][(k % 4) as usize];
        let prestream = (1u64 << 29) - below;
        let tail = [65usize, 130, 129 + 64, 300][(k % 4) as usize];
        let size = SIZES[((k + 1 + seed) % 4) as usize];
        let msg = content(rng, k as usize, tail);
        let split = split_for(rng, tail);
        let upto = if big_update && k == 0 { BIG_N } else { 0 };
        v.push(Input { size, hook: None, msg, split, stream: "real_stream", prestream, one_call: false, upto });
    }
    // R': ONE update call of 2^29 + 64 bytes (datalen * 8 crosses 2^32 inside a single call), then a tail; the
    //     state read back after the call must be the state the chunked stream of the same bytes reached
    if big_update {
        let size = SIZES[((1 + seed) % 4) as usize];
        let msg = content(rng, 2, 77);
        v.push(Input { size, hook: None, msg, split: 77, stream: if BIG_N > (1u64 << 32) { "single_update_2^32+100" } else { "single_update_2^29+64" }, prestream: BIG_N, one_call: true, upto: 0 });
    }
    if streams == "reduced" {
        // A': the padding boundaries for all four variants, every 8th other length (variant rotating)
        for len in 0..=(3 * 64 + 1) {
            for (si, &size) in SIZES.iter().enumerate() {
                let boundary = [0usize, 1, 55, 56, 63, 64, 65, 119, 120, 128].contains(&len);
                if !boundary && !((len + seed as usize) % 8 == 0 && (len / 8 + seed as usize / 8) % 4 == si) {
                    continue;
                }
                let msg = content(rng, len + si, len);
                let split = if (len + si) % 2 == 0 { len } else { split_for(rng, len) };
                v.push(Input { size, hook: None, msg, split, stream: "residues", prestream: 0, one_call: false, upto: 0 });
            }
        }
        // B': four longer messages (one per variant)
        for (k, &len) in [256usize, 4 * 64 + 55, 1000, 2048 + 17].iter().enumerate() {
            let size = SIZES[(k + seed as usize) % 4];
            let msg = content(rng, k, len);
            let split = split_for(rng, len);
            v.push(Input { size, hook: None, msg, split, stream: "long", prestream: 0, one_call: false, upto: 0 });
        }
    }
    if streams == "all" {
        // A: every length 0..3*64+1, all four variants
        //    (quick tier: the variant rotates with the length, except at the padding boundaries)
        let reps = if thorough { 3 } else { 1 };
        for len in 0..=(3 * 64 + 1) {
            for (si, &size) in SIZES.iter().enumerate() {
                let boundary = [0usize, 1, 55, 56, 63, 64, 65, 128].contains(&len);
                if !thorough && !boundary && (len * 5 + len / 64) % 4 != si {
                    continue;
                }
                for r in 0..reps {
                    let msg = content(rng, len + si + r, len);
                    let split = if r == 0 && (len + si) % 2 == 0 { len } else { split_for(rng, len) };
                    v.push(Input { size, hook: None, msg, split, stream: "residues", prestream: 0, one_call: false, upto: 0 });
                }
            }
        }
        // B: sparse longer messages (block multiples and their neighbours, random lengths)
        let nlong = if thorough { 400 } else { 10 };
        let base = [255usize, 256, 257, 4 * 64 + 55, 4 * 64 + 56, 511, 512, 513, 1000, 1024, 2048 + 17, 4288];
        for k in 0..nlong {
            let size = SIZES[k % 4];
            let len = if k < 48 && (thorough || k < 8) {
                base[(k / 4 + k) % base.len()]
            } else if k == 9 {
                4288
            } else if k % 50 == 49 {
                8192 + rng.below(8193) as usize
            } else {
                let blocks = 4 + rng.below(if thorough { 40 } else { 6 }) as usize;
                64 * blocks + [0usize, 0, 1, 55, 56, 63][k % 6] * (k % 2) + (rng.below(2) * rng.below(64)) as usize
            };
            let msg = content(rng, k, len);
            let split = split_for(rng, len);
            v.push(Input { size, hook: None, msg, split, stream: "long", prestream: 0, one_call: false, upto: 0 });
        }
    }
    // B2: ONE update call with a long message (split = len: a single `update`): 8 KiB and 16 KiB + 1 per variant
    //     (the other plain streams stop at ~4.3 KiB in quick; ~15-40 ms per 64-byte block in coqc, so no 64 KiB here
    //     and only in the full stream, which C06 runs once; the reduced stream runs seven times). Contents: LP.
    if streams == "all" {
        for &size in SIZES.iter() {
            for &len in &[8192usize, 16385] {
                let msg = lp_fill(len, rng.below(1 << 16) as u16);
                v.push(Input { size, hook: None, msg, split: len, stream: "one_long_update", prestream: 0, one_call: false, upto: 0 });
            }
        }
    }
    // C: states entered through the hook. datalen D, buffered bytes nbuf, tail.
    //    consistent states have D = 64 k + nbuf; boundaries: 2^29 bytes (= 2^32 bits),
    //    2^32 bytes, 2^56, 2^61 (datalen * 8 leaves 64 bits: debug panics, release wraps),
    //    2^64 (datalen += len overflows)
    let p = |e: u32| 1u64 << e;
    // (boundary, may negative offsets wrap below it): the last entry stands for 2^64
    let bounds: Vec<(u64, bool)> = vec![
        (0, false), (64, true), (p(13), true), (p(21), true), (p(29), true), (p(32), true), (p(56), true),
        (p(61), true), (p(61) + p(29), true), (p(63), true), (0, true),
    ];
    let offs: [i64; 7] = [-129, -65, -64, -63, -1, 0, 64];
    let mut k = 0usize;
    let mut nsel = 0usize;
    // quick tier: a quarter of the (boundary, offset, tail) product (a twelfth for streams = reduced); which
    // quarter rotates with the (boundary, offset) pair AND the seed, so that every tail class (finalise directly
    // from the entered state, exact fill of the buffer, ...) is met at every boundary at some seed
    let m = if thorough { 1 } else if streams == "reduced" { 12 } else { 4 };
    let mut g = 0usize;
    for &(b, neg) in bounds.iter() {
        for &o in offs.iter() {
            if o < 0 && !neg {
                continue;
            }
            if o >= 0 && neg && b == 0 {
                continue; // 2^64 + o does not fit
            }
            let d = if o < 0 { b.wrapping_sub((-o) as u64) } else { b.wrapping_add(o as u64) };
            let nbuf = (d % 64) as usize;
            let tails = [0usize, 1, 64 - nbuf, 65, 130, 64 - nbuf + 64];
            g += 1;
            for (ti, &tail) in tails.iter().enumerate() {
                k += 1;
                if (ti + 5 * g + seed as usize) % m != 0 {
                    continue;
                }
                nsel += 1;
                let size = SIZES[(nsel + seed as usize / 4) % 4];
                let mut cv = vec![0u8; 128];
                if nsel % 7 == 0 {
                    cv = rng.bytes(128);
                } else {
                    rng.fill(&mut cv);
                }
                // one case in 12 enters an inconsistent state (datalen unrelated to the buffer)
                let nb = if nsel % 12 == 5 { (nbuf + 1 + rng.below(62) as usize) % 64 } else { nbuf };
                let hook = Hook { cv, datalen: d, buffered: content(rng, k, nb) };
                let msg = content(rng, k + ti, tail);
                let split = split_for(rng, tail);
                v.push(Input { size, hook: Some(hook), msg, split, stream: "hook", prestream: 0, one_call: false, upto: 0 });
            }
        }
    }
    v
}

fn digest_main(a: &Args) {
    let seed = a.u64("seed", 1);
    let shards = a.u64("shards", 16) as usize;
    let out = a.str("out", "/verif/_build/work/jh-manual");
    let thorough = a.str("tier", "quick") == "thorough";
    let streams = a.str("streams", "all");
    let runner = a.str("runner", "run_c06");
    let debug = cfg!(debug_assertions);
    std::panic::set_hook(Box::new(|_| {}));
    // back end of the crate's own `dispatch!` (compressor.rs `f8`): 0 = whatever the CPU detection picks,
    // 1..5 = SSE2, SSSE3, SSE4.1, AVX, AVX2 (hook H1): without this only the arm the host selects ever runs
    let level = a.u64("level", 0) as u8;
    #[cfg(all(cryptocorrosion_verif, not(feature = "no_simd")))]
    {
        jh_x86_64::simd::x86_64::verif::set_level(level);
        assert_eq!(jh_x86_64::simd::x86_64::verif::level(), level);
    }

    let mut rng = Rng::new(seed ^ 0x6a68_0006);
    let real = a.u64("real", 0);
    let big_update = a.u64("big-update", 0);
    let inputs = gen_inputs(&mut rng, thorough, &streams, real, big_update, seed);
    let mut chunked_at_big: Option<Hook> = None;
    let (mut len_checked, mut bad_len) = (0usize, 0usize);
    let mut direct: Vec<String> = Vec::new();
    let mut coq = Vec::new();
    let mut js = Vec::new();
    let mut samples: Vec<String> = Vec::new();
    let mut distinct = std::collections::HashSet::new();
    let mut by_stream: std::collections::BTreeMap<&str, usize> = Default::default();
    let mut by_size = [0usize; 4];
    let mut panics = 0usize;
    let mut max_len = 0usize;
    let mut blocks_total = 0usize;
    let mut one_call = 0usize;
    let mut beyond = 0usize;
    let mut inconsistent = 0usize;
    for (i, inp0) in inputs.iter().enumerate() {
        let o = run_input(inp0);
        // a really streamed prefix: the case records the state read back after it; the counter
        // must be the number of bytes streamed (direct statement of C17 on the implementation)
        let mut eff = inp0.clone();
        if o.at_upto.is_some() {
            chunked_at_big = o.at_upto.clone();
        }
        if inp0.prestream > 0 {
            match &o.pre {
                Some(pre) => {
                    if inp0.one_call {
                        // the state after ONE call must be the state after the same bytes in many calls
                        match &chunked_at_big {
                            Some(r) if r != pre => direct.push(format!(
                                "{{\"what\":\"state after ONE update call of 2^29+64 bytes differs from the state after the same bytes in many calls\",\"size\":{},\"bytes\":{},\"one_call\":{{\"cv\":{},\"datalen\":{},\"pos\":{}}},\"many_calls\":{{\"cv\":{},\"datalen\":{},\"pos\":{}}}}}",
                                inp0.size, inp0.prestream, jstr(&hex(&pre.cv)), pre.datalen, pre.buffered.len(), jstr(&hex(&r.cv)), r.datalen, r.buffered.len()
                            )),
                            _ => {}
                        }
                    }
                    if pre.datalen != inp0.prestream || pre.buffered.len() as u64 != inp0.prestream % 64 {
                        direct.push(format!(
                            "{{\"what\":\"datalen after really streaming\",\"size\":{},\"streamed\":{},\"datalen\":{},\"pos\":{}}}",
                            inp0.size, inp0.prestream, pre.datalen, pre.buffered.len()
                        ));
                    }
                    eff.hook = Some(pre.clone());
                }
                None => direct.push(format!("{{\"what\":\"panic while streaming\",\"size\":{},\"streamed\":{}}}", inp0.size, inp0.prestream)),
            }
        }
        let inp = &eff;
        *by_stream.entry(inp.stream).or_insert(0) += 1;
        by_size[SIZES.iter().position(|&s| s == inp.size).unwrap()] += 1;
        panics += o.panicked as usize;
        max_len = max_len.max(inp.msg.len());
        blocks_total += inp.msg.len() / 64 + 2;
        one_call += (inp.split == inp.msg.len()) as usize;
        if let Some(h) = &inp.hook {
            if (h.datalen as u128) + (inp.msg.len() as u128) >= 1u128 << 61 {
                beyond += 1;
            }
            if h.datalen % 64 != h.buffered.len() as u64 {
                inconsistent += 1;
            }
        }
        distinct.insert((inp.size, inp.hook.clone(), inp.msg.clone(), inp.split));
        // the Coq runner cuts the digest literal to size/8 bytes: the length actually returned is checked here
        let want_len = match inp.size { 224 => 28usize, 256 => 32, 384 => 48, _ => 64 };
        // the property speaks about messages below 2^61 bytes (64-bit bit-length field): entered states whose
        // total lies at or beyond are pinned to the behaviour as written and tagged, so that a later repair
        // there (a wider length field) can be told from a violation
        let domain = match &inp.hook {
            Some(h) if (h.datalen as u128) + (inp.msg.len() as u128) >= 1u128 << 61 =>
                "beyond the property's domain: datalen + message >= 2^61 bytes (behaviour as written is pinned: overflow checks panic, otherwise datalen * 8 wraps)",
            Some(h) if h.datalen % 64 != h.buffered.len() as u64 => "inconsistent entered state (datalen unrelated to the buffer): model only, the specification does not apply",
            _ => "within",
        };
        if !o.panicked {
            len_checked += 1;
            if o.digest.len() != want_len {
                bad_len += 1;
                if direct.len() < 12 {
                    direct.push(format!(
                        "{{\"what\":\"the digest returned does not have the variant's length\",\"size\":{},\"stream\":{},\"msg\":{},\"split\":{},\"hook_datalen\":{},\"digest_len\":{},\"expected_digest_len\":{},\"digest\":{}}}",
                        inp.size, jstr(inp.stream), jstr(&hex(&inp.msg)), inp.split,
                        match &inp.hook { Some(h) => format!("\"0x{:x}\"", h.datalen), None => "null".to_string() },
                        o.digest.len(), want_len, jstr(&hex(&o.digest))
                    ));
                }
            }
        }
        let empty = Hook { cv: Vec::new(), datalen: 0, buffered: Vec::new() };
        let hk = inp.hook.as_ref().unwrap_or(&empty);
        let lp = if inp.stream == "one_long_update" { lp_seed(&inp.msg) } else { None };
        coq.push(format!(
            "JHC {} {} {} {} {} {} {} {} {} {} {} {} {} {} {}",
            inp.size,
            debug,
            inp.hook.is_some(),
            nlit(&hk.cv),
            nlit_u64(hk.datalen),
            hk.buffered.len(),
            nlit(&hk.buffered),
            inp.msg.len(),
            match lp {
                Some(sd) => format!("(LP {} {})", inp.msg.len(), sd),
                None => nlit_long(&inp.msg),
            },
            inp.split,
            o.panicked,
            nlit_u64(o.adatalen),
            o.apos,
            nlit(&o.acv),
            nlit(&o.digest)
        ));
        let j = format!(
            "{{\"size\":{},\"profile\":{},\"backend_level\":{},\"stream\":{},\"domain\":{},\"digest_len\":{},\"hook\":{},\"msg_len\":{},\"msg\":{},\"split\":{},\"outcome\":{},\"after_updates\":{{\"datalen\":{},\"pos\":{},\"cv\":{}}},\"digest\":{}}}",
            inp.size,
            jstr(if debug { "debug" } else { "release" }),
            level,
            jstr(inp.stream),
            jstr(domain),
            o.digest.len(),
            match &inp.hook {
                None => "null".to_string(),
                Some(h) => format!(
                    "{{\"cv\":{},\"datalen\":{},\"buffered\":{}}}",
                    jstr(&hex(&h.cv)),
                    jstr(&format!("0x{:x}", h.datalen)),
                    jstr(&hex(&h.buffered))
                ),
            },
            inp.msg.len(),
            match lp {
                Some(sd) => jstr(&format!("byte i = x_i >> 8, x_0 = {}, x_(i+1) = (5 x_i + 12345) mod 65536; first bytes {}", sd, hex(&inp.msg[..16]))),
                None => jstr(&hex(&inp.msg)),
            },
            inp.split,
            jstr(if o.panicked { "panic" } else { "ok" }),
            jstr(&format!("0x{:x}", o.adatalen)),
            o.apos,
            jstr(&hex(&o.acv)),
            jstr(&hex(&o.digest))
        );
        if (inp.msg.len() == 17 && samples.len() < 2) || (inp.hook.is_some() && samples.len() < 4) || i + 1 == inputs.len() {
            if inp.msg.len() <= 200 {
                samples.push(j.clone());
            }
        }
        js.push(j);
    }
    write_shards(
        &out,
        shards,
        &format!("From Coq Require Import NArith List.\nFrom CC Require Import Run.Runner Run.JH.\n{}", LP_HEADER),
        "jhcase",
        &runner,
        &coq,
    );
    std::fs::write(format!("{}/cases.json", out), format!("[{}]", js.join(",\n"))).unwrap();
    let streams_js: Vec<String> = by_stream.iter().map(|(k, v)| format!("{}:{}", jstr(k), v)).collect();
    println!(
        "{{\"evaluations\":{},\"distinct_nontrivial\":{},\"profile\":{},\"by_size\":{{\"224\":{},\"256\":{},\"384\":{},\"512\":{}}},\"by_stream\":{{{}}},\"single_update_call\":{},\"panics\":{},\"hook_total_at_or_beyond_2_61\":{},\"hook_inconsistent_states\":{},\"max_msg_len\":{},\"f8_calls_total\":{},\"really_streamed_bytes\":{},\"single_update_of_2_29_plus_64_bytes\":{},\"backend_level\":{},\"digest_lengths_checked\":{},\"digests_of_wrong_length\":{},\"hook_selection_rotation\":{},\"direct_failures\":[{}],\"samples\":[{}]}}",
        inputs.len(),
        distinct.len(),
        jstr(if debug { "debug" } else { "release" }),
        by_size[0],
        by_size[1],
        by_size[2],
        by_size[3],
        streams_js.join(","),
        one_call,
        panics,
        beyond,
        inconsistent,
        max_len,
        blocks_total,
        inputs.iter().map(|i| i.prestream.max(i.upto)).sum::<u64>(),
        inputs.iter().filter(|i| i.one_call).count(),
        level,
        len_checked,
        bad_len,
        seed % 12,
        direct.join(","),
        samples.join(",")
    );
}

// ---------------------------------------------------------------------------------------------
// F8 directly
// ---------------------------------------------------------------------------------------------

const MACH_NAMES: [&str; 5] = ["host-dispatch", "sse2", "ssse3", "sse41", "avx2"];

fn to_storage(st: &[u8]) -> [vec128_storage; 8] {
    let mut s = [vec128_storage::default(); 8];
    for i in 0..8 {
        let mut w = [0u32; 4];
        for j in 0..4 {
            let mut b = [0u8; 4];
            b.copy_from_slice(&st[16 * i + 4 * j..16 * i + 4 * j + 4]);
            w[j] = u32::from_le_bytes(b);
        }
        s[i] = vec128_storage::from(w);
    }
    s
}
fn from_storage(s: &[vec128_storage; 8]) -> Vec<u8> {
    let mut v = Vec::with_capacity(128);
    for x in s.iter() {
        let w: [u32; 4] = (*x).into();
        for y in w.iter() {
            v.extend_from_slice(&y.to_le_bytes());
        }
    }
    v
}

#[target_feature(enable = "sse2")]
unsafe fn f8_sse2(s: &mut [vec128_storage; 8], d: *const u8) {
    f8_impl(SSE2::instance(), s, d)
}
#[target_feature(enable = "ssse3")]
unsafe fn f8_ssse3(s: &mut [vec128_storage; 8], d: *const u8) {
    f8_impl(SSSE3::instance(), s, d)
}
#[target_feature(enable = "sse4.1")]
unsafe fn f8_sse41(s: &mut [vec128_storage; 8], d: *const u8) {
    f8_impl(SSE41::instance(), s, d)
}
#[target_feature(enable = "avx2")]
unsafe fn f8_avx2(s: &mut [vec128_storage; 8], d: *const u8) {
    f8_impl(AVX2::instance(), s, d)
}

/// F8 on machine `m` (0 = Compressor with the host's run-time dispatch); None = panic
fn f8_on(m: usize, state: &[u8], block: &[u8]) -> Option<Vec<u8>> {
    // the block is copied to an odd address: read_unaligned must not care
    let mut blk = vec![0u8; 65];
    blk[1..].copy_from_slice(block);
    catch_unwind(AssertUnwindSafe(|| {
        if m == 0 {
            let mut a = [0u8; 128];
            a.copy_from_slice(state);
            let mut c = Compressor::new(a);
            c.input(digest::generic_array::GenericArray::from_slice(block));
            c.finalize().to_vec()
        } else {
            let mut s = to_storage(state);
            let p = blk[1..].as_ptr();
            unsafe {
                match m {
                    1 => f8_sse2(&mut s, p),
                    2 => f8_ssse3(&mut s, p),
                    3 => f8_sse41(&mut s, p),
                    _ => f8_avx2(&mut s, p),
                }
            }
            from_storage(&s)
        }
    }))
    .ok()
}

fn host_supports(m: usize) -> bool {
    match m {
        0 | 1 => true,
        2 => std::is_x86_feature_detected!("ssse3"),
        3 => std::is_x86_feature_detected!("sse4.1"),
        _ => std::is_x86_feature_detected!("avx2"),
    }
}

fn f8_inputs(rng: &mut Rng, thorough: bool) -> Vec<(Vec<u8>, Vec<u8>, &'static str)> {
    let mut v: Vec<(Vec<u8>, Vec<u8>, &'static str)> = Vec::new();
    let z128 = vec![0u8; 128];
    let z64 = vec![0u8; 64];
    // fixed points of interest
    v.push((z128.clone(), z64.clone(), "fixed"));
    v.push((vec![0xff; 128], vec![0xff; 64], "fixed"));
    v.push(((0..128).map(|i| i as u8).collect(), (0..64).map(|i| (128 + i) as u8).collect(), "fixed"));
    v.push((vec![0xff; 128], z64.clone(), "fixed"));
    v.push((z128.clone(), vec![0xff; 64], "fixed"));
    // unit vectors: 1024 state bits, 512 block bits (all in thorough, a rotating sample in quick)
    let step = if thorough { 1 } else { 8 };
    let off = if thorough { 0 } else { rng.below(8) as usize };
    let mut bit = off;
    while bit < 1024 {
        let mut s = z128.clone();
        s[bit / 8] = 1 << (bit % 8);
        v.push((s, z64.clone(), "unit_state"));
        bit += step;
    }
    let mut bit = off;
    while bit < 512 {
        let mut b = z64.clone();
        b[bit / 8] = 1 << (bit % 8);
        v.push((z128.clone(), b, "unit_block"));
        bit += step;
    }
    // unit vectors on a random background (every bit position of every register, sampled)
    let n_bg = if thorough { 1536 } else { 64 };
    for k in 0..n_bg {
        let mut s = vec![0u8; 128];
        let mut b = vec![0u8; 64];
        rng.fill(&mut s);
        rng.fill(&mut b);
        let bit = if thorough { k } else { rng.below(1536) as usize };
        if bit < 1024 {
            s[bit / 8] ^= 1 << (bit % 8);
        } else {
            b[(bit - 1024) / 8] ^= 1 << ((bit - 1024) % 8);
        }
        v.push((s, b, "flip_on_random"));
    }
    // random and structured
    let n_rand = if thorough { 4000 } else { 160 };
    for k in 0..n_rand {
        let (s, b) = if k % 4 == 3 {
            (rng.bytes(128), rng.bytes(64))
        } else {
            let mut s = vec![0u8; 128];
            let mut b = vec![0u8; 64];
            rng.fill(&mut s);
            rng.fill(&mut b);
            (s, b)
        };
        v.push((s, b, "random"));
    }
    v
}

fn f8_main(a: &Args) {
    let seed = a.u64("seed", 1);
    let shards = a.u64("shards", 16) as usize;
    let out = a.str("out", "/verif/_build/work/jh-f8-manual");
    let thorough = a.str("tier", "quick") == "thorough";
    let runner = a.str("runner", "run_c06_f8");
    let debug = cfg!(debug_assertions);
    std::panic::set_hook(Box::new(|_| {}));
    // machine 0 ("host-dispatch") goes through the crate's `dispatch!`: with --level 1..5 its other arms run
    let level = a.u64("level", 0) as u8;
    #[cfg(all(cryptocorrosion_verif, not(feature = "no_simd")))]
    jh_x86_64::simd::x86_64::verif::set_level(level);
    let mut rng = Rng::new(seed ^ 0x6a68_00f8);
    let inputs = f8_inputs(&mut rng, thorough);
    let machs: Vec<usize> = (0..5).filter(|&m| host_supports(m)).collect();
    let mut coq = Vec::new();
    let mut js = Vec::new();
    let mut samples = Vec::new();
    let mut distinct = std::collections::HashSet::new();
    let mut by_stream: std::collections::BTreeMap<&str, usize> = Default::default();
    let mut evaluations = 0usize;
    let mut disagreements = 0usize;
    let mut panics = 0usize;
    for (i, (s, b, stream)) in inputs.iter().enumerate() {
        *by_stream.entry(*stream).or_insert(0) += 1;
        // outputs grouped: every distinct output becomes one Coq case carrying the set of machines
        let mut groups: Vec<(Vec<u8>, u32)> = Vec::new();
        for &m in machs.iter() {
            evaluations += 1;
            let o = match f8_on(m, s, b) {
                Some(o) => o,
                None => {
                    panics += 1;
                    Vec::new() // an empty output never equals the model's
                }
            };
            match groups.iter_mut().find(|g| g.0 == o) {
                Some(g) => g.1 |= 1 << m,
                None => groups.push((o, 1 << m)),
            }
        }
        if groups.len() > 1 {
            disagreements += 1;
        }
        if s.iter().chain(b.iter()).any(|&x| x != 0) {
            distinct.insert((s.clone(), b.clone()));
        }
        for (o, mask) in groups.iter() {
            coq.push(format!("F8C {} {} {} {}", mask, nlit(s), nlit(b), nlit(o)));
            let names: Vec<String> = (0..5).filter(|m| mask & (1 << m) != 0).map(|m| jstr(MACH_NAMES[m])).collect();
            let j = format!(
                "{{\"stream\":{},\"machines\":[{}],\"profile\":{},\"state\":{},\"block\":{},\"out\":{}}}",
                jstr(stream),
                names.join(","),
                jstr(if debug { "debug" } else { "release" }),
                jstr(&hex(s)),
                jstr(&hex(b)),
                jstr(&hex(o))
            );
            if i == 2 || (*stream == "random" && samples.len() < 2) {
                samples.push(j.clone());
            }
            js.push(j);
        }
    }
    write_shards(
        &out,
        shards,
        "From Coq Require Import NArith List.\nFrom CC Require Import Run.Runner Run.JH.",
        "f8case",
        &runner,
        &coq,
    );
    std::fs::write(format!("{}/cases.json", out), format!("[{}]", js.join(",\n"))).unwrap();
    let streams_js: Vec<String> = by_stream.iter().map(|(k, v)| format!("{}:{}", jstr(k), v)).collect();
    let mnames: Vec<String> = machs.iter().map(|&m| jstr(MACH_NAMES[m])).collect();
    println!(
        "{{\"evaluations\":{},\"distinct_nontrivial\":{},\"profile\":{},\"inputs\":{},\"coq_cases\":{},\"machines\":[{}],\"inputs_on_which_machines_disagree\":{},\"panics\":{},\"backend_level_of_host_dispatch\":{},\"by_stream\":{{{}}},\"direct_failures\":[],\"samples\":[{}]}}",
        evaluations,
        distinct.len(),
        jstr(if debug { "debug" } else { "release" }),
        inputs.len(),
        coq.len(),
        mnames.join(","),
        disagreements,
        panics,
        level,
        streams_js.join(","),
        samples.join(",")
    );
}

// ---------------------------------------------------------------------------------------------
// repro: the 64-bit length field at 2^61 bytes and the usize byte counter at 2^64
// ---------------------------------------------------------------------------------------------

fn repro() {
    std::panic::set_hook(Box::new(|_| {}));
    let cv: Vec<u8> = (0..128).map(|i| (i * 7 + 1) as u8).collect();
    let profile = if cfg!(debug_assertions) { "debug" } else { "release" };
    for &(d, tail) in [((1u64 << 61) - 64, 63usize), ((1u64 << 61) - 64, 64), (1u64 << 61, 0), (u64::MAX - 63, 64), (64, 0)].iter() {
        let inp = Input {
            size: 256,
            hook: Some(Hook { cv: cv.clone(), datalen: d, buffered: Vec::new() }),
            msg: vec![0x61; tail],
            split: tail,
            stream: "repro",
            prestream: 0,
            one_call: false,
            upto: 0,
        };
        let o = run_input(&inp);
        println!(
            "{} Jh256 datalen=0x{:x} + {} bytes: {} digest={}",
            profile,
            d,
            tail,
            if o.panicked { "panic" } else { "ok" },
            hex(&o.digest)
        );
    }
}

fn main() {
    let argv: Vec<String> = std::env::args().collect();
    if argv.len() < 2 {
        eprintln!("usage: h_jh digest|f8|repro [--seed N --shards N --out DIR --tier quick|thorough --streams all|reduced|hook --real N --big-update 0|1|2 --level 0..5 --runner R]");
        std::process::exit(2);
    }
    let a = Args::parse(&argv[2..]);
    match argv[1].as_str() {
        "digest" => digest_main(&a),
        "f8" => f8_main(&a),
        "repro" => repro(),
        other => {
            eprintln!("unknown subcommand {}", other);
            std::process::exit(2);
        }
    }
}
